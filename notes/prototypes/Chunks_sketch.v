From Coq Require Import List Bool Arith Lia.
Import ListNotations.

(* Feasibility sketch for DESIGN.md C09_stream_wf: the one-chunk look-ahead loop of
   ExtendedToStreamDecorator._convert (real.py:1683-1703). *)
Definition chunk := list nat.
Record fev := { f_bytes : chunk; f_eof : bool }.

(* for next_bytes in content.iter_bytes(): if file_bytes is not None: emit(file_bytes, eof=False); file_bytes = next_bytes *)
Fixpoint loop (pending : option chunk) (cs : list chunk) (out : list fev) : option chunk * list fev :=
  match cs with
  | [] => (pending, out)
  | c :: r => loop (Some c) r (match pending with Some p => out ++ [{| f_bytes := p; f_eof := false |}] | None => out end)
  end.
(* if file_bytes is None: file_bytes = b""; emit(file_bytes, eof=True) *)
Definition convert (cs : list chunk) : list fev :=
  let '(pending, out) := loop None cs [] in
  out ++ [{| f_bytes := match pending with Some p => p | None => [] end; f_eof := true |}].

(* specification: every chunk in order, eof exactly on the last; a single empty eof chunk when there is none *)
Definition spec (cs : list chunk) : list fev :=
  match rev cs with
  | [] => [{| f_bytes := []; f_eof := true |}]
  | last :: rinit => map (fun c => {| f_bytes := c; f_eof := false |}) (rev rinit) ++ [{| f_bytes := last; f_eof := true |}]
  end.

Definition nf c := {| f_bytes := c; f_eof := false |}.
Lemma last_cons {A} (r : list A) c p : last (c :: r) p = last r c.
Proof. revert c p; induction r as [|x r IH]; intros c p; [reflexivity|]. change (last (c :: x :: r) p) with (last (x :: r) p). rewrite !IH. reflexivity. Qed.
Lemma removelast_cons2 {A} (p c : A) r : removelast (p :: c :: r) = p :: removelast (c :: r).
Proof. reflexivity. Qed.
Lemma loop_inv cs : forall p out,
  loop (Some p) cs out = (Some (last cs p), out ++ map nf (removelast (p :: cs))).
Proof.
  induction cs as [|c r IH]; intros p out.
  - simpl. rewrite app_nil_r. reflexivity.
  - simpl loop. rewrite IH. rewrite last_cons, removelast_cons2. simpl map. rewrite <- app_assoc. reflexivity.
Qed.

Theorem C09_chunks cs : convert cs = spec cs.
Proof.
  unfold convert, spec. destruct cs as [|c r]; [reflexivity|].
  change (loop None (c :: r) []) with (loop (Some c) r []). rewrite loop_inv.
  rewrite <- (last_cons r c c). change ([] ++ map nf (removelast (c :: r))) with (map nf (removelast (c :: r))).
  destruct (rev (c :: r)) as [|l ri] eqn:E.
  - apply (f_equal (@length chunk)) in E. rewrite rev_length in E. discriminate.
  - assert (H : c :: r = rev ri ++ [l]) by (rewrite <- (rev_involutive (c :: r)), E; reflexivity).
    rewrite H. rewrite removelast_last, last_last. reflexivity.
Qed.
(* consequences stated the way the property does *)
Corollary eof_only_last cs : map f_eof (convert cs) = repeat false (length (convert cs) - 1) ++ [true].
Proof.
  rewrite C09_chunks. unfold spec. destruct (rev cs) as [|l ri]; [reflexivity|].
  rewrite map_app, map_map, app_length, map_length. simpl. replace (length (rev ri) + 1 - 1) with (length (rev ri)) by lia.
  f_equal. induction (rev ri); simpl; congruence.
Qed.
Corollary bytes_preserved cs : concat (map f_bytes (convert cs)) = concat cs.
Proof.
  rewrite C09_chunks. unfold spec. destruct (rev cs) as [|l ri] eqn:E.
  - destruct cs; [reflexivity|]. apply (f_equal (@length chunk)) in E. rewrite rev_length in E. discriminate.
  - assert (H : cs = rev ri ++ [l]) by (rewrite <- (rev_involutive cs), E; reflexivity).
    rewrite H, map_app, map_map, !concat_app. simpl. rewrite map_id. reflexivity.
Qed.
Print Assumptions C09_chunks.
