From Coq Require Import List Bool Arith Lia.
Import ListNotations.

(* Feasibility sketch for DESIGN.md Appendix A.2 (C10): _StreamToTestRecord refines the segment spec. *)
Inductive status := Inprogress | Exists | Xfail | Uxsuccess | Success | Fail | Skip | Unknown.
Definition final (st : option status) : bool :=
  match st with None | Some Inprogress => false | _ => true end.

Record event := { e_id : option nat; e_route : option nat; e_status : option status;
                  e_tags : option (list nat); e_file : option (nat * list nat); e_ts : option nat }.
Record rcd := { r_id : nat; r_tags : list nat; r_details : list (nat * list nat);
                r_status : status; r_first : option nat; r_last : option nat }.
Definition key := (nat * option nat)%type.
Definition key_eqb (a b : key) : bool :=
  Nat.eqb (fst a) (fst b) && match snd a, snd b with None, None => true | Some x, Some y => Nat.eqb x y | _, _ => false end.

(* insertion-ordered dictionary *)
Fixpoint get {V} (k : key) (d : list (key * V)) : option V :=
  match d with [] => None | (k', v) :: r => if key_eqb k k' then Some v else get k r end.
Fixpoint put {V} (k : key) (v : V) (d : list (key * V)) : list (key * V) :=
  match d with [] => [(k, v)] | (k', v') :: r => if key_eqb k k' then (k', v) :: r else (k', v') :: put k v r end.
Fixpoint del {V} (k : key) (d : list (key * V)) : list (key * V) :=
  match d with [] => [] | (k', v') :: r => if key_eqb k k' then r else (k', v') :: del k r end.

Fixpoint add_bytes (name : nat) (bs : list nat) (d : list (nat * list nat)) :=
  match d with [] => [(name, bs)] | (n, b) :: r => if Nat.eqb n name then (n, b ++ bs) :: r else (n, b) :: add_bytes name bs r end.

Definition create (i : nat) (ts : option nat) : rcd :=
  {| r_id := i; r_tags := []; r_details := []; r_status := Unknown; r_first := ts; r_last := None |}.
(* _update_case *)
Definition upd (r : rcd) (e : event) : rcd :=
  let st := match e_status e with Some s => s | None => r_status r end in
  let det := match e_file e with Some (n, (_ :: _) as bs) => add_bytes n bs (r_details r) | _ => r_details r end in
  let tg := match e_tags e with Some t => t | None => r_tags r end in
  {| r_id := r_id r; r_tags := tg; r_details := det; r_status := st; r_first := r_first r; r_last := e_ts e |}.
Definition hung (r : rcd) : rcd :=
  {| r_id := r_id r; r_tags := r_tags r; r_details := r_details r; r_status := r_status r; r_first := r_first r; r_last := None |}.

(* implementation: table of records *)
Fixpoint consume (tbl : list (key * rcd)) (evs : list event) : list rcd :=
  match evs with
  | [] => map (fun kr => hung (snd kr)) (rev tbl)                      (* stopTestRun: popitem order *)
  | e :: r =>
    match e_id e with
    | None => consume tbl r
    | Some i =>
      let k := (i, e_route e) in
      let cur := match get k tbl with Some c => c | None => create i (e_ts e) end in
      let cur' := upd cur e in
      if final (e_status e) then cur' :: consume (del k tbl) r
      else consume (put k cur' tbl) r
    end
  end.

(* specification: table of open segments *)
Definition seg_record (i : nat) (seg : list event) : rcd :=
  fold_left upd seg (create i (match seg with e :: _ => e_ts e | [] => None end)).
Fixpoint spec (open : list (key * list event)) (evs : list event) : list rcd :=
  match evs with
  | [] => map (fun ks => hung (seg_record (fst (fst ks)) (snd ks))) (rev open)
  | e :: r =>
    match e_id e with
    | None => spec open r
    | Some i =>
      let k := (i, e_route e) in
      let seg := (match get k open with Some s => s | None => [] end) ++ [e] in
      if final (e_status e) then seg_record i seg :: spec (del k open) r
      else spec (put k seg open) r
    end
  end.

(* refinement relation: every table entry is the record of a non-empty open segment of its key *)
Definition absf (ks : key * list event) : key * rcd := (fst ks, seg_record (fst (fst ks)) (snd ks)).
Definition wf_open (open : list (key * list event)) := Forall (fun ks => snd ks <> []) open.

(* keys in the table agree with the key stored: fst k = id, used to rewrite seg_record's id *)
Lemma key_eqb_fst a b : key_eqb a b = true -> fst a = fst b.
Proof. unfold key_eqb. intros H. apply andb_prop in H. destruct H as [H _]. apply Nat.eqb_eq in H. exact H. Qed.

Lemma get_absf k open :
  get k (map absf open) = match get k open with Some s => Some (seg_record (fst k) s) | None => None end.
Proof.
  induction open as [|[k' s] r IH]; simpl; [reflexivity|].
  destruct (key_eqb k k') eqn:E; [|exact IH]. apply key_eqb_fst in E. simpl. rewrite E. reflexivity.
Qed.
Lemma put_absf k s open : fst k = fst k ->
  put k (seg_record (fst k) s) (map absf open) = map absf (put k s open).
Proof.
  intros _. induction open as [|[k' s'] r IH]; simpl; [reflexivity|].
  destruct (key_eqb k k') eqn:E; simpl.
  - apply key_eqb_fst in E. unfold absf at 2. simpl. rewrite E. reflexivity.
  - rewrite IH. reflexivity.
Qed.
Lemma del_absf k open : del k (map absf open) = map absf (del k open).
Proof. induction open as [|[k' s'] r IH]; simpl; [reflexivity|]. destruct (key_eqb k k'); simpl; [reflexivity|]. rewrite IH. reflexivity. Qed.

Lemma seg_record_snoc i seg e : seg <> [] -> seg_record i (seg ++ [e]) = upd (seg_record i seg) e.
Proof. intros H. unfold seg_record. rewrite fold_left_app. simpl. destruct seg; [contradiction|reflexivity]. Qed.

Lemma get_wf k open s : wf_open open -> get k open = Some s -> s <> [].
Proof.
  induction open as [|[k' s'] r IH]; simpl; intros W G; [discriminate|].
  inversion W; subst. destruct (key_eqb k k'); [inversion G; subst; assumption | auto].
Qed.
Lemma put_wf k s open : wf_open open -> s <> [] -> wf_open (put k s open).
Proof.
  induction open as [|[k' s'] r IH]; simpl; intros W H; [repeat constructor; assumption|].
  inversion W; subst. destruct (key_eqb k k'); constructor; simpl; auto.
  apply IH; assumption.
Qed.
Lemma del_wf k open : wf_open open -> wf_open (del k open).
Proof.
  induction open as [|[k' s'] r IH]; simpl; intros W; [constructor|].
  inversion W; subst. destruct (key_eqb k k'); [assumption | constructor; [assumption | apply IH; assumption]].
Qed.

Theorem C10_refines_gen : forall evs open, wf_open open -> consume (map absf open) evs = spec open evs.
Proof.
  induction evs as [|e r IH]; intros open W; simpl.
  - rewrite <- map_rev, map_map. reflexivity.
  - destruct (e_id e) as [i|]; [|apply IH; assumption].
    rewrite get_absf. simpl.
    destruct (get (i, e_route e) open) as [s|] eqn:G.
    + pose proof (get_wf _ _ _ W G) as Hs.
      rewrite <- (seg_record_snoc i s e Hs).
      destruct (final (e_status e)).
      * rewrite del_absf, IH by (apply del_wf; assumption). reflexivity.
      * change (seg_record i (s ++ [e])) with (seg_record (fst (i, e_route e)) (s ++ [e])).
        rewrite put_absf by reflexivity. apply IH. apply put_wf; [assumption|]. destruct s; discriminate.
    + change ([] ++ [e]) with [e]. change (upd (create i (e_ts e)) e) with (seg_record i [e]).
      destruct (final (e_status e)).
      * rewrite del_absf, IH by (apply del_wf; assumption). reflexivity.
      * change (seg_record i [e]) with (seg_record (fst (i, e_route e)) [e]).
        rewrite put_absf by reflexivity. apply IH. apply put_wf; [assumption|discriminate].
Qed.
Theorem C10_refines evs : consume [] evs = spec [] evs.
Proof. apply (C10_refines_gen evs []). constructor. Qed.

(* one characterisation lemma: the reported status is the last status given, else unknown *)
Fixpoint last_status (seg : list event) (d : status) : status :=
  match seg with [] => d | e :: r => last_status r (match e_status e with Some s => s | None => d end) end.
Lemma status_fold seg r : r_status (fold_left upd seg r) = last_status seg (r_status r).
Proof. revert r; induction seg as [|e s IH]; intros r; simpl; [reflexivity|]. rewrite IH. reflexivity. Qed.
Theorem seg_status i seg : r_status (seg_record i seg) = last_status seg Unknown.
Proof. unfold seg_record. rewrite status_fold. reflexivity. Qed.
Print Assumptions C10_refines. Print Assumptions seg_status.
