From Coq Require Import List Bool Arith Lia.
Import ListNotations.

Inductive tcall := TTime | TStart (n:nat) | TTags | TOutcome (n:nat) | TStop (n:nat).
Inductive micro := Acquire | Release | Call (c:tcall) (onraise : list micro).

(* ghost log: acquisitions, releases and target calls, tagged with the thread *)
Inductive gev := GAcq | GRel | GCall (c:tcall).

Record config := { sem : option nat; glog : list (nat * gev); pcs : list (list micro); ncalls : nat }.

Fixpoint upd {A} (l : list A) (i : nat) (x : A) : list A :=
  match l, i with
  | [], _ => []
  | _ :: r, 0 => x :: r
  | y :: r, S j => y :: upd r j x
  end.

Definition step (faults : nat -> bool) (c : config) (t : nat) : option config :=
  match nth_error (pcs c) t with
  | None => None
  | Some [] => None
  | Some (Acquire :: r) =>
      match sem c with
      | None => Some {| sem := Some t; glog := glog c ++ [(t, GAcq)]; pcs := upd (pcs c) t r; ncalls := ncalls c |}
      | Some _ => None
      end
  | Some (Release :: r) =>
      match sem c with
      | Some u => if Nat.eqb u t
                  then Some {| sem := None; glog := glog c ++ [(t, GRel)]; pcs := upd (pcs c) t r; ncalls := ncalls c |}
                  else None
      | None => None
      end
  | Some (Call tc h :: r) =>
      match sem c with
      | Some u => if Nat.eqb u t
                  then Some {| sem := sem c; glog := glog c ++ [(t, GCall tc)];
                               pcs := upd (pcs c) t (if faults (ncalls c) then h else r);
                               ncalls := S (ncalls c) |}
                  else None
      | None => None
      end
  end.

(* shape of program counters *)
Inductive wf_in : list micro -> Prop :=       (* inside a critical section *)
| wi_rel : forall r, wf_out r -> wf_in (Release :: r)
| wi_call : forall c h r, wf_in h -> wf_in r -> wf_in (Call c h :: r)
with wf_out : list micro -> Prop :=           (* outside *)
| wo_nil : wf_out []
| wo_acq : forall r, wf_in r -> wf_out (Acquire :: r).

Definition Inv (c : config) : Prop :=
  forall t pc, nth_error (pcs c) t = Some pc ->
    (sem c = Some t -> wf_in pc) /\ (sem c <> Some t -> wf_out pc).

Lemma nth_upd_same {A} (l : list A) i x y : nth_error l i = Some y -> nth_error (upd l i x) i = Some x.
Proof. revert i; induction l as [|a l IH]; intros [|i] H; simpl in *; try discriminate; auto. Qed.
Lemma nth_upd_other {A} (l : list A) i j x : i <> j -> nth_error (upd l i x) j = nth_error l j.
Proof. revert i j; induction l as [|a l IH]; intros [|i] [|j] H; simpl; auto; try congruence. Qed.

Theorem step_inv faults c t c' : Inv c -> step faults c t = Some c' -> Inv c'.
Proof.
  unfold step. intros HI.
  destruct (nth_error (pcs c) t) as [pc|] eqn:Et; [|discriminate].
  destruct pc as [|m r]; [discriminate|].
  destruct (HI t _ Et) as [Hin Hout].
  destruct m as [| |tc h].
  - (* Acquire *)
    destruct (sem c) as [u|] eqn:Es; [discriminate|].
    intros E; inversion E; subst; clear E. intros t' pc' Hn; simpl in *.
    destruct (Nat.eq_dec t t') as [->|Hne].
    + rewrite (nth_upd_same _ _ _ _ Et) in Hn. inversion Hn; subst.
      assert (Ho : wf_out (Acquire :: pc')) by (apply Hout; discriminate).
      inversion Ho; subst. split; [auto | congruence].
    + rewrite nth_upd_other in Hn by assumption.
      destruct (HI t' _ Hn) as [_ Ho']. split; [intros E; inversion E; congruence | intros _; apply Ho'; rewrite Es; discriminate].
  - (* Release *)
    destruct (sem c) as [u|] eqn:Es; [|discriminate].
    destruct (Nat.eqb u t) eqn:Eu; [|discriminate]. apply Nat.eqb_eq in Eu; subst u.
    intros E; inversion E; subst; clear E. intros t' pc' Hn; simpl in *.
    split; [discriminate|intros _].
    destruct (Nat.eq_dec t t') as [->|Hne].
    + rewrite (nth_upd_same _ _ _ _ Et) in Hn. inversion Hn; subst.
      assert (Hi : wf_in (Release :: pc')) by (apply Hin; congruence). inversion Hi; subst; assumption.
    + rewrite nth_upd_other in Hn by assumption.
      destruct (HI t' _ Hn) as [_ Ho']. apply Ho'. rewrite Es. congruence.
  - (* Call *)
    destruct (sem c) as [u|] eqn:Es; [|discriminate].
    destruct (Nat.eqb u t) eqn:Eu; [|discriminate]. apply Nat.eqb_eq in Eu; subst u.
    intros E; inversion E; subst; clear E. intros t' pc' Hn; simpl in *.
    destruct (Nat.eq_dec t t') as [->|Hne].
    + rewrite (nth_upd_same _ _ _ _ Et) in Hn. inversion Hn; subst.
      assert (Hi : wf_in (Call tc h :: r)) by (apply Hin; congruence). inversion Hi; subst.
      split; [intros _; destruct (faults (ncalls c)); assumption | congruence].
    + rewrite nth_upd_other in Hn by assumption. destruct (HI t' _ Hn) as [Hi' Ho']. rewrite Es in Hi', Ho'. split; assumption.
Qed.

(* every schedule preserves the invariant *)
Definition step' faults c t := match step faults c t with Some c' => c' | None => c end.
Theorem sched_inv faults sched : forall c, Inv c -> Inv (fold_left (step' faults) sched c).
Proof.
  induction sched as [|t s IH]; intros c H; simpl; [assumption|].
  apply IH. unfold step'. destruct (step faults c t) eqn:E; [eapply step_inv; eauto | assumption].
Qed.

(* no deadlock: some unfinished thread => some thread can step *)
Theorem no_deadlock faults c : Inv c ->
  (forall u, sem c = Some u -> u < length (pcs c)) ->
  (exists t pc, nth_error (pcs c) t = Some pc /\ pc <> []) ->
  exists t, step faults c t <> None.
Proof.
  intros HI Hb [t [pc [Ht Hne]]].
  destruct (sem c) as [u|] eqn:Es.
  - (* the holder can step *)
    assert (Hu : u < length (pcs c)) by (apply Hb; reflexivity).
    destruct (nth_error (pcs c) u) as [pcu|] eqn:Eu; [|apply nth_error_None in Eu; lia].
    destruct (HI u _ Eu) as [Hin _]. rewrite Es in Hin. specialize (Hin eq_refl).
    exists u. unfold step. rewrite Eu, Es. inversion Hin; subst; rewrite Nat.eqb_refl; discriminate.
  - (* semaphore free: t itself can acquire *)
    destruct (HI t _ Ht) as [_ Hout]. rewrite Es in Hout. specialize (Hout ltac:(discriminate)).
    exists t. unfold step. rewrite Ht, Es. inversion Hout; subst; [contradiction | discriminate].
Qed.
Print Assumptions sched_inv.
Print Assumptions no_deadlock.

(* a test block as the real code issues it *)
Definition block (n : nat) (with_tags : bool) : list micro :=
  [Acquire; Call TTime [Release]; Call (TStart n) [Release]; Call TTime [Release]]
  ++ (if with_tags then [Call TTags [Release]] else [])
  ++ [Call (TOutcome n) [Call (TStop n) [Release]; Release]; Call (TStop n) [Release]; Release].
Lemma block_wf n b r : wf_out r -> wf_out (block n b ++ r).
Proof. intros H; unfold block; destruct b; simpl; repeat constructor; assumption. Qed.
Definition c0 := {| sem := None; glog := []; pcs := [block 1 true ++ block 2 false; block 3 false]; ncalls := 0 |}.
Eval vm_compute in glog (fold_left (step' (fun k => Nat.eqb k 4)) [0;1;1;0;0;0;1;0;0;0;0;1;1;1;1;1;1;1;1;1;0] c0).
