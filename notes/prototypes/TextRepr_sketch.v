From Coq Require Import List Bool Arith Lia.
Import ListNotations.

(* Feasibility sketch for DESIGN.md C07: token-level text_repr(multiline=True) round trip.
   Characters: Q = single quote; everything else is abstract (its escaped form is self-delimiting
   and contains no raw single quote, so only quotes interact with the delimiter). *)
Inductive ch := Q | O (n : nat).
Definition isQ c := match c with Q => true | _ => false end.

(* a quote gets a backslash iff two more quotes follow it immediately:
   = "the first k-2 quotes of every maximal run of k >= 3" (checked against the implementation) *)
Fixpoint mark (l : list ch) : list (ch * bool) :=
  match l with
  | [] => []
  | c :: r => (c, match c, r with Q, Q :: Q :: _ => true | _, _ => false end) :: mark r
  end.
(* text_repr: body = mark (s ++ "''"), then the closing quote *)
Definition text_repr_tok (s : list ch) : list (ch * bool) := mark (s ++ [Q; Q]) ++ [(Q, false)].

(* literal evaluation: the body ends at the first three consecutive raw quotes *)
Fixpoint eval (l : list (ch * bool)) : option (list ch) :=
  match l with
  | [] => None
  | x :: r =>
    match x, r with
    | (Q, false), (Q, false) :: (Q, false) :: _ => Some []
    | _, _ => option_map (cons (fst x)) (eval r)
    end
  end.

Definition flag (c : ch) (l : list ch) : bool := match c, l with Q, Q :: Q :: _ => true | _, _ => false end.
Lemma mark_cons c l : mark (c :: l) = (c, flag c l) :: mark l.
Proof. reflexivity. Qed.

(* evaluation steps over every item produced by mark, provided at least two characters follow:
   a raw quote is by definition not followed by two quotes, so it cannot start the delimiter *)
Lemma eval_step c a b t F :
  eval ((c, flag c (a :: b :: t)) :: mark (a :: b :: t) ++ [F])
  = option_map (cons c) (eval (mark (a :: b :: t) ++ [F])).
Proof. destruct c, a, b; reflexivity. Qed.

Lemma two_more (r : list ch) : exists a b t, r ++ [Q; Q] = a :: b :: t.
Proof. destruct r as [|x [|y r']]; simpl; eauto. Qed.

Lemma eval_mark : forall s, eval (mark (s ++ [Q; Q]) ++ [(Q, false)]) = Some s.
Proof.
  induction s as [|c r IH]; [reflexivity|].
  change ((c :: r) ++ [Q; Q]) with (c :: (r ++ [Q; Q])). rewrite mark_cons.
  destruct (two_more r) as [a [b [t E]]]. rewrite E in *.
  change (((c, flag c (a :: b :: t)) :: mark (a :: b :: t)) ++ [(Q, false)])
    with ((c, flag c (a :: b :: t)) :: mark (a :: b :: t) ++ [(Q, false)]).
  rewrite eval_step, IH. reflexivity.
Qed.
Theorem C07_text_repr_tok_roundtrip s : eval (text_repr_tok s) = Some s.
Proof. apply eval_mark. Qed.
Print Assumptions C07_text_repr_tok_roundtrip.
Eval vm_compute in text_repr_tok [O 1; Q; Q; Q; Q; O 2; Q].
