From Coq Require Import List Bool Arith Lia.
Import ListNotations.

(* tag sets as lists compared extensionally *)
Definition tag := nat.
Definition mem (x : tag) (s : list tag) : bool := existsb (Nat.eqb x) s.
Definition union (a b : list tag) := a ++ b.
Definition diff (a b : list tag) := filter (fun x => negb (mem x b)) a.
Definition seteq (a b : list tag) := forall x, mem x a = mem x b.
Infix "≡" := seteq (at level 70).

Lemma mem_union x a b : mem x (union a b) = mem x a || mem x b.
Proof. unfold mem, union. apply existsb_app. Qed.
Lemma mem_diff x a b : mem x (diff a b) = mem x a && negb (mem x b).
Proof.
  unfold diff. induction a as [|y a IH]; simpl; [reflexivity|].
  destruct (negb (mem y b)) eqn:E; simpl.
  - rewrite IH. destruct (Nat.eqb x y) eqn:Exy; simpl; [|reflexivity].
    apply Nat.eqb_eq in Exy; subst. rewrite E. reflexivity.
  - rewrite IH. destruct (Nat.eqb x y) eqn:Exy; simpl; [|reflexivity].
    apply Nat.eqb_eq in Exy; subst. rewrite E. simpl. destruct (mem y a); reflexivity.
Qed.

(* TagContext.change_tags *)
Definition apply1 (cur : list tag) (ch : list tag * list tag) := diff (union cur (fst ch)) (snd ch).
(* _merge_tags *)
Definition merge1 (ex ch : list tag * list tag) : list tag * list tag :=
  (diff (union (fst ex) (fst ch)) (snd ch), diff (union (snd ex) (snd ch)) (fst ch)).
Definition disjoint (ch : list tag * list tag) := forall x, mem x (fst ch) && mem x (snd ch) = false.

(* applying a change after a merged change = applying the merged pair *)
Lemma merge_step B ex ch : disjoint ch ->
  apply1 (apply1 B ex) ch ≡ apply1 B (merge1 ex ch).
Proof.
  intros D x. specialize (D x). unfold apply1, merge1; simpl.
  rewrite !mem_diff, !mem_union, !mem_diff, !mem_union.
  destruct (mem x B), (mem x (fst ex)), (mem x (snd ex)), (mem x (fst ch)), (mem x (snd ch)); simpl in *; congruence.
Qed.

Lemma apply1_ext a b ch : a ≡ b -> apply1 a ch ≡ apply1 b ch.
Proof. intros H x. unfold apply1. rewrite !mem_diff, !mem_union, H. reflexivity. Qed.

Theorem C17_merge : forall chs B ex, Forall disjoint chs ->
  fold_left apply1 chs (apply1 B ex) ≡ apply1 B (fold_left merge1 chs ex).
Proof.
  induction chs as [|ch chs IH]; intros B ex HD; simpl; [intros x; reflexivity|].
  inversion HD as [|? ? Hd Hds]; subst.
  intros x. rewrite <- (IH B (merge1 ex ch) Hds x).
  clear IH. revert x. 
  assert (G : forall a b, a ≡ b -> fold_left apply1 chs a ≡ fold_left apply1 chs b).
  { clear. induction chs as [|c cs IH]; intros a b H; simpl; [assumption|]. apply IH. apply apply1_ext. assumption. }
  apply G. apply merge_step. assumption.
Qed.
Print Assumptions C17_merge.

(* the law is false without disjointness *)
Example merge_needs_disjoint : exists B ex ch, ~ (apply1 (apply1 B ex) ch ≡ apply1 B (merge1 ex ch)).
Proof. exists [1], ([],[]), ([1],[1]). intros H. specialize (H 1). vm_compute in H. discriminate. Qed.
