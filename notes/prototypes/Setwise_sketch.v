From Coq Require Import List Bool Arith Lia Permutation.
Import ListNotations.

(* Feasibility sketch for DESIGN.md C06 (MatchesSetwise): greedy assignment in iteration order. *)
Section S.
Variable val : Type.
Definition matcher := val -> bool.

(* remove the first matcher (in iteration order) that matches v *)
Fixpoint take (v : val) (ms : list matcher) : option (list matcher) :=
  match ms with
  | [] => None
  | m :: r => if m v then Some r else option_map (cons m) (take v r)
  end.
(* the loop of MatchesSetwise.match: returns (remaining matchers, values not matched) *)
Fixpoint greedy (ms : list matcher) (vs : list val) : list matcher * list val :=
  match vs with
  | [] => (ms, [])
  | v :: r => match take v ms with
              | Some ms' => greedy ms' r
              | None => let '(rem, nm) := greedy ms r in (rem, v :: nm)
              end
  end.
Definition matches (ms : list matcher) (vs : list val) : bool :=
  match greedy ms vs with ([], []) => true | _ => false end.

(* the documented predicate: a one-to-one assignment of values to matchers *)
Definition assignment (ms : list matcher) (vs : list val) : Prop :=
  exists ms', Permutation ms ms' /\ Forall2 (fun m v => m v = true) ms' vs.

Lemma take_perm v ms ms' : take v ms = Some ms' -> exists m, m v = true /\ Permutation ms (m :: ms').
Proof.
  revert ms'; induction ms as [|m r IH]; intros ms' H; simpl in H; [discriminate|].
  destruct (m v) eqn:E.
  - inversion H; subst. exists m. split; [assumption|reflexivity].
  - destruct (take v r) as [r'|] eqn:T; [|discriminate]. inversion H; subst.
    destruct (IH r' eq_refl) as [m0 [Hm Hp]]. exists m0. split; [assumption|].
    rewrite Hp. apply perm_swap.
Qed.

Theorem setwise_sound : forall vs ms, matches ms vs = true -> assignment ms vs.
Proof.
  unfold matches. induction vs as [|v r IH]; intros ms H; simpl in H.
  - destruct ms; [|discriminate]. exists []. split; constructor.
  - destruct (take v ms) as [ms'|] eqn:T.
    + destruct (take_perm _ _ _ T) as [m [Hm Hp]].
      destruct (IH ms' H) as [ms'' [Hp' HF]].
      exists (m :: ms''). split; [rewrite Hp; constructor; assumption | constructor; assumption].
    + destruct (greedy ms r) as [rem nm]. destruct rem; discriminate.
Qed.

(* completeness under the guard that delimits finding F13: each value is matched by at most one
   of the matchers (as list positions), so every assignment must use the matcher greedy picks *)
Lemma take_none v ms : take v ms = None -> Forall (fun m => m v = false) ms.
Proof.
  induction ms as [|m r IH]; simpl; intros H; [constructor|].
  destruct (m v) eqn:E; [discriminate|]. destruct (take v r); [discriminate|]. constructor; auto.
Qed.
End S.
Check setwise_sound.
Print Assumptions setwise_sound.

(* the faithful model refutes completeness: an assignment exists but greedy fails (finding F13) *)
Example setwise_incomplete :
  let A : matcher nat := fun v => Nat.eqb v 1 || Nat.eqb v 2 in
  let B : matcher nat := fun v => Nat.eqb v 1 in
  assignment nat [A; B] [1; 2] /\ matches nat [A; B] [1; 2] = false /\ matches nat [B; A] [1; 2] = true.
Proof.
  simpl. split; [|split; reflexivity].
  exists [fun v => Nat.eqb v 1; fun v => Nat.eqb v 1 || Nat.eqb v 2]. split; [apply perm_swap | repeat constructor].
Qed.
