From Coq Require Import List Bool Arith Lia.
Import ListNotations.

(* Feasibility sketch for DESIGN.md C01/C02: faithful "last exception wins" run model.
   Simplification to undo in coq/Model/Run.v: the cleanup phase must return its own
   "some cleanup failed" flag (here approximated by "it collected an exception"), so
   that an empty MultipleExceptions raised by a cleanup shows up as finding F3. *)
Inductive exc := ESkip | EFail | EXFail | EUx | EErr | EBase (b:nat) | EMulti (l : list exc).
Inductive outcome := OSuccess | OSkip | OFail | OXFail | OUx | OErr.
Inductive ev := Start | Out (o:outcome) | Stop.
(* a stage: its log token, the cleanups it registers (before raising), how it ends *)
Inductive stage := Stage (tok:nat) (regs : list stage) (fin : option exc).

Section exc_ind'.
  Variable P : exc -> Prop.
  Hypothesis H0 : P ESkip. Hypothesis H1 : P EFail. Hypothesis H2 : P EXFail.
  Hypothesis H3 : P EUx. Hypothesis H4 : P EErr. Hypothesis H5 : forall b, P (EBase b).
  Hypothesis H6 : forall l, Forall P l -> P (EMulti l).
  Fixpoint exc_ind' (e:exc) : P e :=
    match e with
    | ESkip => H0 | EFail => H1 | EXFail => H2 | EUx => H3 | EErr => H4 | EBase b => H5 b
    | EMulti l => H6 l ((fix go (l:list exc) : Forall P l :=
                           match l with [] => Forall_nil _ | x::r => Forall_cons x (exc_ind' x) (go r) end) l)
    end.
End exc_ind'.
Section stage_ind'.
  Variable P : stage -> Prop.
  Hypothesis H : forall t regs fin, Forall P regs -> P (Stage t regs fin).
  Fixpoint stage_ind' (s:stage) : P s :=
    match s with Stage t regs fin =>
      H t regs fin ((fix go (l:list stage) : Forall P l :=
                       match l with [] => Forall_nil _ | x::r => Forall_cons x (stage_ind' x) (go r) end) regs)
    end.
End stage_ind'.

Fixpoint flat (e:exc) : list exc :=
  match e with
  | EMulti l => (fix go (l:list exc) := match l with [] => [] | x::r => flat x ++ go r end) l
  | _ => [e]
  end.
Definition raised (s:stage) : list exc := match s with Stage _ _ (Some e) => flat e | _ => [] end.
Definition failed (s:stage) : bool := match s with Stage _ _ (Some _) => true | _ => false end.
Definition regs_of (s:stage) := match s with Stage _ r _ => r end.
Definition tok_of (s:stage) := match s with Stage t _ _ => t end.

(* a cleanup runs, then (LIFO) everything it registered: later registrations first *)
Fixpoint run_rec (s:stage) : list nat * list exc :=
  match s with
  | Stage t regs fin =>
    (fix go (l:list stage) : list nat * list exc :=
       match l with
       | [] => ([t], raised s)
       | c :: r => let '(lg, ex) := go r in          (* later registrations first *)
                   let '(lg', ex') := run_rec c in (lg ++ lg', ex ++ ex')
       end) regs
  end.
(* the cleanup phase pops the stack: the last registered cleanup first *)
Definition run_cleanups (stack : list stage) : list nat * list exc :=
  fold_right (fun c acc => let '(lg,ex) := run_rec c in (fst acc ++ lg, snd acc ++ ex)) ([],[]) stack.

Record prog := { setUp : stage; body : stage; tearDown : stage; force_failure : bool }.

Definition handled (e:exc) : option outcome :=
  match e with ESkip => Some OSkip | EFail => Some OFail | EXFail => Some OXFail | EUx => Some OUx
             | EErr => Some OErr | EBase _ => None | EMulti _ => Some OErr end.
Definition report_last (exs : list exc) : list ev * option exc :=
  match rev exs with
  | [] => ([], None)
  | e :: _ => match handled e with Some o => ([Out o], None) | None => ([Out OErr], Some e) end
  end.
Definition nonnil {A} (l:list A) : bool := match l with [] => false | _ => true end.

Definition run_core (p:prog) : list nat * list exc * bool :=
  let s := setUp p in
  if failed s then
    let '(lg,ex) := run_cleanups (regs_of s) in ([tok_of s] ++ lg, raised s ++ ex, false)
  else
    let b := body p in let t := tearDown p in
    let '(lg,ex) := run_cleanups (regs_of s ++ regs_of b ++ regs_of t) in
    let exs := raised b ++ raised t ++ ex ++ (if force_failure p then [EFail] else []) in
    let anyfail := failed b || failed t || nonnil ex || force_failure p in
    ([tok_of s; tok_of b; tok_of t] ++ lg, exs, negb anyfail).
Definition run (p:prog) : list ev * option exc * list nat :=
  let '(lg, exs, succ) := run_core p in
  let '(outs, prop) := report_last exs in
  (Start :: (if succ then [Out OSuccess] else []) ++ outs ++ [Stop], prop, lg).
Definition is_out e := match e with Out _ => true | _ => false end.
Definition count_out (l:list ev) := length (filter is_out l).

(* wf: no MultipleExceptions without constituents, at any depth (finding F3 is its negation) *)
Fixpoint wf_exc (e:exc) : bool :=
  match e with
  | EMulti l => nonnil l && (fix go l := match l with [] => true | x::r => wf_exc x && go r end) l
  | _ => true end.
Definition wf_top (s:stage) : bool := match s with Stage _ _ (Some e) => wf_exc e | _ => true end.

Lemma flat_nonempty e : wf_exc e = true -> flat e <> [].
Proof.
  induction e as [| | | | | b | l IH] using exc_ind'; try (simpl; discriminate).
  simpl. destruct l as [|x r]; [discriminate|]. simpl. intros Hw. apply andb_prop in Hw. destruct Hw as [Hx _].
  inversion IH as [|? ? IHx _]; subst. intro E. apply app_eq_nil in E. destruct E as [E _]. exact (IHx Hx E).
Qed.
Lemma failed_raised s : wf_top s = true -> failed s = true -> raised s <> [].
Proof. destruct s as [t r [e|]]; simpl; intros; [apply flat_nonempty; assumption | discriminate]. Qed.
Lemma notfailed_raised s : failed s = false -> raised s = [].
Proof. destruct s as [t r [e|]]; simpl; intros; [discriminate | reflexivity]. Qed.

Lemma count_report exs : count_out (fst (report_last exs)) = if nonnil exs then 1 else 0.
Proof.
  unfold report_last. destruct exs as [|x r]; [reflexivity|].
  destruct (rev (x :: r)) as [|e r'] eqn:E.
  - apply (f_equal (@length exc)) in E. rewrite rev_length in E. discriminate.
  - simpl. destruct (handled e); reflexivity.
Qed.

Lemma count_shape A B : count_out (Start :: A ++ B ++ [Stop]) = count_out A + count_out B.
Proof. unfold count_out. simpl. rewrite !filter_app, !app_length. simpl. lia. Qed.
Lemma nonnil_app {A} (a b : list A) : nonnil (a ++ b) = nonnil a || nonnil b.
Proof. destruct a; reflexivity. Qed.
Lemma failed_nonnil s : wf_top s = true -> nonnil (raised s) = failed s.
Proof.
  intros W. destruct (failed s) eqn:F.
  - pose proof (failed_raised _ W F). destruct (raised s); [contradiction|reflexivity].
  - rewrite (notfailed_raised _ F). reflexivity.
Qed.

(* the success flag and the collected exceptions agree: the heart of "exactly one outcome" *)
Lemma succ_iff p : wf_top (setUp p) = true -> wf_top (body p) = true -> wf_top (tearDown p) = true ->
  let '(_, exs, succ) := run_core p in succ = negb (nonnil exs).
Proof.
  intros Ws Wb Wt. unfold run_core.
  destruct (failed (setUp p)) eqn:Fs.
  - destruct (run_cleanups _) as [lg ex]. rewrite nonnil_app, (failed_nonnil _ Ws), Fs. reflexivity.
  - destruct (run_cleanups _) as [lg ex].
    rewrite !nonnil_app, (failed_nonnil _ Wb), (failed_nonnil _ Wt).
    destruct (force_failure p), (failed (body p)), (failed (tearDown p)), (nonnil ex); reflexivity.
Qed.

Theorem C01_exactly_one p :
  wf_top (setUp p) = true -> wf_top (body p) = true -> wf_top (tearDown p) = true ->
  count_out (fst (fst (run p))) = 1.
Proof.
  intros Ws Wb Wt. pose proof (succ_iff p Ws Wb Wt) as H. unfold run.
  destruct (run_core p) as [[lg exs] succ]. subst succ.
  pose proof (count_report exs) as C. destruct (report_last exs) as [outs prop]. simpl in *.
  rewrite count_shape, C. destruct (nonnil exs); reflexivity.
Qed.
Print Assumptions C01_exactly_one.

(* the faithful model exhibits finding F1: an interrupt in the body is swallowed by a later ordinary error *)
Example F1_refuted : exists p, In (EBase 0) (raised (body p)) /\ snd (fst (run p)) = None.
Proof.
  exists {| setUp := Stage 1 [Stage 10 [] (Some EErr)] None; body := Stage 2 [] (Some (EBase 0));
            tearDown := Stage 3 [] None; force_failure := false |}.
  split; [left; reflexivity | vm_compute; reflexivity].
Qed.
