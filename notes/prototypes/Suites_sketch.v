From Coq Require Import List Bool Arith Lia Permutation Sorted Orders Mergesort.
Import ListNotations.

Definition id := nat.
Inductive node := Case (i : id) | Plain (l : list node) | Custom (sortable : bool) (l : list node).

Section node_ind'.
  Variable P : node -> Prop.
  Hypothesis HC : forall i, P (Case i).
  Hypothesis HP : forall l, Forall P l -> P (Plain l).
  Hypothesis HU : forall b l, Forall P l -> P (Custom b l).
  Fixpoint node_ind' (n : node) : P n :=
    let fix go (l : list node) : Forall P l :=
      match l with [] => Forall_nil _ | x :: r => Forall_cons x (node_ind' x) (go r) end in
    match n with Case i => HC i | Plain l => HP l (go l) | Custom b l => HU b l (go l) end.
End node_ind'.

Fixpoint iterate (n : node) : list id :=
  match n with
  | Case i => [i]
  | Plain l | Custom _ l => flat_map iterate l
  end.

Fixpoint filter_ids (keep : id -> bool) (n : node) : node :=
  match n with
  | Case i => if keep i then n else Plain []
  | Plain l => Plain (map (filter_ids keep) l)
  | Custom b l => Custom b (map (filter_ids keep) l)
  end.

Lemma flat_map_map {A B C} (f : A -> B) (g : B -> list C) l : flat_map g (map f l) = flat_map (fun x => g (f x)) l.
Proof. induction l; simpl; congruence. Qed.
Lemma filter_flat_map {A B} (p : B -> bool) (f : A -> list B) l : filter p (flat_map f l) = flat_map (fun x => filter p (f x)) l.
Proof. induction l as [|x l IH]; simpl; [reflexivity|]. rewrite filter_app, IH. reflexivity. Qed.
Lemma flat_map_ext_Forall {A B} (f g : A -> list B) l : Forall (fun x => f x = g x) l -> flat_map f l = flat_map g l.
Proof. induction 1; simpl; congruence. Qed.

Theorem C19_filter keep n : iterate (filter_ids keep n) = filter keep (iterate n).
Proof.
  induction n as [i | l IH | b l IH] using node_ind'; simpl.
  - destruct (keep i); reflexivity.
  - rewrite flat_map_map, filter_flat_map. apply flat_map_ext_Forall. exact IH.
  - rewrite flat_map_map, filter_flat_map. apply flat_map_ext_Forall. exact IH.
Qed.

(* sorted_tests: flatten the plain part, keep custom suites whole under the key of their first test *)
Definition key := option id.   (* None: empty custom suite; sorts first (after the F8 repair) *)
Definition key_le (a b : key) : bool :=
  match a, b with None, _ => true | Some _, None => false | Some x, Some y => x <=? y end.
Fixpoint flatten_top (n : node) : list (key * node) :=
  match n with
  | Case i => [(Some i, n)]
  | Plain l => flat_map flatten_top l
  | Custom _ _ => [(hd_error (iterate n), n)]
  end.

Module KOrder <: TotalLeBool.
  Definition t := (key * node)%type.
  Definition leb (a b : t) := key_le (fst a) (fst b).
  Theorem leb_total : forall a b, leb a b = true \/ leb b a = true.
  Proof. intros [[x|] ?] [[y|] ?]; unfold leb, key_le; simpl; auto. destruct (x <=? y) eqn:E; auto. right. apply Nat.leb_le. apply Nat.leb_gt in E. lia. Qed.
End KOrder.
Module KSort := Sort KOrder.

Definition sorted_members (n : node) : list (key * node) := KSort.sort (flatten_top n).
Definition sorted_tests (n : node) : node := Plain (map snd (sorted_members n)).

Lemma iterate_flatten_top n : flat_map (fun kn => iterate (snd kn)) (flatten_top n) = iterate n.
Proof.
  induction n as [i | l IH | b l IH] using node_ind'.
  - reflexivity.
  - simpl. induction IH as [|x l Hx _ IHl]; simpl; [reflexivity|]. rewrite flat_map_app, Hx, IHl. reflexivity.
  - simpl. rewrite app_nil_r. reflexivity.
Qed.

Lemma perm_flat_map {A B} (f : A -> list B) l l' : Permutation l l' -> Permutation (flat_map f l) (flat_map f l').
Proof. induction 1; simpl; auto. - apply Permutation_app_head; assumption. - rewrite !app_assoc. apply Permutation_app_tail, Permutation_app_comm. - etransitivity; eauto. Qed.

Theorem C19_sorted_perm n : Permutation (iterate (sorted_tests n)) (iterate n).
Proof.
  unfold sorted_tests; simpl. rewrite flat_map_map. rewrite <- (iterate_flatten_top n).
  apply perm_flat_map. symmetry. apply KSort.Permuted_sort.
Qed.
Theorem C19_sorted_sorted n : LocallySorted (fun a b => is_true (KOrder.leb a b)) (sorted_members n).
Proof. apply KSort.LocallySorted_sort. Qed.
Print Assumptions C19_filter. Print Assumptions C19_sorted_perm. Print Assumptions C19_sorted_sorted.

Definition ex := Plain [Case 3; Custom false [Case 9; Case 1]; Plain [Case 2; Custom true []]].
Eval vm_compute in (iterate ex, iterate (filter_ids (fun i => Nat.leb i 3) ex), iterate (sorted_tests ex)).
