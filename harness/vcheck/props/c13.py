"""C13 - concurrent suites run every test once, deliver every event, terminate (testsuite.py)."""
import re

from .. import coqio as q
from . import c12

PROP = "C13"
CORR = "Corr.C13"
REQUIRES = ["Model.Tfr", "Model.Concur", "Spec.C12", "Spec.C13"]
PROOF_FILES = ["Proof/C13.v", "Proof/C13Classic.v", "Proof/C13Thms.v"]
MANIFEST = {
    "text": "PARTIAL (scheduler granularity). Coq theorems over every number of sub-suites, every script, every fault "
            "plan and EVERY schedule about hand-written small-step interleaving models of ConcurrentTestSuite.run and "
            "ConcurrentStreamTestSuite.run with their _run_test wrappers (Model/Concur.v on top of Model/Tfr.v: main "
            "thread, workers, completion/event queue, spawn/put/get/join steps, the except clause): every yielded "
            "sub-suite started once in its own thread, run() returns normally only when every worker has finished, "
            "every event a worker emits reaches the caller's result once, in that worker's order, with its route code "
            "(stream) / one test at a time (classic, by the C12 invariant), a raising run() gives one errored "
            "broken-runner test, an aborted run() stops every started and unreaped worker and re-raises, no reachable "
            "configuration is deadlocked. Tied to /repo on every run by driving the REAL suites with REAL threads "
            "under a deterministic scheduler (testtools.testsuite.threading / Queue rebound from the harness) and "
            "comparing with the model inside coqc; the oracle is the executable statement spec_okb.",
    "note": "Partial: the theorems cover every interleaving at the granularity of operations on shared objects "
            "(Thread.start, queue.put/get, Thread.join, semaphore.acquire/release, each call on the caller's result); "
            "preemption inside the bytecode between two such operations is not explored (it rests on CPython's memory "
            "model, queue.Queue's and threading's own correctness). The abort path does not join the workers (the "
            "statement does not ask it to). Attachment-only stream events (their number depends on traceback "
            "formatting) are delivered but neither scheduled nor compared; their count is checked by the harness. "
            "Trusted: Coq kernel + vm_compute; harness scheduler and doubles; Gallina printer.",
    "technique": "Coq proof (invariants over all schedules of a small-step interleaving semantics) + model/"
                 "implementation correspondence with real threads under a deterministic scheduler",
    "ref": "6 C13",
}
RULE = ("the real ConcurrentTestSuite / ConcurrentStreamTestSuite with 0-4 sub-suites of 0-3 tests (classic: scripted "
        "TestResult calls through the ThreadsafeForwardingResult incl. tags/times/all outcomes; stream: sub-suites with "
        "arbitrary route codes from make_tests (None, distinct, EQUAL for several sub-suites - also in the "
        "bounded-exhaustive core), stream-native "
        "workers emitting status events with own route codes and the timestamp keyword left out / passed explicitly "
        "as None with the full status() signature (a replayed event dict) / set to the worker's own datetime), sub-suites whose run() raises (Exception -> broken-runner, BaseException -> thread "
        "dies), make_tests raising after k sub-suites, an interrupt at the n-th queue.get, the caller's result raising "
        "at a chosen call; schedules: every schedule with <= 1 (quick) / <= 2 (thorough) preemptions for fixed "
        "programs, seeded random otherwise; non-trivial = >= 2 workers each emitting >= 1 event; distinct = distinct JSON")
TRUSTED = ["harness/vcheck/sched.py: stands in for the whole small vocabulary of `threading` (Thread, Semaphore, "
           "BoundedSemaphore, Lock, RLock, Event, Condition) and of `queue` (Queue / SimpleQueue with blocking, timed and "
           "non-blocking get; a timed wait expires only when no thread can move) - which primitives the code uses is open",
           "harness/vcheck/sched.py: deterministic scheduler for real threads; yield points at Thread.start, "
           "queue.put/get (get enabled only when non-empty), Thread.join (enabled only when the worker finished), "
           "semaphore.acquire/release and every call on the caller's result; preemption between yield points is not "
           "explored (PARTIAL)",
           "testtools.testsuite.threading, .Queue and .testtools are rebound from the harness for the duration of one "
           "case and restored afterwards"]
ASSUMPTIONS = ["a sub-suite's run(result) does not catch what the result raises (it propagates, as from TestCase.run)",
               "stream: a queue item is attributed to the worker whose thread put it, and an event main passes to the "
               "caller's result to the worker whose item main dequeued last (harness knowledge; route codes may be "
               "shared by several sub-suites and identify nobody)",
               "stream: attachment-only events travel with the worker's next status event (harness queue); the "
               "startTestRun queue item (ignored by main) is not a scheduling point and not observed - which thread "
               "opens a worker's result, and when, is left open by the statement",
               "on an abort the workers told to stop are observed as a set (flags); the comparison with the model "
               "(Corr.C13.alpha) is per thread, not of the global interleaving, ignores main's acquire/stop()/release "
               "inside the abort handler and the live flags of an aborted run",
               "the interrupt of the caller of run() arrives in its FIRST blocking wait for its workers (queue.get, or "
               "Thread.join where the code uses no queue): how many waits there are is not fixed by the statement, so "
               "'the n-th wait' means the same for every allowed implementation only for n = 0",
               "fault plans are per thread (the k-th call of thread t on the caller's result raises); for the caller of "
               "the classic suite's run() only the FIRST stop() of the abort handler is made to raise (number and order "
               "of these calls are not fixed by the statement)"]
EXPLANATION = ("Theorems in coq/Props/C13.v over all schedules; correspondence: the real concurrent suites with real "
               "threads under harness/vcheck/sched.py against coq/Model/Concur.v.")
CASE_TIMEOUT = 40

STATUSES = ["inprogress", "success", "fail", "skip", "exists", "xfail", "uxsuccess"]
Boom, BoomBase = c12.Boom, c12.BoomBase


# ---------------- driving the implementation ----------------
class StopRecorder:
    """wrap_result of the classic suite: remembers that the caller of run() called stop()"""

    def __init__(self, tsr, sched):
        self._tsr = tsr
        self._sched = sched
        self.stopped = False

    def stop(self):
        if self._sched.current_tid() == 0:
            self.stopped = True
        return self._tsr.stop()

    def __getattr__(self, name):
        return getattr(self._tsr, name)


class ClassicSub:
    def __init__(self, w, script, exc):
        self.w, self.script, self.exc = w, script, exc

    def run(self, result):
        for c in self.script:
            if c[0] == "raise":
                raise self.exc()
            c12.apply_call(result, c)


def ev_ts(c):
    """how the worker spells the timestamp argument: "omit" | "none" | n (its own datetime number n)"""
    return c[4] if len(c) > 4 else "omit"


def own_datetime(n):
    import datetime
    from testtools.testresult.real import utc
    return datetime.datetime(2000, 1, 1, tzinfo=utc) + datetime.timedelta(seconds=n)


def ts_kind(timestamp):
    """a timestamp as seen on the queue / by the caller's result: "no" | "now" | n (a worker's own datetime)"""
    if timestamp is None:
        return "no"
    if timestamp.year == 2000:
        import datetime
        return int((timestamp.replace(tzinfo=None) - datetime.datetime(2000, 1, 1)).total_seconds())
    return "now"


class StreamSub:
    """a stream-native sub-suite: emits StreamResult events directly (allowed by the run() docstring)"""

    def __init__(self, w, script, exc):
        self.w, self.script, self.exc = w, script, exc

    def run(self, result):
        for c in self.script:
            if c[0] == "raise":
                raise self.exc()
            route = None if c[3] is None else "x%d" % c[3]
            ts = ev_ts(c)
            if ts == "omit":      # keyword left out
                result.status(test_id="t%d" % c[1], test_status=STATUSES[c[2]], route_code=route)
            elif ts == "none":    # a recorded event dict replayed with status(**event): every keyword spelled out
                event = dict(test_id="t%d" % c[1], test_status=STATUSES[c[2]], test_tags=None, runnable=True,
                             file_name=None, file_bytes=None, eof=False, mime_type=None, route_code=route,
                             timestamp=None)
                result.status(**event)
            else:                 # its own timestamp
                result.status(test_id="t%d" % c[1], test_status=STATUSES[c[2]], route_code=route,
                              timestamp=own_datetime(ts))


def route_str(r):
    """the route code make_tests yields with a sub-suite: None, or the string for code number r"""
    return None if r is None else "r%d" % r


def suite_route(s, w):
    """route code number of sub-suite w (cases written before route codes could repeat: distinct codes)"""
    return s["route"] if "route" in s else w


def parse_route(rc):
    """a route code as it travels -> [sub-suite's code, the event's own code] ("r3/x1", "r3", "x1", None)"""
    if rc is None:
        return [None, None]
    m = re.fullmatch(r"(?:r(\d+))?(?:(?:(?<=\d)/)?x(\d+))?", rc)
    if not m or rc == "":
        return [998, None]
    return [None if m.group(1) is None else int(m.group(1)), None if m.group(2) is None else int(m.group(2))]


def parse_id(test_id, route):
    """route: the route code string of the sub-suite of the worker the event came from"""
    m = re.fullmatch(r"t(\d+)", test_id or "")
    if m:
        return int(m.group(1))
    if test_id == "broken-runner-'%s'" % (route,):
        return 999
    return 998


def is_attachment(item):
    return (isinstance(item, dict) and item.get("event") == "status" and item.get("test_status") is None
            and item.get("file_name") is not None)


def invisible(item):
    """queue items that are neither scheduled nor observed: attachment-only events (their number depends on
    traceback formatting) and the startTestRun item - main ignores it, and the statement does not say which
    thread opens a worker's result or when"""
    return is_attachment(item) or (isinstance(item, dict) and item.get("event") == "startTestRun")


class Describe:
    """What travels through the queue, as the observation names it.  A queue item is attributed to the WORKER
    THAT PUT IT (harness knowledge: which thread called put) - never to a route code, which several sub-suites
    may share: completion tokens of the classic suite whatever object the suite uses as token, stream event
    dicts by object identity.  `last_owner` is the worker whose item main dequeued last: the event main then
    passes to the caller's result came from that worker."""

    def __init__(self, sched, routes):
        self.sched, self.routes = sched, routes
        self.owner = {}
        self.last_owner = 998

    def route_of(self, w):
        return self.routes[w] if 0 <= w < len(self.routes) else "?"

    def __call__(self, item):
        tid = self.sched.current_tid()
        if isinstance(item, dict):
            key = ("d", id(item))
        else:
            try:
                key = ("h", hash(item), type(item).__name__)
            except TypeError:
                key = ("i", id(item))
        if tid != 0:
            self.owner[key] = tid - 1
        w = self.owner.get(key, 998)
        if tid == 0:
            self.last_owner = w
        if not isinstance(item, dict):
            return ["token", w]
        ev = item.get("event")
        if ev in ("startTestRun", "stopTestRun"):
            return ["start" if ev == "startTestRun" else "stop", w]
        st = item.get("test_status")
        return ["status", w, parse_id(item.get("test_id"), self.route_of(w)), STATUSES.index(st) if st in STATUSES else 99,
                parse_route(item.get("route_code")), ts_kind(item.get("timestamp"))]


class StreamTarget:
    """the caller's StreamResult: status() is a yield point (attachment-only events excepted)"""

    def __init__(self, sched, trace, faults, exc, desc):
        self._sched, self._trace, self._faults, self._exc, self._desc = sched, trace, set(faults), exc, desc
        self._n = 0
        self.n_invisible = 0

    def startTestRun(self):
        raise AssertionError("the suite must not call startTestRun on the caller's result")

    stopTestRun = startTestRun

    def status(self, test_id=None, test_status=None, test_tags=None, runnable=True, file_name=None, file_bytes=None,
               eof=False, mime_type=None, route_code=None, timestamp=None):
        if test_status is None and file_name is not None:
            self.n_invisible += 1
            return
        self._sched.park()
        k = self._n
        self._n += 1
        raised = k in self._faults
        w = self._desc.last_owner
        st = STATUSES.index(test_status) if test_status in STATUSES else 99
        self._trace.append((self._sched.current_tid(), "status", w, parse_id(test_id, self._desc.route_of(w)), st,
                            parse_route(route_code), ts_kind(timestamp), raised))
        if raised:
            raise self._exc()


def drive(case):
    import testtools
    import testtools.testsuite as ts
    from ..sched import Scheduler, SchedQueue, ThreadingNamespace

    class CountingQueue(SchedQueue):
        n_attachments_put = 0

        def put(self, item, block=True, timeout=None):
            if is_attachment(item):
                self.n_attachments_put += 1
            return SchedQueue.put(self, item, block, timeout)
    stream = case["variant"] == "stream"
    exc = BoomBase if case["base"] else Boom
    sched = Scheduler(case["sched"])
    trace = []
    ns = ThreadingNamespace(sched, sem_log=trace)
    queues = []
    routes = [route_str(suite_route(s, w)) for w, s in enumerate(case["suites"])] if stream else []
    desc = Describe(sched, routes)

    def make_queue(maxsize=0):
        qq = CountingQueue(sched, log=trace, get_faults=[] if case["get_intr"] is None else [case["get_intr"]],
                        exc=BoomBase, describe=desc, invisible=invisible)
        queues.append(qq)
        return qq
    n = len(case["suites"])
    mt = case["mt_raise"]
    state = {"raised": None, "live": None, "stops": None}
    recorders = []
    process_results = []

    if stream:
        subs = [StreamSub(w, s["script"], exc) for w, s in enumerate(case["suites"])]

        def make_tests():
            for k, sub in enumerate(subs):
                if mt == k:
                    raise exc()
                yield sub, routes[k]
            if mt is not None and mt == n:
                raise exc()

        class RecordingE2S(testtools.ExtendedToStreamDecorator):
            def __init__(self, decorated):
                super().__init__(decorated)
                process_results.append(self)

        class TesttoolsProxy:
            ExtendedToStreamDecorator = RecordingE2S

            def __getattr__(self, name):
                return getattr(testtools, name)
        target = StreamTarget(sched, trace, case["main_faults"], exc, desc)
        suite = ts.ConcurrentStreamTestSuite(make_tests)
    else:
        subs = [ClassicSub(w, s["script"], exc) for w, s in enumerate(case["suites"])]

        def make_tests(_suite):
            for k, sub in enumerate(subs):
                if mt == k:
                    raise exc()
                yield sub
            if mt is not None and mt == n:
                raise exc()

        def wrap(tsr, i):
            r = StopRecorder(tsr, sched)
            recorders.append(r)
            return r
        faults = {w + 1: set(s["faults"]) for w, s in enumerate(case["suites"])}
        faults[0] = set(case["main_faults"])
        tlog = []

        class TraceLog(list):
            def append(self, e):     # Target logs (tid, "call", what, raised)
                trace.append(e)
        target = c12.Target(sched, TraceLog(), faults, exc)
        import unittest
        suite = ts.ConcurrentTestSuite(unittest.TestSuite(), make_tests, wrap_result=wrap)

    def main():
        try:
            suite.run(target)
            state["raised"] = False
        except (Boom, BoomBase):
            state["raised"] = True
        state["live"] = [th.is_alive() for th in ns.threads]
        if stream:
            state["stops"] = [w for w, pr in enumerate(process_results) if pr.shouldStop]
        else:
            state["stops"] = [w for w, r in enumerate(recorders) if r.stopped]

    # every name through which the module under test can reach a queue class: `Queue` / `SimpleQueue` imported
    # into it, or the `queue` module itself
    import queue as _stdqueue

    class QueueModule:
        Queue = LifoQueue = PriorityQueue = SimpleQueue = staticmethod(make_queue)
        Empty, Full = _stdqueue.Empty, _stdqueue.Full
    rebound = {"threading": ns, "Queue": make_queue}
    for name in ("SimpleQueue", "LifoQueue"):
        if hasattr(ts, name):
            rebound[name] = make_queue
    if hasattr(ts, "queue"):
        rebound["queue"] = QueueModule
    if stream:
        rebound["testtools"] = TesttoolsProxy()
    if case["get_intr"] is not None:
        # code that waits for its workers WITHOUT any queue (join only): the interrupt arrives in the n-th join
        waits = {"n": 0}

        def join_hook(th):
            if sched.current_tid() != 0 or queues:
                return
            k = waits["n"]
            waits["n"] += 1
            if k == case["get_intr"]:
                sched.park()
                trace.append((0, "getintr"))
                raise BoomBase()
        ns.Thread.join_hook = staticmethod(join_hook)
    missing = object()
    saved = {name: getattr(ts, name, missing) for name in rebound}
    try:
        for name, value in rebound.items():
            setattr(ts, name, value)
        sched.spawn(main)
        sched.run()
    finally:
        for name, value in saved.items():
            if value is missing:
                delattr(ts, name)
            else:
                setattr(ts, name, value)
        sched.shutdown()
    if sched.hung:
        raise RuntimeError("a thread neither reached a yield point nor finished (hung)")
    unexpected = [repr(t.exc) for t in sched.tasks if t.exc is not None and not isinstance(t.exc, (Boom, BoomBase))]
    if unexpected:
        raise RuntimeError("thread ended with an unexpected exception: %s" % unexpected[:2])
    if state["raised"] is None and not sched.deadlock:
        raise RuntimeError("run() ended with an unexpected exception: %r" % (sched.tasks[0].exc,))
    if stream and queues and not sched.deadlock and state["raised"] is False:
        if queues[0].n_attachments_put != target.n_invisible:
            raise RuntimeError("attachment-only events lost: %d put on the queue, %d delivered" % (
                queues[0].n_attachments_put, target.n_invisible))
    sem_free = True
    if not stream and ns.semaphores:
        sem_free = all(m.count == m.initial for m in ns.semaphores)
    return {"trace": [list(e) for e in trace], "raised": bool(state["raised"]), "live": state["live"] or [],
            "stops": state["stops"] or [], "deadlock": sched.deadlock, "sem_free": sem_free}


# ---------------- Gallina ----------------
def t_tstamp(k):
    return "TNo" if k == "no" else "TNow" if k == "now" else "(TOwn %s)" % q.nat(k)


def t_tsarg(k):
    return "TsOmit" if k == "omit" else "TsNone" if k == "none" else "(TsAt %s)" % q.nat(k)


def t_rcode(rc):
    return q.pair(q.option(rc[0], q.nat), q.option(rc[1], q.nat))


def t_qitem(d):
    if d[0] == "token":
        return "(QToken %s)" % q.nat(d[1])
    if d[0] == "start":
        return "(QStart %s)" % q.nat(d[1])
    if d[0] == "stop":
        return "(QStop %s)" % q.nat(d[1])
    return "(QStatus %s %s %s %s %s)" % (q.nat(d[1]), q.nat(d[2]), q.nat(d[3]), t_rcode(d[4]), t_tstamp(d[5]))


def t_cev(e):
    t = q.nat(e[0])
    k = e[1]
    if k == "acq":
        return "(%s, CG EAcq)" % t
    if k == "rel":
        return "(%s, CG ERel)" % t
    if k == "call":
        return "(%s, CG (ECall %s %s))" % (t, c12.t_tcall(e[2]), q.boolean(e[3]))
    if k == "spawn":
        return "(%s, CSpawn %s)" % (t, q.nat(e[2]))
    if k == "join":
        return "(%s, CJoin %s)" % (t, q.nat(e[2]))
    if k == "put":
        return "(%s, CPut %s)" % (t, t_qitem(e[2]))
    if k == "get":
        return "(%s, CGet %s)" % (t, t_qitem(e[2]))
    if k == "getintr":
        return "(%s, CGetIntr)" % t
    if k == "status":
        return "(%s, CStatus %s %s %s %s %s %s)" % (t, q.nat(e[2]), q.nat(e[3]), q.nat(e[4]), t_rcode(e[5]),
                                                   t_tstamp(e[6]), q.boolean(e[7]))
    raise ValueError(e)


def t_rcall(c):
    return "RRaise" if c[0] == "raise" else c12.t_rcall(c)


def t_sitem(c):
    if c[0] == "raise":
        return "SRaise"
    return "(SEv %s %s %s %s)" % (q.nat(c[1]), q.nat(c[2]), q.option(c[3], q.nat), t_tsarg(ev_ts(c)))


def term(case, o):
    common = [("mt_raise", q.option(case["mt_raise"], q.nat)), ("get_intr", q.option(case["get_intr"], q.nat)),
              ("main_faults", q.lst([q.nat(k) for k in case["main_faults"]])), ("base", q.boolean(case["base"])),
              ("sched", q.lst([q.nat(t) for t in case["sched"]]))]
    if case["variant"] == "stream":
        suites = q.lst([q.lst([t_sitem(c) for c in s["script"]]) for s in case["suites"]])
        routes = q.lst([q.option(suite_route(s, w), q.nat) for w, s in enumerate(case["suites"])])
        i = "(IStream %s)" % q.record([("si_suites", suites), ("si_routes", routes)] + [("si_" + k, v) for k, v in common])
    else:
        suites = q.lst([q.pair(q.lst([t_rcall(c) for c in s["script"]]), q.lst([q.nat(k) for k in s["faults"]]))
                        for s in case["suites"]])
        i = "(IClassic %s)" % q.record([("ci_suites", suites)] + [("ci_" + k, v) for k, v in common])
    ob = q.record([("o_trace", q.lst([t_cev(e) for e in o["trace"]])),
                   ("o_raised", q.boolean(o["raised"])),
                   ("o_live", q.lst([q.boolean(b) for b in o["live"]])),
                   ("o_stops", q.lst([q.nat(w) for w in o["stops"]])),
                   ("o_deadlock", q.boolean(o["deadlock"])),
                   ("o_sem_free", q.boolean(o["sem_free"]))])
    return q.pair(i, ob)


def perturb(case, o):
    o = dict(o)
    o["trace"] = [list(e) for e in o["trace"]] + [[0, "getintr"]]
    o["deadlock"] = not o["deadlock"]      # something the comparison (Corr.C13.alpha) keeps for every input
    return o


# ---------------- generation ----------------
def mk_case(variant, suites, sched, mt_raise=None, get_intr=None, main_faults=(), base=False):
    return {"variant": variant, "suites": suites, "sched": sched, "mt_raise": mt_raise, "get_intr": get_intr,
            "main_faults": sorted(main_faults), "base": base}


def csuite(script, faults=()):
    return {"script": script, "faults": sorted(faults)}


def ssuite(script, route="distinct"):
    return {"script": script} if route == "distinct" else {"script": script, "route": route}


def routed(suites, routes):
    """the same stream sub-suites with the given route codes (None or a code number; codes may repeat)"""
    return [dict(s, route=r) for s, r in zip(suites, routes)]


def c_steps(suite):
    return c12.n_sync(suite["script"])[0] + 9 + 1      # + broken runner block + put


def s_steps(suite):
    return len(suite["script"]) + 4


def rand_classic_suite(rng, w, allow_faults=True):
    script = c12.rand_script(rng, w + 1, rng.randint(0, 3), rich=rng.random() < 0.7)
    if rng.random() < 0.25:
        script.insert(rng.randint(0, len(script)), ["raise"])
    faults = set()
    if allow_faults and rng.random() < 0.25:
        top = max(1, c12.n_sync(script)[1] + 3)
        for _ in range(rng.choice([1, 1, 2])):
            faults.add(rng.randrange(top))
    return csuite(script, faults)


def rand_ts(rng, style):
    """how one event spells its timestamp, per worker style: a unittest-like worker always leaves it out, a
    replaying worker always passes None explicitly, a worker with a clock passes its own, mixed ones vary"""
    if style == "omit":
        return "omit"
    if style == "none":
        return "none"
    if style == "own":
        return rng.randrange(1, 60)
    return rng.choice(["omit", "none", rng.randrange(1, 60)])


def rand_stream_suite(rng, w):
    script = []
    route = rng.choice([None, None, 1, 1, 2, 3])
    style = rng.choice(["omit", "omit", "none", "own", "mixed", "mixed"])
    for j in range(rng.randint(0, 3)):
        t = 10 * (w + 1) + j
        if rng.random() < 0.8:
            script.append(["ev", t, 0, None, rand_ts(rng, style)])
        if rng.random() < 0.15:
            script.append(["ev", t, 4, rng.choice([None, 1]), rand_ts(rng, style)])
        script.append(["ev", t, rng.choice([1, 2, 3, 5, 6]), rng.choice([None, None, 1, 2]), rand_ts(rng, style)])
    if rng.random() < 0.25:
        script.insert(rng.randint(0, len(script)), ["raise"])
    return ssuite(script, route)


FIXED_CLASSIC = [csuite(c12.mk_test(11, 0, 1, 2) + c12.mk_test(12, 1, 3, 4, in_tags=[([1], [])])),
                 csuite([["tags", [7], []]] + c12.mk_test(21, 2, 5, 6) + [["raise"]]),
                 csuite(c12.mk_test(31, 3, None, 7))]
FIXED_STREAM = [ssuite([["ev", 11, 0, None, "omit"], ["ev", 11, 1, None, "none"], ["ev", 12, 0, 1, 5], ["ev", 12, 2, 1, "none"]]),
                ssuite([["ev", 21, 0, None, "none"], ["raise"], ["ev", 21, 1, None, "omit"]]),
                ssuite([["ev", 31, 3, 2, 9]])]


def generate(rng, tier):
    cases = []
    quick = tier == "quick"
    # ---- corner cases
    for v in ("classic", "stream"):
        one = csuite(c12.mk_test(1, 0, 1, 2)) if v == "classic" else ssuite([["ev", 1, 0, None, "none"], ["ev", 1, 1, None, "omit"]])
        cases.append(mk_case(v, [], []))
        cases.append(mk_case(v, [], [], mt_raise=0))
        cases.append(mk_case(v, [one], []))
        cases.append(mk_case(v, [one], [1] * 30))
        cases.append(mk_case(v, [one, one], [0, 1, 2] * 20, mt_raise=1))
        cases.append(mk_case(v, [one, one], [2, 1, 0] * 20, mt_raise=2))
        cases.append(mk_case(v, [one, one], [1, 2, 0] * 20, get_intr=0))
        cases.append(mk_case(v, [one, one], [1] * 12 + [0] * 4 + [2] * 12, get_intr=0, base=True))
        cases.append(mk_case(v, [one, one], [0, 0, 1, 2] * 10, main_faults=[0]))
        cases.append(mk_case(v, [one, one], [0, 0, 1, 2] * 10, get_intr=0, main_faults=[0]))
    # stream-native workers spelling the timestamp in each way, alone and next to each other
    for kinds in (["omit"], ["none"], [3], ["none", "omit", 4], [7, "none", "none"]):
        sc = [["ev", 40 + j, [0, 1, 2][j % 3], None if j % 2 == 0 else 1, k] for j, k in enumerate(kinds)]
        cases.append(mk_case("stream", [ssuite(sc)], []))
        cases.append(mk_case("stream", [ssuite(sc), ssuite(list(reversed(sc)))], [1, 2, 0] * 10))
    # sub-suites that were given EQUAL route codes (all None, 'a','a', 'a','b','a'): every worker is still
    # joined, every event delivered, an abort still stops every started worker; two of them raise, so that even
    # their broken-runner tests have the same id
    raising = ssuite([["ev", 51, 0, None, "omit"], ["raise"]])
    for routes in ([None, None], [1, 1], [None, None, None], [1, 2, 1], [1, 1, 1], [None, 1, None, 1]):
        pool = [FIXED_STREAM[0], FIXED_STREAM[1], raising, FIXED_STREAM[2]]
        suites = routed(pool[:len(routes)], routes)
        nw = len(routes)
        for sched in ([], list(range(1, nw + 1)) * 12, list(range(nw, -1, -1)) * 10, [0, nw, 0, 1] * 8):
            cases.append(mk_case("stream", suites, sched))
            cases.append(mk_case("stream", suites, sched, mt_raise=nw - 1))
            cases.append(mk_case("stream", suites, sched, get_intr=0))
            cases.append(mk_case("stream", suites, sched, main_faults=[2], base=True))
    # a worker LEAVING _run_test with an exception must still post its completion token:
    # (a) run() raises and the caller's result raises while the broken-runner test is reported,
    # (b) run() raises something that is not an Exception (sys.exit() in a test); next to a healthy worker
    healthy = csuite(c12.mk_test(21, 0, 5, 6) + c12.mk_test(22, 2, 7, 8))
    for sched in ([], [1] * 30, [2] * 30, [1, 2] * 20, [2, 2, 1, 0] * 12):
        for k in range(7):
            cases.append(mk_case("classic", [csuite([["raise"]], faults=[k]), healthy], sched))
            cases.append(mk_case("classic", [healthy, csuite(c12.mk_test(11, 0, 1, 2) + [["raise"]], faults=[7 + k])], sched))
        cases.append(mk_case("classic", [csuite([["raise"]]), healthy], sched, base=True))
        cases.append(mk_case("classic", [healthy, csuite(c12.mk_test(11, 0, 1, 2)[:3] + [["raise"]])], sched, base=True))
        cases.append(mk_case("stream", [ssuite([["raise"]]), FIXED_STREAM[0]], sched, base=True))
        cases.append(mk_case("stream", [FIXED_STREAM[0], ssuite([["ev", 5, 0, None], ["raise"]])], sched, base=True))
    # ---- bounded-exhaustive core
    for v, fixed, steps in (("classic", FIXED_CLASSIC, c_steps), ("stream", FIXED_STREAM, s_steps)):
        suites = fixed[:2] if quick else fixed
        if v == "stream":      # the exhaustive core runs sub-suites that share a route code
            suites = routed(suites, [1, 1] if quick else [1, None, 1])
        lens = [3 * len(suites) + 2] + [steps(s) for s in suites]
        scheds = c12.segment_schedules(lens, 1 if quick else 2)
        if len(scheds) > (700 if quick else 12000):
            scheds = rng.sample(scheds, 700 if quick else 12000)
        for s in scheds:
            cases.append(mk_case(v, suites, s))
        # abort variants under a sample of those schedules
        per = 40 if quick else 400
        variants = [dict(mt_raise=k) for k in range(len(suites) + 1)] + [dict(get_intr=0), dict(get_intr=0)]
        if v == "stream":
            variants += [dict(main_faults=[k]) for k in range(6)]
        else:
            # classic: the only call main makes on the caller's result is stop() inside the abort handler.  How many
            # such calls there are, and for which worker first, is left open by the statement, so "the k-th one
            # raises" means the same thing for every allowed behaviour only for k = 0 (the first one)
            variants += [dict(get_intr=0, main_faults=[0]), dict(mt_raise=1, main_faults=[0]), dict(mt_raise=2, main_faults=[0])]
        for kw in variants:
            for s in rng.sample(scheds, min(per, len(scheds))):
                cases.append(mk_case(v, suites, s, base=rng.random() < 0.3, **kw))
    # ---- random
    n_rand = 1400 if quick else 24000
    for _ in range(n_rand):
        v = rng.choice(["classic", "stream"])
        nw = rng.choice([1, 2, 2, 3, 3, 4])
        if v == "classic":
            suites = [rand_classic_suite(rng, w) for w in range(nw)]
            total = sum(c_steps(s) for s in suites) + 3 * nw + 2
        else:
            suites = [rand_stream_suite(rng, w) for w in range(nw)]
            total = 3 * sum(s_steps(s) for s in suites) + 2 * nw + 2
        kw = {}
        r = rng.random()
        if r < 0.15:
            kw["mt_raise"] = rng.randint(0, nw)
        elif r < 0.35:
            kw["get_intr"] = 0
        if rng.random() < (0.3 if v == "stream" else 0.15):
            kw["main_faults"] = [rng.randrange(6)] if v == "stream" else [0]
        style = rng.random()
        if style < 0.5:
            sched = [rng.randrange(nw + 1) for _ in range(rng.randint(0, total))]
        elif style < 0.8:
            sched = []
            for _ in range(rng.randint(1, 5)):
                sched += [rng.randrange(nw + 1)] * rng.randint(1, 12)
        else:
            sched = [k % (nw + 1) for k in range(total)]
        cases.append(mk_case(v, suites, sched, base=rng.random() < 0.25, **kw))
    return cases


def nontrivial(case):
    busy = [s for s in case["suites"] if any(c[0] in ("out", "ev") for c in s["script"])]
    return len(busy) >= 2


def shrink(case):
    ss = case["suites"]
    for w in range(len(ss)):
        new = ss[:w] + ss[w + 1:]
        sched = [x if x <= w else x - 1 for x in case["sched"] if x != w + 1]
        yield dict(case, suites=new, sched=sched)
    for w, s in enumerate(ss):
        for j in range(len(s["script"])):
            yield dict(case, suites=ss[:w] + [dict(s, script=s["script"][:j] + s["script"][j + 1:])] + ss[w + 1:])
        for j in range(len(s.get("faults", []))):
            yield dict(case, suites=ss[:w] + [dict(s, faults=s["faults"][:j] + s["faults"][j + 1:])] + ss[w + 1:])
        for j, c in enumerate(s["script"]):
            if c[0] == "ev" and ev_ts(c) != "omit":     # the plainest spelling of the timestamp
                yield dict(case, suites=ss[:w] + [dict(s, script=s["script"][:j] + [c[:4] + ["omit"]] + s["script"][j + 1:])]
                           + ss[w + 1:])
    if case["variant"] == "stream":      # route codes made distinct where the failure survives
        for w, s in enumerate(ss):
            if suite_route(s, w) != 20 + w:
                yield dict(case, suites=ss[:w] + [dict(s, route=20 + w)] + ss[w + 1:])
    for key in ("mt_raise",):
        if case[key] is not None:
            yield dict(case, **{key: None})
            if case[key] > 0:
                yield dict(case, **{key: case[key] - 1})
    if case["get_intr"] is not None:
        yield dict(case, get_intr=None)
    if case["main_faults"]:
        yield dict(case, main_faults=[])
    if case["base"]:
        yield dict(case, base=False)
    s = case["sched"]
    if s:
        yield dict(case, sched=s[:len(s) // 2])
        yield dict(case, sched=s[:-1])
        yield dict(case, sched=s[1:])


def distribution(cases):
    d = {"variant": {}, "workers": {}, "mt_raise": 0, "get_intr": 0, "main_faults": 0, "base_exception": 0,
         "suites_that_raise": 0, "worker_faults": 0, "sched_len": {},
         "stream_events_by_timestamp_argument": {"omitted": 0, "explicit None": 0, "own": 0},
         "stream_cases_with_a_repeated_route_code": 0, "stream_cases_with_route_None": 0}
    for c in cases:
        d["variant"][c["variant"]] = d["variant"].get(c["variant"], 0) + 1
        nw = len(c["suites"])
        d["workers"][nw] = d["workers"].get(nw, 0) + 1
        d["mt_raise"] += c["mt_raise"] is not None
        d["get_intr"] += c["get_intr"] is not None
        d["main_faults"] += bool(c["main_faults"])
        d["base_exception"] += c["base"]
        d["suites_that_raise"] += any(x[0] == "raise" for s in c["suites"] for x in s["script"])
        d["worker_faults"] += any(s.get("faults") for s in c["suites"])
        if c["variant"] == "stream":
            rts = [suite_route(su, w) for w, su in enumerate(c["suites"])]
            d["stream_cases_with_a_repeated_route_code"] += len(set(rts)) < len(rts)
            d["stream_cases_with_route_None"] += None in rts
            for su in c["suites"]:
                for x in su["script"]:
                    if x[0] == "ev":
                        k = ev_ts(x)
                        d["stream_events_by_timestamp_argument"][
                            "omitted" if k == "omit" else "explicit None" if k == "none" else "own"] += 1
        b = min(len(c["sched"]) // 10 * 10, 100)
        d["sched_len"][b] = d["sched_len"].get(b, 0) + 1
    return d
