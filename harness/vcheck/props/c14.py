"""C14 - Deferred-returning tests succeed iff all completed cleanly; reactor left clean
(twistedsupport/_runtest.py, _spinner.py).  The REAL AsynchronousDeferredRunTest (both
variants, logging options on/off) is driven over the virtual-time reactor of
vcheck.vreactor with real twisted Deferreds; a small fixed sample also runs on
the real global reactor (extra_checks)."""
import gc
import itertools
import json
import os
import subprocess
import sys

from .. import coqio as q

PROP = "C14"
CORR = "Corr.C14"
REQUIRES = ["Model.AsyncRun", "Spec.C14"]
PROOF_FILES = ["Proof/C14.v"]
MANIFEST = {
    "text": "PARTIAL. Coq theorems over all test programs of timed stages (setUp, test, tearDown, any number of "
            "cleanups; each returns / raises / returns an already fired Deferred / a Deferred firing or failing after "
            "any delay / an already fired Deferred whose chain is paused on an inner one firing after any delay / never "
            "fires, and may leave delayed calls, log an error, drop a failed Deferred, raise skip or "
            "KeyboardInterrupt), all timeouts and interrupt instants, both runner variants, both reactor disciplines "
            "(one call per iteration / every call due at the start of the iteration), all logging options, about a "
            "hand-written Gallina model of _run_deferred's callback graph, _run_cleanups, _blocking_run_deferred, "
            "_run_core and the passes the reactor still makes at the cut instant (rest of the timeout's iteration, "
            "obligatory iterations) on a virtual clock: the stage log is a walk along the plan (a stage starts when "
            "the whole chain of its predecessor is over, cleanups LIFO), exactly one outcome, success iff everything "
            "completed cleanly strictly before the cut, timeout/interrupt => error even when the cut-off stages still "
            "run afterwards (interrupt also stop(), nothing else does), every cleanup run and none left registered "
            "when nothing cut the run, Spinner._clean empties any delayed-call queue, log observers restored for any "
            "number of pre-installed observers on every path. Tied to /repo on every run by executing the real runner "
            "over a virtual-time reactor (and a sample on the real global reactor) and the model inside coqc on the "
            "same generated programs; the oracle for a failing input is the executable statement spec_okb, proved "
            "equivalent to Spec.",
    "note": "PARTIAL: the reactor, Twisted's Deferred/inlineCallbacks sequencing (built into the model, tied to the code "
            "only by correspondence), garbage collection of Deferreds (DebugInfo.__del__, replaced by 'a failed "
            "Deferred without errback at the end of the run'), Twisted's log publisher and real signal delivery are "
            "modelled, not verified; the real global reactor is only sampled (quick 20 / thorough 300 programs with "
            "delays 0 / never / far, no interrupts; judged by the same model and spec_okb in coqc). 'Nothing left "
            "scheduled' is judged on the observed number of leftover calls that never ran. A stage Deferred due exactly "
            "at the cut instant counts as not completed (the timeout call is the oldest call, an interrupt precedes "
            "the calls due at its instant); whether the reactor still runs it afterwards is left open by the statement "
            "and decided by the model. Trusted: Coq kernel + vm_compute; the harness (generators, "
            "drivers, virtual reactor, Gallina printer). All theorems closed under the global context.",
    "technique": "Coq proof (fold over timed stages on a virtual clock, invariants, induction over late reactor "
                 "passes) + model/implementation correspondence in coqc over a virtual-time reactor",
    "ref": "6 C14",
}
RULE = ("programs: setUp / test / tearDown / 0-3 cleanups, each stage one of return, raise (error, failure, skip, "
        "KeyboardInterrupt), already fired Deferred (succeed / fail), Deferred firing/failing after a delay in {<,=,>} "
        "of what is left of the timeout, ALREADY FIRED Deferred paused on an inner one firing after such a delay, "
        "never, decorated with 0-2 leftover delayed calls / a self-rescheduling poller / a logged error / a dropped "
        "failed Deferred; timeout; optional interrupt instant; runner variant x reactor discipline (one call per "
        "iteration | batch) x suppress_twisted_logging x store_twisted_logs x 0-2 pre-installed log observers; a "
        "quarter of the random programs are rewritten so that one stage is due exactly at the cut instant, half of "
        "those with only synchronous stages behind it; non-trivial = at least one asynchronous stage and one "
        "non-clean stage, a cut or a tie; distinct = distinct JSON")
TRUSTED = ["PARTIAL: the reactor, GC of Deferreds (DebugInfo.__del__), Twisted's log publisher and real signal "
           "delivery are modelled, not verified (harness/vcheck/vreactor.py, and its batch subclass in c14.py, stand "
           "for the reactor)",
           "testtools.testresult.doubles.ExtendedTestResult is the observation device for the result log"]
ASSUMPTIONS = ["simultaneous delayed calls run in scheduling order (vreactor with an empty oracle; the Spinner's "
               "timeout call is the oldest); an interrupt is an out-of-band event delivered before the first call due "
               "at or after it",
               "reactor discipline is an input: one call per iteration (crash() takes effect at once) or batch = "
               "every call that was due when the iteration began runs in it (the real runUntilCurrent); calls "
               "scheduled during an iteration wait for the next one",
               "stages act only through their return value and the listed decorations"]
EXPLANATION = ("Theorems in coq/Props/C14.v; correspondence: the real runner over vcheck.vreactor.VReactor (and a batch "
               "subclass) against coq/Model/AsyncRun.v on generated programs (result log, stage log with virtual "
               "timestamps, getDelayedCalls(), log observers before/after), plus a sample on the real reactor.")
MAXTASKS = 100

CLS = ["err", "fail", "skip", "kbd"]
_BEGUN = []
_SINK = []


def _begin():
    if not _BEGUN:
        from twisted.logger import globalLogBeginner
        import testtools.twistedsupport  # noqa: F401
        globalLogBeginner.beginLoggingTo([_SINK.append], redirectStandardIO=False, discardBuffer=True)
        gc.collect()
        gc.freeze()
        _BEGUN.append(True)


class _UserErr(Exception):
    pass


_BATCH = []


def _batch_reactor_class():
    """vcheck.vreactor.VReactor with the real reactor's runUntilCurrent: an iteration runs every call that was due
    when it began (insertion order), whatever crash() did meanwhile; calls scheduled during the iteration - also
    for the same virtual instant - wait for the next one, which only happens while the reactor is still running."""
    if _BATCH:
        return _BATCH[0]
    from vcheck.vreactor import Hang, VReactor

    class BatchReactor(VReactor):
        def run(self, installSignalHandlers=True):
            if self.running:
                raise RuntimeError("ReactorAlreadyRunning")
            if self.really_stopped:
                raise RuntimeError("ReactorNotRestartable")
            self.running = True
            while self._hooks and self.running:
                f, a, kw = self._hooks.pop(0)
                f(*a, **kw)
            while self.running:
                if self._deliver_interrupt():
                    continue
                if not self.clock.calls:
                    self.running = False
                    raise Hang()
                t = min(c.getTime() for c in self.clock.calls)
                if t > self.clock.rightNow:
                    self.clock.rightNow = t
                for c in [c for c in self.clock.calls if c.getTime() == t]:
                    if c in self.clock.calls:
                        self.clock.calls.remove(c)
                        c.called = 1
                        self.executed += 1
                        self.order.append(c)
                        c.func(*c.args, **c.kw)

    _BATCH.append(BatchReactor)
    return BatchReactor


def _exc(tc, cls):
    if cls == "err":
        return _UserErr("e")
    if cls == "fail":
        return tc.failureException("f")
    if cls == "skip":
        return tc.skipException("s")
    return KeyboardInterrupt()


def _flush_testtools_log_observer(_runtest):
    """Empty testtools' module-level error observer between cases (private name: tolerate a rename)."""
    ob = getattr(_runtest, "_log_observer", None)
    if ob is not None and hasattr(ob, "flushErrors"):
        ob.flushErrors()
    else:
        try:
            from testtools.twistedsupport import flush_logged_errors
            flush_logged_errors()
        except Exception:
            pass


def drive(case):
    import testtools
    from testtools.testresult.doubles import ExtendedTestResult
    from testtools.twistedsupport import _runtest
    from twisted.internet import defer
    from twisted.logger import globalLogPublisher
    from twisted.python import log as tlog
    from twisted.python.failure import Failure
    from vcheck.vreactor import VReactor
    _begin()
    gc.collect()
    _flush_testtools_log_observer(_runtest)
    del _SINK[:]
    real = bool(case.get("real"))
    if real:
        # the real global reactor (extra_checks): the timeout is REAL_TIMEOUT seconds, delays are 0 or "far"
        from twisted.internet import reactor
    else:
        reactor = (_batch_reactor_class() if case.get("batch") else VReactor)(
            [], install_signals=False, interrupts=[] if case["interrupt"] is None else [case["interrupt"]])
    stage_log = []
    keep = []
    left = [0, 0]      # leftover delayed calls: scheduled, run
    extra_observers = [(lambda k: (lambda ev: None))(k) for k in range(case["nobs"])]
    for ob in extra_observers:
        globalLogPublisher.addObserver(ob)
    before = list(globalLogPublisher._observers)
    try:
        def behave(tc, sid, st):
            stage_log.append([sid, 0 if real else int(reactor.seconds())])
            for dl in st["leave"]:
                left[0] += 1
                keep.append(reactor.callLater(dl, lambda: left.__setitem__(1, left[1] + 1)))
            if st["logerr"]:
                tlog.err(Failure(_UserErr("logged")))
            if st["drop"]:
                defer.fail(_UserErr("dropped"))
            if st.get("poll") is not None:
                start, every = st["poll"]

                def poll():
                    keep.append(reactor.callLater(every, poll))
                keep.append(reactor.callLater(start, poll))
            r = st["ret"]
            if r[0] == "return":
                return None
            if r[0] == "raise":
                raise _exc(tc, r[1])
            if r[0] == "fired":
                # an already fired Deferred
                return defer.succeed(None) if r[1] is None else defer.fail(_exc(tc, r[1]))
            d = defer.Deferred()
            keep.append(d)
            if r[0] in ("later", "chained"):
                if r[2] is None:
                    keep.append(reactor.callLater(r[1], d.callback, None))
                else:
                    keep.append(reactor.callLater(r[1], lambda: d.errback(_exc(tc, r[2]))))
            if r[0] == "chained":
                # fired but paused: `called` is True, the chain goes on when the inner Deferred fires
                outer = defer.succeed(None)
                outer.addCallback(lambda _: d)
                keep.append(outer)
                return outer
            return d

        runner_cls = (_runtest.AsynchronousDeferredRunTestForBrokenTwisted if case["broken"]
                      else _runtest.AsynchronousDeferredRunTest)

        class T(testtools.TestCase):
            run_tests_with = runner_cls.make_factory(
                reactor=reactor, timeout=REAL_TIMEOUT if real else case["timeout"],
                suppress_twisted_logging=case["suppress"],
                store_twisted_logs=case["store"])

            def setUp(self):
                super().setUp()
                for k, st in enumerate(case["cleanups"]):
                    self.addCleanup(behave, self, 10 + k, st)
                return behave(self, 0, case["setup"])

            def test_x(self):
                return behave(self, 1, case["body"])

            def tearDown(self):
                super().tearDown()
                return behave(self, 2, case["teardown"])

        tc = T("test_x")
        res = ExtendedTestResult()
        raised = None
        try:
            tc.run(res)
        except KeyboardInterrupt:
            raised = "kbd"
        events = [ev[0] for ev in res._events]
        after = list(globalLogPublisher._observers)
        obs = {"events": events, "stop": bool(res.shouldStop), "raised": raised, "stages": stage_log,
               "unrun": left[0] - left[1], "pending": len(reactor.getDelayedCalls()),
               "observers_same": len(before) == len(after) and all(a is b or a == b for a, b in zip(before, after)),
               "cleanups_left": len(getattr(tc, "_cleanups", ()))}
        return obs
    finally:
        for ob in list(globalLogPublisher._observers):
            if ob != _SINK.append:
                globalLogPublisher.removeObserver(ob)
        if _SINK.append not in globalLogPublisher._observers:
            globalLogPublisher.addObserver(_SINK.append)
        tc = res = None
        gc.collect()
        _flush_testtools_log_observer(_runtest)
        del _SINK[:]


# ---------------- a sample on the real global reactor ----------------
REAL_TIMEOUT = 0.5      # seconds; stands for the virtual timeout of the case
FAR = 100               # a leftover delayed call that is never due within a run (seconds / ticks)
_REAL = r'''
import json, sys
from vcheck.props import c14
out = []
for c in json.loads(sys.argv[1]):
    try:
        out.append({"obs": c14.drive(c)})
    except BaseException as e:
        out.append({"crash": "%s: %s" % (type(e).__name__, e)})
print(json.dumps(out))
'''


def real_cases(rng, n):
    """programs whose outcome machine load cannot flip: every Deferred fires at once (delay 0) or never, every
    leftover is far in the future; no interrupt (real signal delivery is C15's sample)"""
    def stage(k):
        r = rng.random()
        # "never" costs the whole real timeout: keep it rare
        ret = (("return",) if r < 0.25 else ("raise", rng.choice(CLS)) if r < 0.35 else
               ("fired", None if rng.random() < 0.7 else rng.choice(CLS)) if r < 0.42 else
               ("later", 0, None) if r < 0.65 else ("chained", 0, None) if r < 0.8 else
               (rng.choice(["later", "chained"]), 0, rng.choice(CLS)) if r < 0.95 else ("never",))
        return st(ret, [FAR] if rng.random() < 0.12 else [], rng.random() < 0.1, rng.random() < 0.1)
    fixed = [mk(), mk(body=st(("later", 0, None)), cleanups=[st(("later", 0, None)), st(("later", 0, "err"))]),
             mk(body=st(("never",)), cleanups=[st()]), mk(body=st(("later", 0, None), leave=[FAR])),
             mk(body=st(("later", 0, None), logerr=True)), mk(teardown=st(("later", 0, None), drop=True)),
             mk(cleanups=[st(("raise", "kbd")), st(("later", 0, None))]),
             mk(cleanups=[st(), st(("chained", 0, None))]), mk(body=st(("chained", 0, "fail")), cleanups=[st()]),
             mk(setup=st(("later", 0, "skip")), cleanups=[st(("later", 0, None)), st()]),
             mk(body=st(("later", 0, "fail")), broken=True, suppress=False, store=False, nobs=2),
             mk(body=st(("never",), leave=[FAR], logerr=True), broken=True, nobs=1)]
    cases = fixed[:n]
    while len(cases) < n:
        cases.append(mk(stage(0), stage(1), stage(2), [stage(3) for _ in range(rng.choice([0, 1, 2, 2, 3]))],
                        broken=rng.random() < 0.4, suppress=rng.random() < 0.6, store=rng.random() < 0.6,
                        nobs=rng.choice([0, 1, 2])))
    for c in cases:
        c["real"] = True
        c["batch"] = True       # the real reactor's runUntilCurrent; no tie can occur in these programs
    return cases


def extra_checks(tier, rng):
    """the real runner on the REAL global reactor (subprocesses), judged like every other case: by the model and by
    spec_okb inside coqc"""
    import tempfile
    n = 20 if tier == "quick" else 300
    cases = real_cases(rng, n)
    repo = os.environ.get("VERIF_REPO", "/repo")
    harness = os.path.dirname(os.path.dirname(os.path.dirname(os.path.abspath(__file__))))
    env = dict(os.environ, PYTHONPATH=repo + os.pathsep + harness, PYTHONHASHSEED="0")
    chunks = [cases[lo:lo + 25] for lo in range(0, len(cases), 25)]
    procs = [subprocess.Popen([sys.executable, "-c", _REAL, json.dumps(ch)], stdout=subprocess.PIPE,
                              stderr=subprocess.PIPE, text=True, env=env) for ch in chunks]
    outs = []
    for ch, pr in zip(chunks, procs):
        try:
            so, se = pr.communicate(timeout=600)
            outs += json.loads(so.strip().splitlines()[-1])
        except Exception as e:   # noqa
            pr.kill()
            outs += [{"crash": "real-reactor sample process failed: %r" % (e,)}] * len(ch)
    res = [None] * len(cases)
    idx = [k for k, o in enumerate(outs) if "obs" in o]
    for k, o in enumerate(outs):
        if "obs" not in o:
            res[k] = {"ok": False, "what": "real reactor: crash", "case": cases[k], "observed": o}
    if idx:
        wd = tempfile.mkdtemp(prefix="c14real-")
        try:
            nseen, dis, vio, _ = q.run_shards(wd, CORR, [term(cases[k], outs[k]["obs"]) for k in idx],
                                              extra_requires=REQUIRES, tag="real")
        finally:
            import shutil
            shutil.rmtree(wd, ignore_errors=True)
        for j, k in enumerate(idx):
            ok = j not in dis and j not in vio and nseen == len(idx)
            res[k] = {"ok": ok, "what": "real reactor: " + ("agrees with the model and meets spec_okb" if ok else
                                                            "violates spec_okb" if j in vio else
                                                            "differs from the model"),
                      "case": cases[k], "observed": outs[k]["obs"]}
    return res


# ---------------- Gallina ----------------
CLS_T = {"err": "CErr", "fail": "CFail", "skip": "CSkip", "kbd": "CKbd"}
EV_T = {"startTest": "StartTest", "addSuccess": "AddSuccess", "addError": "AddError", "addFailure": "AddFailure",
        "addSkip": "AddSkip", "stopTest": "StopTest"}


def t_stage(st):
    r = st["ret"]
    if r[0] == "return":
        ret = "RReturn"
    elif r[0] == "raise":
        ret = "(RRaise %s)" % CLS_T[r[1]]
    elif r[0] == "fired":
        ret = "(RFired %s)" % q.option(r[1], lambda c: CLS_T[c])
    elif r[0] in ("later", "chained"):
        ret = "(%s %s %s)" % ("RLater" if r[0] == "later" else "RChained", q.nat(r[1]),
                              q.option(r[2], lambda c: CLS_T[c]))
    else:
        ret = "RNever"
    return "(mkStage %s %s %s %s %s)" % (ret, q.lst([q.nat(x) for x in st["leave"]]), q.boolean(st["logerr"]),
                                         q.boolean(st["drop"]), q.boolean(st.get("poll") is not None))


def term(case, o):
    i = "(mkProgram %s %s %s %s %s %s %s %s %s %s %s)" % (
        q.boolean(case["broken"]), q.boolean(bool(case.get("batch"))), q.boolean(case["suppress"]), q.boolean(case["store"]), q.nat(case["nobs"]),
        q.nat(case["timeout"]), q.option(case["interrupt"], q.nat), t_stage(case["setup"]), t_stage(case["body"]),
        t_stage(case["teardown"]), q.lst([t_stage(s) for s in case["cleanups"]]))
    evs = []
    for e in o["events"]:
        if e not in EV_T:
            raise ValueError("unexpected result event %r" % (e,))
        evs.append(EV_T[e])
    ob = "(mkObs %s %s %s %s %s %s %s %s)" % (
        q.lst(evs), q.boolean(o["stop"]), q.option(o["raised"], lambda c: CLS_T[c]),
        q.lst([q.pair(q.nat(a), q.nat(b)) for a, b in o["stages"]]), q.nat(o["unrun"]), q.nat(o["pending"]),
        q.boolean(o["observers_same"]), q.nat(o["cleanups_left"]))
    return q.pair(i, ob)


def perturb(case, o):
    o = dict(o)
    o["pending"] = o["pending"] + 1
    return o


# ---------------- generation ----------------
def st(ret=("return",), leave=(), logerr=False, drop=False, poll=None):
    return {"ret": list(ret), "leave": list(leave), "logerr": bool(logerr), "drop": bool(drop),
            "poll": None if poll is None else list(poll)}


def mk(setup=None, body=None, teardown=None, cleanups=(), timeout=6, interrupt=None, broken=False, suppress=True,
       store=True, nobs=0, batch=False):
    return {"broken": bool(broken), "batch": bool(batch), "suppress": bool(suppress), "store": bool(store),
            "nobs": nobs,
            "timeout": timeout, "interrupt": interrupt, "setup": setup or st(), "body": body or st(),
            "teardown": teardown or st(), "cleanups": list(cleanups)}


def _raises(s):
    r = s["ret"]
    return r[0] == "raise" or (r[0] == "fired" and r[1] is not None) or \
        (r[0] in ("later", "chained") and r[2] is not None)


def _asyn(s):
    return s["ret"][0] in ("later", "chained", "never")


def plan(case):
    pl = [case["setup"]] + ([] if _raises(case["setup"]) else [case["body"], case["teardown"]]) + \
        list(reversed(case["cleanups"]))
    return pl


def cut_instant(case):
    return case["timeout"] if case["interrupt"] is None else min(case["interrupt"], case["timeout"])


def tie_index(case):
    """index in the plan of the stage whose Deferred is due exactly at the cut instant (it loses against the
    timeout / the interrupt), or None"""
    C, t = cut_instant(case), 0
    for k, s in enumerate(plan(case)):
        r = s["ret"]
        if r[0] in ("later", "chained"):
            if t + r[1] == C:
                return k
            if t + r[1] > C:
                return None
            t += r[1]
        elif r[0] == "never":
            return None
    return None


def behaviours(T):
    """the 8 basic stage behaviours relative to what a timeout of T leaves"""
    return [st(), st(("raise", "err")), st(("raise", "fail")), st(("later", 1, None)), st(("later", 1, "err")),
            st(("later", T, None)), st(("later", T + 2, "fail")), st(("never",))]


def rand_ret(rng, T, sync=False):
    r = rng.random()
    if sync:
        return (("return",) if r < 0.5 else ("raise", rng.choice(CLS)) if r < 0.7 else
                ("fired", None) if r < 0.9 else ("fired", rng.choice(CLS)))
    if r < 0.3:
        return ("return",)
    if r < 0.43:
        return ("raise", rng.choice(["err", "err", "fail", "skip", "kbd"]))
    if r < 0.5:
        return ("fired", None if rng.random() < 0.6 else rng.choice(CLS))
    if r < 0.93:
        return ("later" if rng.random() < 0.7 else "chained", rng.choice([0, 0, 1, 1, 2, 3, T - 1, T, T + 1]),
                None if rng.random() < 0.7 else rng.choice(["err", "fail", "skip", "kbd"]))
    return ("never",)


def rand_stage(rng, T, sync=False):
    ret = rand_ret(rng, T, sync)
    leave = [rng.choice([0, 0, 1, 2, 3, T, T + 3]) for _ in range(rng.choice([0, 0, 0, 0, 1, 1, 2]))]
    # a poller reschedules itself every >= 1 ticks (with 0 virtual time would never move again)
    poll = [rng.choice([0, 0, 1, 2, T]), rng.choice([1, 1, 2])] if rng.random() < 0.06 else None
    return st(ret, leave, rng.random() < 0.08, rng.random() < 0.08, poll)


def force_tie(rng, c):
    """rewrite a random program so that one stage's Deferred is due exactly at the cut instant; with probability
    1/2 every stage after it completes synchronously, otherwise some wait for a Deferred due at that same instant"""
    C = cut_instant(c)
    names = ["setup", "body", "teardown"] + [("cleanups", k) for k in reversed(range(len(c["cleanups"])))]
    if _raises(c["setup"]):
        names = ["setup"] + names[3:]
    k = rng.randrange(len(names))
    t = 0
    mode = rng.random()
    for j, nm in enumerate(names):
        s_ = c[nm] if isinstance(nm, str) else c["cleanups"][nm[1]]
        r = s_["ret"]
        if j < k:
            if r[0] in ("later", "chained"):
                d = min(r[1], max(0, C - 1 - t))
                r[1] = d
                t += d
            elif r[0] == "never":
                s_["ret"] = ["return"]
        elif j == k:
            s_["ret"] = [rng.choice(["later", "later", "chained"]), C - t, rng.choice([None, None, None, "err", "kbd"])]
        elif mode < 0.5:
            s_["ret"] = list(rand_ret(rng, C, sync=True))
        elif mode < 0.8 and r[0] in ("later", "chained"):
            r[1] = 0
    return c


def generate(rng, tier):
    cases = []
    T = 6
    fixed = [
        mk(),
        mk(cleanups=[st(("raise", "kbd")), st()]),                              # F11 region
        mk(cleanups=[st(), st(("later", 1, "kbd"))]),
        mk(body=st(("raise", "kbd")), cleanups=[st(("raise", "err"))]),
        mk(body=st(("later", 2, "fail")), teardown=st(("later", 2, None)),
           cleanups=[st(("later", 1, None)), st(("raise", "err"))]),
        mk(body=st(("never",)), cleanups=[st(), st()]),
        mk(setup=st(("raise", "skip")), cleanups=[st()]),
        mk(body=st(leave=[0])), mk(body=st(leave=[0]), broken=True),
        mk(body=st(("later", 2, None), leave=[2, 3])),
        mk(body=st(("later", 2, None)), teardown=st(leave=[0])),
        mk(body=st(("later", 2, None)), teardown=st(leave=[0, 1]), broken=True),
        mk(body=st(logerr=True)), mk(body=st(drop=True)),
        mk(body=st(("never",), drop=True, logerr=True)),
        mk(body=st(("later", 4, None)), interrupt=3), mk(body=st(("later", 4, None)), interrupt=4),
        mk(body=st(("later", 4, None)), interrupt=5), mk(body=st(("never",)), interrupt=6),
        mk(body=st(("never",)), interrupt=7, nobs=2),
        mk(body=st(("later", 3, None)), teardown=st(("later", 2, "err")), nobs=2, suppress=False, store=False),
        mk(body=st(("later", T, None))), mk(body=st(("later", T - 1, None)), teardown=st(("later", 1, None))),
        # degenerate timeouts: synchronous stages finish before the reactor runs a single delayed call
        mk(timeout=0), mk(timeout=0, cleanups=[st(("raise", "err"))]), mk(timeout=0, body=st(("later", 0, None))),
        mk(timeout=1, body=st(("later", 0, None)), teardown=st(("later", 0, "fail"))),
        mk(timeout=1, body=st(("later", 1, None))), mk(timeout=0, interrupt=0, body=st(("later", 0, None))),
        mk(timeout=2, interrupt=0, body=st(leave=[0])), mk(timeout=2, interrupt=0),
        # two failing stages; a failure only in a cleanup; an unhandled failure in a dropped Deferred + a leftover
        mk(body=st(("later", 1, "fail")), teardown=st(("later", 1, "err")), cleanups=[st(("later", 1, "fail"))]),
        mk(body=st(("later", 1, None)), cleanups=[st(), st(("later", 2, "err")), st(("later", 1, None))]),
        mk(body=st(("later", 2, None), drop=True), teardown=st(leave=[1, T + 3])),
        mk(body=st(("later", 2, None), leave=[1]), teardown=st(("later", 1, None))),        # the leftover has run
        mk(body=st(("later", T + 1, None), leave=[1]), cleanups=[st()]),                    # fires after the timeout
    ]
    # a leftover that is already due and reschedules itself when it fires (callLater(0, poll) / LoopingCall(0)):
    # never clean, and the reactor must be empty afterwards - also when the obligatory iterations ran it
    for broken in (False, True):
        fixed += [
            mk(body=st(poll=[0, 0]), broken=broken), mk(teardown=st(poll=[0, 1]), broken=broken),
            mk(cleanups=[st(poll=[0, 0])], broken=broken),
            mk(body=st(("later", 2, None)), teardown=st(poll=[0, 1]), broken=broken),
            mk(body=st(("later", 2, None), poll=[1, 1]), broken=broken),
            mk(body=st(("never",), poll=[0, 2]), broken=broken),
        ]
    # a FAILED setUp (raises / Deferred failing later / skip) with cleanups that return Deferreds: they are
    # still awaited, in reverse order, before stopTest; a skip in setUp stays a skip
    for su in (st(("raise", "err")), st(("raise", "skip")), st(("later", 1, "fail")), st(("later", 2, "skip")),
               st(("raise", "kbd"))):
        for cls in ([st(("later", 2, None))], [st(("later", 1, None)), st(("later", 2, None))],
                    [st(), st(("later", 3, "err"))], [st(("later", 1, None), leave=[1]), st(("never",))],
                    [st(("later", T, None)), st()]):
            fixed.append(mk(setup=su, cleanups=cls))
    # a Deferred handed over ALREADY FIRED: plain (succeed / fail), or paused on an inner Deferred that fires later
    # ("fired but paused": Deferred.called is True while the chain still waits) - the runner has to wait for the
    # whole chain, in every stage
    for ch in (st(("chained", 2, None)), st(("chained", 0, None)), st(("chained", 1, "err")),
               st(("chained", T, None)), st(("chained", 2, None), leave=[1])):
        fixed += [mk(cleanups=[ch]), mk(cleanups=[st(), ch]), mk(cleanups=[ch, st(("later", 1, None))]),
                  mk(cleanups=[st(("chained", 1, None)), ch], broken=True), mk(setup=ch, cleanups=[st()]),
                  mk(body=ch), mk(teardown=ch, cleanups=[st(("raise", "err"))]),
                  mk(setup=st(("raise", "skip")), cleanups=[st(), ch])]
    fixed += [mk(body=st(("fired", None))), mk(body=st(("fired", "fail")), cleanups=[st(("fired", None))]),
              mk(setup=st(("fired", "err")), cleanups=[st(("fired", "kbd")), st(("fired", None))]),
              mk(teardown=st(("fired", "skip"))), mk(cleanups=[st(("fired", "err")), st(("fired", None))])]
    # ties: a Deferred due exactly at the cut instant loses against the timeout (the Spinner's call is the oldest)
    # and against an interrupt; on a batch reactor / during the obligatory iterations it still fires afterwards
    # and the stages behind it run as far as they complete synchronously - the verdict must stay "error"
    sync_tails = [[], [st()], [st(), st(("fired", None))], [st(("raise", "err"))], [st(leave=[0])],
                  [st(("later", 0, None)), st()], [st(("chained", 0, None)), st(("later", 0, None)), st()],
                  [st(("later", 1, None))], [st(logerr=True), st(drop=True)]]
    for batch, broken in ((False, False), (True, False), (False, True), (True, True)):
        for kind in ("later", "chained"):
            for tail in sync_tails:
                fixed.append(mk(body=st((kind, T, None)), cleanups=tail, batch=batch, broken=broken))
            fixed += [mk(setup=st((kind, T, None)), batch=batch, broken=broken),
                      mk(body=st(("later", 2, None)), teardown=st((kind, T - 2, None), leave=[0, T - 2]),
                         batch=batch, broken=broken),
                      mk(body=st((kind, T, "fail")), batch=batch, broken=broken),
                      mk(cleanups=[st(), st((kind, T, None))], batch=batch, broken=broken),
                      mk(cleanups=[st((kind, 2, None)), st((kind, T - 2, None)), st((kind, 4, None))][::-1],
                         batch=batch, broken=broken),
                      mk(body=st((kind, 3, None)), interrupt=3, cleanups=[st()], batch=batch, broken=broken),
                      mk(body=st((kind, T, None), leave=[T]), teardown=st(leave=[0, 1]), batch=batch, broken=broken),
                      mk(body=st((kind, T, None)), teardown=st(poll=[0, 1]), batch=batch, broken=broken),
                      mk(body=st((kind, T, None), poll=[T, 0]), batch=batch, broken=broken),
                      mk(timeout=0, body=st((kind, 0, None)), batch=batch, broken=broken)]
    cases += fixed
    # bounded-exhaustive core: 8 behaviours for setUp x body x tearDown x (no cleanup | one of 8)
    core = []
    bs = behaviours(T)
    for a, b, c in itertools.product(bs, repeat=3):
        for cl in [None] + bs:
            core.append(mk(a, b, c, [] if cl is None else [cl], timeout=T))
    want = 2300 if tier == "quick" else 4608
    stride = max(1, len(core) // want)
    off = rng.randrange(stride)
    for k, c in enumerate(core):
        if k % stride == off:
            c = dict(c)
            c["broken"] = rng.random() < 0.3
            c["batch"] = rng.random() < 0.5
            c["suppress"], c["store"] = rng.random() < 0.5, rng.random() < 0.5
            c["nobs"] = rng.choice([0, 1, 2])
            cases.append(c)
    n_rand = 2000 if tier == "quick" else 60000
    while n_rand > 0:
        Tr = rng.choice([T, T, T, 3, 9])
        c = mk(rand_stage(rng, Tr), rand_stage(rng, Tr), rand_stage(rng, Tr),
               [rand_stage(rng, Tr) for _ in range(rng.choice([0, 1, 1, 2, 2, 3]))], timeout=Tr,
               interrupt=rng.choice([0, 1, 2, 3, 4, Tr - 1, Tr, Tr + 1]) if rng.random() < 0.3 else None,
               broken=rng.random() < 0.35, suppress=rng.random() < 0.6, store=rng.random() < 0.6,
               nobs=rng.choice([0, 0, 1, 2]), batch=rng.random() < 0.5)
        if rng.random() < 0.25 and cut_instant(c) > 0:
            c = force_tie(rng, c)
        cases.append(c)
        n_rand -= 1
    return cases


def nontrivial(case):
    sts = plan(case)
    asyn = any(_asyn(s) for s in sts)
    unclean = any(_raises(s) or s["leave"] or s["logerr"] or s["drop"] or s.get("poll") for s in sts)
    return asyn and (unclean or case["interrupt"] is not None or tie_index(case) is not None)


def shrink(case):
    return _shrink(case)


def _shrink(case):
    def rep(**kw):
        c = dict(case)
        c.update(kw)
        return c
    for k in range(len(case["cleanups"])):
        yield rep(cleanups=case["cleanups"][:k] + case["cleanups"][k + 1:])
    if case["interrupt"] is not None:
        yield rep(interrupt=None)
    for f in ("broken", "batch", "suppress", "store"):
        if case.get(f):
            yield rep(**{f: False})
    if case["nobs"]:
        yield rep(nobs=case["nobs"] - 1)
    names = ["setup", "body", "teardown"] + [("cleanups", k) for k in range(len(case["cleanups"]))]
    for nm in names:
        s = case[nm] if isinstance(nm, str) else case["cleanups"][nm[1]]

        def put(s2, nm=nm):
            if isinstance(nm, str):
                return rep(**{nm: s2})
            cl = list(case["cleanups"])
            cl[nm[1]] = s2
            return rep(cleanups=cl)
        if s["ret"] != ["return"]:
            yield put(dict(s, ret=["return"]))
        if s["ret"][0] == "chained":
            yield put(dict(s, ret=["later", s["ret"][1], s["ret"][2]]))
        if s["ret"][0] == "fired" and s["ret"][1] is not None:
            yield put(dict(s, ret=["raise", s["ret"][1]]))
        if s["ret"][0] in ("later", "chained") and s["ret"][1] > 0:
            yield put(dict(s, ret=[s["ret"][0], s["ret"][1] - 1, s["ret"][2]]))
        if s["ret"][0] in ("later", "chained") and s["ret"][2] is not None:
            yield put(dict(s, ret=[s["ret"][0], s["ret"][1], None]))
        for j in range(len(s["leave"])):
            yield put(dict(s, leave=s["leave"][:j] + s["leave"][j + 1:]))
        if s["logerr"]:
            yield put(dict(s, logerr=False))
        if s["drop"]:
            yield put(dict(s, drop=False))
        if s.get("poll") is not None:
            yield put(dict(s, poll=None))


def _simulate(case):
    """(instant at which the last planned stage fired or None when the run is cut first, start instants)"""
    C, t, starts = cut_instant(case), 0, []
    for s in plan(case):
        starts.append(t)
        r = s["ret"]
        if r[0] == "never" or (r[0] in ("later", "chained") and t + r[1] >= C):
            return None, starts
        if r[0] in ("later", "chained"):
            t += r[1]
    return t, starts


def distribution(cases):
    d = {"variant": {"plain": 0, "broken": 0}, "batch_reactor": 0, "suppress": 0, "store": 0, "with_interrupt": 0,
         "cleanups": {}, "failing_stages": {}, "failure_only_in_a_cleanup": 0, "kbd_in_a_cleanup": 0,
         "ending": {"completed": 0, "timeout": 0, "interrupt": 0},
         "completed_with_leftover_still_scheduled": 0, "completed_with_leftover_already_run": 0,
         "stage_ret": {}, "with_leftovers": 0, "with_logged_error": 0, "with_dropped_failure": 0, "with_poller": 0,
         "failed_setup_with_async_cleanup": 0, "fired_but_paused_cleanup": 0, "fired_but_paused_other_stage": 0,
         "tie_at_cut": {"total": 0, "batch_timeout": 0, "batch_timeout_rest_synchronous": 0, "broken": 0,
                        "interrupt": 0, "next_waits_for_same_instant": 0},
         "deferred_vs_cut": {"<": 0, "=": 0, ">": 0}, "extra_observers": {}}
    for c in cases:
        d["variant"]["broken" if c["broken"] else "plain"] += 1
        d["batch_reactor"] += bool(c.get("batch"))
        d["suppress"] += c["suppress"]
        d["store"] += c["store"]
        d["with_interrupt"] += c["interrupt"] is not None
        n = len(c["cleanups"])
        d["cleanups"][n] = d["cleanups"].get(n, 0) + 1
        d["extra_observers"][c["nobs"]] = d["extra_observers"].get(c["nobs"], 0) + 1
        C, t = cut_instant(c), 0
        alive = True
        pl = plan(c)
        nfail = sum(_raises(s) for s in pl)
        d["failing_stages"][min(nfail, 3)] = d["failing_stages"].get(min(nfail, 3), 0) + 1
        ncl = len(c["cleanups"])
        d["failure_only_in_a_cleanup"] += nfail > 0 and not any(_raises(s) for s in pl[:len(pl) - ncl])
        d["kbd_in_a_cleanup"] += any(s["ret"][-1] == "kbd" for s in c["cleanups"])
        d["fired_but_paused_cleanup"] += any(s["ret"][0] == "chained" for s in c["cleanups"])
        d["fired_but_paused_other_stage"] += any(s["ret"][0] == "chained" for s in pl[:len(pl) - ncl])
        end, starts = _simulate(c)
        timeout_kind = not (c["interrupt"] is not None and c["interrupt"] <= c["timeout"])
        d["ending"]["completed" if end is not None else "timeout" if timeout_kind else "interrupt"] += 1
        if end is not None:
            d["completed_with_leftover_still_scheduled"] += any(
                t0 + dl > end for s, t0 in zip(pl, starts) for dl in s["leave"])
            d["completed_with_leftover_already_run"] += any(
                t0 + dl < end for s, t0 in zip(pl, starts) for dl in s["leave"])
        ti = tie_index(c)
        if ti is not None:
            tc = d["tie_at_cut"]
            tc["total"] += 1
            tc["broken"] += c["broken"]
            tc["interrupt"] += not timeout_kind
            if timeout_kind and c.get("batch"):
                tc["batch_timeout"] += 1
                tc["batch_timeout_rest_synchronous"] += not any(_asyn(s) for s in pl[ti + 1:])
            tc["next_waits_for_same_instant"] += any(s["ret"][0] in ("later", "chained") and s["ret"][1] == 0
                                                     for s in pl[ti + 1:ti + 2])
        d["failed_setup_with_async_cleanup"] += _raises(c["setup"]) and any(_asyn(x) for x in c["cleanups"])
        for s in pl:
            d["with_poller"] += s.get("poll") is not None
            k = s["ret"][0] if s["ret"][0] != "raise" else "raise-" + s["ret"][1]
            d["stage_ret"][k] = d["stage_ret"].get(k, 0) + 1
            d["with_leftovers"] += bool(s["leave"])
            d["with_logged_error"] += s["logerr"]
            d["with_dropped_failure"] += s["drop"]
            if alive and s["ret"][0] in ("later", "chained"):
                f = t + s["ret"][1]
                d["deferred_vs_cut"]["<" if f < C else "=" if f == C else ">"] += 1
                if f < C:
                    t = f
                else:
                    alive = False
            elif s["ret"][0] == "never":
                alive = False
    return d
