"""C14 - Deferred-returning tests succeed iff all completed cleanly; reactor left clean
(twistedsupport/_runtest.py, _spinner.py).  The REAL AsynchronousDeferredRunTest (both
variants, logging options on/off) is driven over the virtual-time reactor of
vcheck.vreactor with real twisted Deferreds; a small fixed sample also runs on
the real global reactor (extra_checks)."""
import gc
import itertools
import json
import os
import subprocess
import sys

from .. import coqio as q

PROP = "C14"
CORR = "Corr.C14"
REQUIRES = ["Model.AsyncRun", "Spec.C14"]
PROOF_FILES = ["Proof/C14.v"]
MANIFEST = {
    "text": "PARTIAL. Coq theorems over all test programs of timed stages (setUp, test, tearDown, any number of "
            "cleanups; each returns / raises / returns a Deferred firing or failing after any delay / never fires, "
            "and may leave delayed calls, log an error, drop a failed Deferred, raise skip or KeyboardInterrupt), all "
            "timeouts and interrupt instants, both runner variants and all logging options, about a hand-written "
            "Gallina model of _run_deferred's callback graph, _run_cleanups, _blocking_run_deferred and _run_core on a "
            "virtual clock: sequencing (a stage starts when its predecessor fired, cleanups LIFO), exactly one "
            "outcome, success iff everything completed cleanly before the cut, timeout/interrupt => error (interrupt "
            "also stop()), reactor empty and log observers restored on every path. Tied to /repo on every run by "
            "executing the real runner over a virtual-time reactor and the model inside coqc on the same generated "
            "programs; the oracle for a failing input is the executable statement spec_okb, proved to imply Spec.",
    "note": "PARTIAL: the reactor, Twisted's Deferred/inlineCallbacks sequencing (built into the model, tied to the code "
            "only by correspondence), garbage collection of Deferreds (DebugInfo.__del__, replaced by 'a failed "
            "Deferred without errback at the end of the run'), Twisted's log publisher and real signal delivery are "
            "modelled, not verified; the real global reactor is only sampled. For the ForBrokenTwisted variant a "
            "stage Deferred due exactly at the cut instant is outside the model (the obligatory reactor iterations "
            "would run it after the result is decided). Trusted: Coq kernel + vm_compute; the harness (generators, "
            "drivers, virtual reactor, Gallina printer). All theorems closed under the global context.",
    "technique": "Coq proof (fold over timed stages on a virtual clock, invariants) + model/implementation "
                 "correspondence in coqc over a virtual-time reactor",
    "ref": "6 C14",
}
RULE = ("programs: setUp / test / tearDown / 0-2 cleanups, each stage one of return, raise (error, failure, skip, "
        "KeyboardInterrupt), Deferred firing/failing after a delay in {<,=,>} of what is left of the timeout, never, "
        "decorated with 0-2 leftover delayed calls / a logged error / a dropped failed Deferred; timeout; optional "
        "interrupt instant; runner variant x suppress_twisted_logging x store_twisted_logs x 0-2 pre-installed log "
        "observers; non-trivial = at least one asynchronous stage and one non-clean stage or a cut; distinct = "
        "distinct JSON")
TRUSTED = ["PARTIAL: the reactor, GC of Deferreds (DebugInfo.__del__), Twisted's log publisher and real signal "
           "delivery are modelled, not verified (harness/vcheck/vreactor.py stands for the reactor)",
           "testtools.testresult.doubles.ExtendedTestResult is the observation device for the result log"]
ASSUMPTIONS = ["one delayed call runs at a time, simultaneous calls in scheduling order (vreactor with an empty "
               "oracle); an interrupt is an out-of-band event delivered before the first call due at or after it",
               "stages act only through their return value and the listed decorations",
               "ForBrokenTwisted: no stage Deferred is due exactly at the cut instant (wf)"]
EXPLANATION = ("Theorems in coq/Props/C14.v; correspondence: the real runner over vcheck.vreactor.VReactor against "
               "coq/Model/AsyncRun.v on generated programs (result log, stage log with virtual timestamps, "
               "getDelayedCalls(), log observers before/after, cleanups left), plus a sample on the real reactor.")
MAXTASKS = 100

CLS = ["err", "fail", "skip", "kbd"]
_BEGUN = []
_SINK = []


def _begin():
    if not _BEGUN:
        from twisted.logger import globalLogBeginner
        import testtools.twistedsupport  # noqa: F401
        globalLogBeginner.beginLoggingTo([_SINK.append], redirectStandardIO=False, discardBuffer=True)
        gc.collect()
        gc.freeze()
        _BEGUN.append(True)


class _UserErr(Exception):
    pass


def _exc(tc, cls):
    if cls == "err":
        return _UserErr("e")
    if cls == "fail":
        return tc.failureException("f")
    if cls == "skip":
        return tc.skipException("s")
    return KeyboardInterrupt()


def drive(case):
    import testtools
    from testtools.testresult.doubles import ExtendedTestResult
    from testtools.twistedsupport import _runtest
    from twisted.internet import defer
    from twisted.logger import globalLogPublisher
    from twisted.python import log as tlog
    from twisted.python.failure import Failure
    from vcheck.vreactor import VReactor
    _begin()
    gc.collect()
    _runtest._log_observer.flushErrors()
    del _SINK[:]
    reactor = VReactor([], install_signals=False,
                       interrupts=[] if case["interrupt"] is None else [case["interrupt"]])
    stage_log = []
    keep = []
    extra_observers = [(lambda k: (lambda ev: None))(k) for k in range(case["nobs"])]
    for ob in extra_observers:
        globalLogPublisher.addObserver(ob)
    before = list(globalLogPublisher._observers)
    try:
        def behave(tc, sid, st):
            stage_log.append([sid, int(reactor.seconds())])
            for dl in st["leave"]:
                keep.append(reactor.callLater(dl, lambda: None))
            if st["logerr"]:
                tlog.err(Failure(_UserErr("logged")))
            if st["drop"]:
                defer.fail(_UserErr("dropped"))
            r = st["ret"]
            if r[0] == "return":
                return None
            if r[0] == "raise":
                raise _exc(tc, r[1])
            d = defer.Deferred()
            keep.append(d)
            if r[0] == "later":
                if r[2] is None:
                    keep.append(reactor.callLater(r[1], d.callback, None))
                else:
                    keep.append(reactor.callLater(r[1], lambda: d.errback(_exc(tc, r[2]))))
            return d

        runner_cls = (_runtest.AsynchronousDeferredRunTestForBrokenTwisted if case["broken"]
                      else _runtest.AsynchronousDeferredRunTest)

        class T(testtools.TestCase):
            run_tests_with = runner_cls.make_factory(
                reactor=reactor, timeout=case["timeout"], suppress_twisted_logging=case["suppress"],
                store_twisted_logs=case["store"])

            def setUp(self):
                super().setUp()
                for k, st in enumerate(case["cleanups"]):
                    self.addCleanup(behave, self, 10 + k, st)
                return behave(self, 0, case["setup"])

            def test_x(self):
                return behave(self, 1, case["body"])

            def tearDown(self):
                super().tearDown()
                return behave(self, 2, case["teardown"])

        tc = T("test_x")
        res = ExtendedTestResult()
        raised = None
        try:
            tc.run(res)
        except KeyboardInterrupt:
            raised = "kbd"
        events = [ev[0] for ev in res._events]
        after = list(globalLogPublisher._observers)
        obs = {"events": events, "stop": bool(res.shouldStop), "raised": raised, "stages": stage_log,
               "pending": len(reactor.getDelayedCalls()),
               "observers_same": len(before) == len(after) and all(a is b or a == b for a, b in zip(before, after)),
               "cleanups_left": len(tc._cleanups)}
        return obs
    finally:
        for ob in list(globalLogPublisher._observers):
            if ob != _SINK.append:
                globalLogPublisher.removeObserver(ob)
        if _SINK.append not in globalLogPublisher._observers:
            globalLogPublisher.addObserver(_SINK.append)
        tc = res = None
        gc.collect()
        _runtest._log_observer.flushErrors()
        del _SINK[:]
