"""C17 - tags are scoped: test-local changes never leak, run-level changes persist
(tags.py, testresult/real.py, testcase.py PlaceHolder.run)."""
import itertools
import json

from .. import coqio as q

PROP = "C17"
CORR = "Corr.C17"
REQUIRES = ["Model.Tags", "Spec.C17"]
PROOF_FILES = ["Proof/C17.v"]
MANIFEST = {
    "text": "Coq theorems over all call histories and all adapter stacks (refinement of the TagContext stack to the "
            "two-level run/test specification by an invariant over fold_left; the set algebra of _merge_tags; "
            "per-adapter stream-transducer lemmas composed by induction on the adapter tree) about a hand-written "
            "Gallina model of tags.py, the tag handling of TestResult / ExtendedToOriginalDecorator / "
            "ExtendedToStreamDecorator / doubles.ExtendedTestResult, ThreadsafeForwardingResult's buffers, "
            "MultiTestResult, Tagger and the ExtendedToStreamDecorator -> StreamToExtendedDecorator -> PlaceHolder.run "
            "path; tied to /repo on every run by differential execution of model and real classes inside coqc; the "
            "oracle for a failing input is the executable statement spec_okb, proved to imply the readable Spec.",
    "note": "Trusted: Coq kernel + vm_compute; the harness (generators, drivers, Gallina printer). Tag sets are "
            "compared extensionally over a 3-tag universe; every tags(new, gone) call has disjoint sets and tests "
            "are not nested (the quantifier). Histories need not begin with startTestRun on any "
            "stack (ExtendedToStreamDecorator included: tags()/current_tags/stopTest before the run, the implicit "
            "start at the first startTest/outcome keeps the tags). "
            "A Tagger below a multiplexer/forwarder changes what its subtree sees on purpose: such leaves are "
            "compared with the model but not with the reporter. All theorems closed under the global context.",
    "technique": "Coq proof (invariant/refinement over histories, induction on adapter trees, set algebra) + "
                 "model/implementation correspondence in coqc",
    "ref": "6 C17",
}
RULE = ("histories over startTestRun / tags(new, gone) / startTest / six outcome kinds / stopTest, incl. the "
        "startTest-less outcome+stopTest pair, with or without a leading startTestRun on every stack: fixed "
        "scenarios x 30 stacks; exhaustive over a 6-letter alphabet to length 4 (quick) / 6 (thorough), stacks "
        "rotating; the scope family [startTestRun]? run-level word, startTest, in-test word, outcome, [tags]?, "
        "stopTest, next test - words over {add a, remove a} to length 2 (quick) / 3 (thorough) - on each of six "
        "configurations (ExtendedTestResult, E2O over an old result, MultiTestResult, ThreadsafeForwardingResult, "
        "E2S->S2E, Tagger removing a); random to length 40 (mostly well-formed, a quarter of the tags() calls undo "
        "the previous one, some with two outcomes per test or startTestRun inside a test; new/gone always disjoint "
        "and tests never nested - in the history, in every Tagger, in every shrink step), each through an adapter stack (fixed list of 30 + random to depth 4 over Leaf/old Leaf/"
        "Multi/Decorator/Tagger/E2O/TFR/E2S->S2E); non-trivial = at least one tags() inside a test, one outside, "
        "and an outcome; distinct = distinct JSON")
TRUSTED = ["the recording leaves (subclasses of doubles.ExtendedTestResult / Python27TestResult that note "
           "current_tags when an outcome arrives) and doubles.StreamResult are used as they are"]
ASSUMPTIONS = ["every tags(new, gone) call of a history and every Tagger(new, gone) of a stack has DISJOINT new/gone sets "
               "(the property's quantifier; with overlapping sets implementations may differ, e.g. whether "
               "_merge_tags lets the removal win), and startTest is not called inside an open test: generate() and "
               "shrink() produce no other input, and spec_okb is vacuous on them",
               "MultiTestResult has at least one member (MultiTestResult() raises IndexError in its constructor)",
               "one ThreadsafeForwardingResult per target and a single thread (interleavings are C12)"]
EXPLANATION = ("Theorems in coq/Props/C17.v over all histories and adapter stacks; correspondence: current_tags of "
               "the outermost real object after every call, current_tags of every wrapped recording result at "
               "every outcome it receives, and test_tags of every final status event, against coq/Model/Tags.v.")

TAGS = "abc"
OUTCOMES = ["addSuccess", "addError", "addFailure", "addSkip", "addExpectedFailure", "addUnexpectedSuccess"]


# ---------------- building real stacks ----------------
def _nums(tags):
    return sorted(TAGS.index(t) for t in tags)


def _leaf_classes():
    from testtools.testresult.doubles import ExtendedTestResult, Python27TestResult

    class Rec(ExtendedTestResult):
        def __init__(self):
            super().__init__()
            self.seen = []

    class OldRec(Python27TestResult):
        owner = None

        def __init__(self):
            super().__init__()
            self.seen = []

    def wrap(cls, base, name, who):
        orig = getattr(base, name)

        def f(self, *a, **k):
            r = orig(self, *a, **k)     # may raise TypeError (old signature): the caller then retries
            self.seen.append(_nums(who(self).current_tags))
            return r
        setattr(cls, name, f)
    for m in OUTCOMES:
        wrap(Rec, ExtendedTestResult, m, lambda s: s)
        wrap(OldRec, Python27TestResult, m, lambda s: s.owner)
    return Rec, OldRec


def build(tree, sinks):
    """returns the real object; appends to sinks, depth first, callables giving the observed tag lists"""
    import threading
    from testtools.testresult import real
    from testtools.testresult import doubles
    k = tree[0]
    if k == "L":
        Rec, OldRec = _leaf_classes()
        if tree[1]:
            old = OldRec()
            w = real.ExtendedToOriginalDecorator(old)
            old.owner = w
            sinks.append(lambda: old.seen)
            return w
        r = Rec()
        sinks.append(lambda: r.seen)
        return r
    if k == "M":
        return real.MultiTestResult(*[build(c, sinks) for c in tree[1]])
    if k == "D":
        return real.TestResultDecorator(build(tree[1], sinks))
    if k == "G":
        return real.Tagger(build(tree[3], sinks), set(TAGS[i] for i in tree[1]), set(TAGS[i] for i in tree[2]))
    if k == "O":
        return real.ExtendedToOriginalDecorator(build(tree[1], sinks))
    if k == "F":
        return real.ThreadsafeForwardingResult(build(tree[1], sinks), threading.Semaphore(1))
    if k == "S":
        log = doubles.StreamResult()

        def finals():
            return [_nums(e.test_tags or ()) for e in log._events
                    if e[0] == "status" and e.test_status not in real.INTERIM_STATES]
        sinks.append(finals)
        return real.ExtendedToStreamDecorator(
            real.CopyStreamResult([log, real.StreamToExtendedDecorator(build(tree[1], sinks))]))
    raise ValueError(k)


def drive(case):
    from testtools import PlaceHolder
    sinks = []
    r = build(case["stack"], sinks)
    n = 0
    test = PlaceHolder("t0")
    reporter = []
    for op in case["hist"]:
        k = op[0]
        if k == "R":
            r.startTestRun()
        elif k == "T":
            r.tags(set(TAGS[i] for i in op[1]), set(TAGS[i] for i in op[2]))
        elif k == "S":
            n += 1
            test = PlaceHolder("t%d" % n)
            r.startTest(test)
        elif k == "E":
            r.stopTest(test)
        elif k == "O":
            m = OUTCOMES[op[1]]
            if m in ("addError", "addFailure", "addExpectedFailure"):
                getattr(r, m)(test, details={})
            elif m == "addSkip":
                r.addSkip(test, "why")
            else:
                getattr(r, m)(test)
        else:
            raise ValueError(op)
        reporter.append(_nums(r.current_tags))
    return {"reporter": reporter, "leaves": [s() for s in sinks]}


# ---------------- Gallina ----------------
def t_set(s):
    return q.lst([q.nat(x) for x in s])


def t_stack(t):
    k = t[0]
    if k == "L":
        return "(Leaf %s)" % q.boolean(t[1])
    if k == "M":
        return "(Multi %s)" % q.lst([t_stack(c) for c in t[1]])
    if k == "G":
        return "(Tagger %s %s)" % (q.pair(t_set(t[1]), t_set(t[2])), t_stack(t[3]))
    return "(%s %s)" % ({"D": "Deco", "O": "E2O", "F": "TFR", "S": "E2S"}[k], t_stack(t[1]))


def t_op(op):
    k = op[0]
    if k == "T":
        return "Tags %s" % q.pair(t_set(op[1]), t_set(op[2]))
    return {"R": "StartRun", "S": "StartTest", "E": "StopTest", "O": "Outcome"}[k]


def term(case, o):
    i = q.record([("stack", t_stack(case["stack"])), ("hist", q.lst([t_op(op) for op in case["hist"]]))])
    ob = q.record([("o_reporter", q.lst([t_set(s) for s in o["reporter"]])),
                   ("o_leaves", q.lst([q.lst([t_set(s) for s in l]) for l in o["leaves"]]))])
    return q.pair(i, ob)


def perturb(case, o):
    o = {"reporter": [list(s) for s in o["reporter"]], "leaves": o["leaves"]}
    if o["reporter"]:
        o["reporter"][-1] = o["reporter"][-1] + [7]
    else:
        o["reporter"] = [[7]]
    return o


# ---------------- generation ----------------
L, LO = ["L", False], ["L", True]
STACKS = [
    L, LO, ["M", [L]], ["M", [L, LO]], ["D", L], ["G", [0], [], L], ["O", L], ["F", L], ["S", L],
    ["F", LO], ["S", LO], ["F", ["S", L]], ["S", ["F", L]], ["M", [["F", L], ["S", L]]],
    ["G", [1], [0], ["F", L]], ["F", ["G", [0], [], L]], ["D", ["S", L]], ["O", ["M", [L, L]]],
    ["S", ["M", [L, ["F", L]]]], ["G", [0], [2], ["G", [2], [1], ["M", [L, ["S", L]]]]],
    ["M", [["G", [0], [], L], L]], ["F", ["M", [["D", L], ["O", LO]]]], ["D", ["G", [1], [], ["O", ["F", ["S", L]]]]],
    ["F", ["F", L]], ["S", ["S", L]], ["M", [["M", [L, L]], L]], ["O", ["O", LO]], ["G", [], [0], ["S", ["F", LO]]],
    ["F", ["S", ["F", ["S", L]]]], ["D", ["D", ["F", ["D", L]]]],
]


def has_e2s(t):
    return '"S"' in json.dumps(t)


def rand_set(rng):
    return sorted(i for i in range(3) if rng.random() < 0.35)


def rand_stack(rng, d):
    if d == 0 or rng.random() < 0.25:
        return ["L", rng.random() < 0.25]
    k = rng.choice("MMDGOFFSS")
    if k == "M":
        return ["M", [rand_stack(rng, d - 1) for _ in range(rng.choice([1, 2, 2, 3]))]]
    if k == "G":
        new = rand_set(rng)
        gone = [x for x in rand_set(rng) if x not in new]       # Tagger(new, gone) calls tags(new, gone): disjoint
        return ["G", new, gone, rand_stack(rng, d - 1)]
    return [k, rand_stack(rng, d - 1)]


def rand_tags(rng, last=None):
    """a tags(new, gone) call; new and gone are ALWAYS disjoint (the property's quantifier)"""
    if last is not None and (last[1] or last[2]) and rng.random() < 0.25:
        # undo the previous tags() call: re-add what it removed, remove what it added
        return ["T", list(last[2]), list(last[1])]
    new = rand_set(rng)
    gone = [x for x in rand_set(rng) if x not in new]
    return ["T", new, gone]


def _last_tags(h):
    for op in reversed(h):
        if op[0] == "T":
            return op
    return None


def rand_hist(rng, n):
    """mostly well-formed; with small probability two outcomes in one test or startTestRun inside a test (the
    first clause still speaks about those).  Never a tags() call with overlapping sets, never a nested startTest:
    the statement says nothing at all about such histories, so implementations may differ there."""
    sloppy = rng.random() < 0.12
    h = [["R"]] if rng.random() < 0.35 else []     # otherwise the run starts implicitly, or later, or never
    in_test = False
    seen = False
    while len(h) < n:
        x = rng.random()
        if not in_test:
            if x < 0.10:
                h.append(["R"])
            elif x < 0.40:
                h.append(rand_tags(rng, _last_tags(h)))
            elif x < 0.80:
                h.append(["S"])
                in_test, seen = True, False
            elif x < 0.90:
                # the startTest-less pair of Python 3.12.1
                h.append(["O", 3])
                h.append(["E"])
            elif x < 0.95:
                h.append(["O", rng.randrange(6)])
            else:
                h.append(["E"])
        else:
            if x < 0.40:
                h.append(rand_tags(rng, _last_tags(h)))
            elif x < 0.65 and (not seen or sloppy):
                h.append(["O", rng.randrange(6)])
                seen = True
            elif x < 0.95:
                h.append(["E"])
                in_test = False
            elif sloppy:
                h.append(["R"])
                in_test = False
    return h[:n]


ALPHA = [["R"], ["S"], ["E"], ["O", 0], ["T", [0], []], ["T", [], [0]]]


# ---------------- the input domain ----------------
def _taggers_disjoint(t):
    k = t[0]
    if k == "L":
        return True
    if k == "M":
        return all(_taggers_disjoint(c) for c in t[1])
    if k == "G" and set(t[1]) & set(t[2]):
        return False
    return _taggers_disjoint(t[-1])


def in_domain(case):
    """the histories the property quantifies over, as far as the statement speaks at all: every tags(new, gone)
    call - of the history and of every Tagger in the stack - has disjoint sets, and tests are not nested
    (Spec.C17: both clauses of spec_okb are vacuous otherwise).  generate() and shrink() stay inside."""
    in_test = False
    for op in case["hist"]:
        if op[0] == "T" and set(op[1]) & set(op[2]):
            return False
        if op[0] == "S":
            if in_test:
                return False
            in_test = True
        elif op[0] in "ER":
            in_test = False
    return _taggers_disjoint(case["stack"])


ADD, REM = ["T", [0], []], ["T", [], [0]]
# one configuration per implementation of the tag scoping: doubles.ExtendedTestResult, ExtendedToOriginalDecorator
# over an old result, MultiTestResult (TestResult's own code), ThreadsafeForwardingResult's buffers,
# ExtendedToStreamDecorator -> StreamToExtendedDecorator -> PlaceHolder.run, and a Tagger that removes the tag
SIX = [L, LO, ["M", [L, LO]], ["F", L], ["S", L], ["G", [], [0], L]]


def _words(maxlen):
    for n in range(maxlen + 1):
        for w in itertools.product([ADD, REM], repeat=n):
            yield [list(x) for x in w]


def scope_family(maxlen):
    """[R]? run-level word; startTest; in-test word; outcome; [re-add]?; stopTest; next test: every order of
    adding / removing / re-adding one tag in the run-level scope and in one test's scope"""
    for pre in ([["R"]], []):
        for run in _words(maxlen):
            for inner in _words(maxlen):
                for post in ([], [ADD]):
                    yield pre + run + [["S"]] + inner + [["O", 0]] + post + [["E"], ["S"], ["O", 0], ["E"]]


def generate(rng, tier):
    cases = []
    a, b = ["T", [0], []], ["T", [1], []]
    fixed_h = [
        # F4: the startTest-less pair must not pop the run-level context
        [["R"], a, ["O", 3], ["E"], ["T", [2], []], ["S"], b, ["O", 0], ["E"], ["O", 0]],
        [a, ["O", 3], ["E"], ["E"], b, ["S"], ["O", 1], ["E"]],
        # F5: buffers survive startTestRun / tags between outcome and stopTest
        [["R"], a, ["R"], ["S"], ["O", 0], ["E"]],
        [["R"], ["S"], ["O", 0], b, ["E"], ["S"], ["O", 2], ["E"]],
        # add globally, remove locally, re-add, next test
        [["R"], a, ["S"], ["T", [], [0]], ["O", 0], ["T", [0], []], ["E"], ["S"], ["T", [1], [0]], ["O", 4], ["E"],
         ["T", [2], [0]], ["S"], ["O", 5], ["E"]],
        # second clause silent, first clause not: two outcomes in one test, restart inside a test
        [["R"], ["S"], a, ["O", 0], b, ["O", 1], ["E"]],
        [["R"], a, ["S"], b, ["R"], ["T", [2], []], ["O", 0], ["E"], ["S"], ["O", 0], ["E"]],
        [],
        # before any startTestRun (ExtendedToStreamDecorator: the implicit start keeps the tags)
        [a],
        [["E"]],
        [a, ["S"], ["O", 0], ["E"]],
        [a, ["O", 0]],
        [a, ["E"], b, ["O", 3], ["E"], ["S"], ["T", [2], [0]], ["O", 0], ["E"], ["S"], ["O", 1], ["E"]],
        [["S"], a, ["O", 0], ["E"], b, ["S"], ["O", 0], ["E"]],
        [a, ["S"], ["T", [], [0]], ["O", 0], ["E"], ["R"], b, ["S"], ["O", 0], ["E"]],      # a later explicit start resets
        [a, ["R"], ["S"], ["O", 0], ["E"]],
        [a, ["S"], ["O", 0], ["E"], ["R"], ["S"], ["O", 0], ["E"]],
        # remove a tag, then re-add it in the same scope: inside one test / at run level / both
        [["R"], a, ["S"], ["T", [], [0]], ["T", [0], []], ["O", 0], ["E"], ["S"], ["O", 0], ["E"]],
        [["R"], ["S"], a, ["T", [], [0]], ["T", [0], []], ["O", 0], ["E"]],
        [["R"], ["S"], ["T", [], [0]], ["T", [0], []], ["O", 0], ["E"], ["S"], ["O", 0], ["E"]],
        [["R"], a, ["T", [], [0]], ["T", [0], []], ["S"], ["O", 0], ["E"]],
        [["T", [], [0]], ["T", [0], []], ["O", 3], ["E"], ["S"], ["O", 0], ["E"]],
        [["R"], a, ["T", [1], [0]], ["T", [0], [1]], ["S"], ["T", [], [0]], ["T", [0, 2], []], ["O", 0], ["E"],
         ["S"], ["T", [], [0]], ["O", 0], ["T", [0], []], ["E"], ["S"], ["O", 0], ["E"]],
        # add globally, remove locally, re-add locally (before / after the outcome), next test
        [["R"], ["T", [0, 1], []], ["S"], ["T", [], [0]], ["T", [0], [1]], ["O", 0], ["E"], ["S"], ["O", 0], ["E"]],
        [a, ["S"], ["T", [], [0]], ["O", 0], ["T", [0], []], ["E"], ["S"], ["T", [], [0]], ["T", [0], []], ["O", 2],
         ["E"], ["T", [], [0]], ["S"], ["T", [0], []], ["O", 0], ["E"], ["S"], ["O", 0], ["E"]],
        # removed at run level, re-added in a test only: the next test must not have it
        [["R"], a, ["T", [], [0]], ["S"], ["T", [0], []], ["O", 0], ["E"], ["S"], ["O", 0], ["E"]],
    ]
    for h in fixed_h:
        for s in STACKS:
            cases.append({"stack": s, "hist": h})
    for h in scope_family(2 if tier == "quick" else 3):
        for s in SIX:
            cases.append({"stack": s, "hist": h})
    # bounded-exhaustive core, stacks rotating
    maxlen = 4 if tier == "quick" else 6
    k = 0
    for n in range(1, maxlen + 1):
        for w in itertools.product(ALPHA, repeat=n):
            s = STACKS[k % len(STACKS)]
            k += 1
            cases.append({"stack": s, "hist": [list(x) for x in w]})
    n_rand = 2200 if tier == "quick" else 70000
    for j in range(n_rand):
        s = rng.choice(STACKS) if rng.random() < 0.4 else rand_stack(rng, rng.choice([1, 2, 3, 4]))
        h = rand_hist(rng, rng.choice([3, 6, 10, 16, 25, 40]))
        cases.append({"stack": s, "hist": h})
    return [c for c in cases if in_domain(c)]


def nontrivial(case):
    in_test = False
    inside = outside = outcome = False
    for op in case["hist"]:
        if op[0] == "S":
            in_test = True
        elif op[0] in "ER":
            in_test = False
        elif op[0] == "T" and (op[1] or op[2]):
            if in_test:
                inside = True
            else:
                outside = True
        elif op[0] == "O":
            outcome = True
    return inside and outside and outcome


def _sub_stacks(t):
    k = t[0]
    if k == "L":
        if t[1]:
            yield ["L", False]
        return
    if k == "M":
        for c in t[1]:
            yield c
        for i in range(len(t[1])):
            if len(t[1]) > 1:
                yield ["M", t[1][:i] + t[1][i + 1:]]
        for i, c in enumerate(t[1]):
            for s in _sub_stacks(c):
                yield ["M", t[1][:i] + [s] + t[1][i + 1:]]
        return
    child = t[-1]
    yield child
    if k == "G":
        for j in (1, 2):
            for i in range(len(t[j])):
                u = list(t)
                u[j] = t[j][:i] + t[j][i + 1:]
                yield u
    for s in _sub_stacks(child):
        yield t[:-1] + [s]


def shrink(case):
    for c in _shrink(case):
        if in_domain(c):
            yield c


def _shrink(case):
    h, s = case["hist"], case["stack"]
    for i in range(len(h)):
        yield {"stack": s, "hist": h[:i] + h[i + 1:]}
    for s2 in _sub_stacks(s):
        yield {"stack": s2, "hist": h}
    for i, op in enumerate(h):
        if op[0] == "T":
            for j in (1, 2):
                for x in range(len(op[j])):
                    op2 = list(op)
                    op2[j] = op[j][:x] + op[j][x + 1:]
                    yield {"stack": s, "hist": h[:i] + [op2] + h[i + 1:]}
        if op[0] == "O" and op[1] != 0:
            yield {"stack": s, "hist": h[:i] + [["O", 0]] + h[i + 1:]}


def distribution(cases):
    d = {"hist_len": {}, "stack_kinds": {}, "with_startTestless_outcome": 0, "nontrivial": 0,
         "second_clause_silent": 0, "overlapping_or_nested": 0, "restarts": 0, "no_startTestRun_first": 0, "e2s_tags_before_start": 0,
         "readd_same_scope": 0}
    for c in cases:
        n = len(c["hist"])
        b = "0-4" if n <= 4 else "5-10" if n <= 10 else "11-25" if n <= 25 else "26+"
        d["hist_len"][b] = d["hist_len"].get(b, 0) + 1
        s = json.dumps(c["stack"])
        for k, nm in (("M", "Multi"), ("D", "Decorator"), ("G", "Tagger"), ("O", "E2O"), ("F", "TFR"), ("S", "E2S->S2E")):
            if '"%s"' % k in s:
                d["stack_kinds"][nm] = d["stack_kinds"].get(nm, 0) + 1
        if c["hist"] and c["hist"][0] != ["R"]:
            d["no_startTestRun_first"] += 1
            # tags()/stopTest reach an ExtendedToStreamDecorator whose run has not been started
            d["e2s_tags_before_start"] += has_e2s(c["stack"]) and c["hist"][0][0] in "TE"
        in_test = seen = False
        bad = False
        bare = False
        gone_here = set()       # tags removed in the current scope
        readd = False
        for op in c["hist"]:
            if op[0] in "SER":
                gone_here = set()
            elif op[0] == "T":
                readd |= bool(gone_here & set(op[1]))
                gone_here = (gone_here - set(op[1])) | set(op[2])
            if op[0] == "S":
                bad |= in_test
                in_test, seen = True, False
            elif op[0] == "E":
                in_test = False
            elif op[0] == "R":
                bad |= in_test
                in_test = False
            elif op[0] == "O":
                bare |= not in_test
                bad |= in_test and seen
                seen = True
            elif op[0] == "T":
                bad |= bool(set(op[1]) & set(op[2]))
        d["with_startTestless_outcome"] += bare
        d["second_clause_silent"] += bad
        d["overlapping_or_nested"] += not in_domain(c)
        d["nontrivial"] += nontrivial(c)
        d["readd_same_scope"] += readd
        d["restarts"] += sum(1 for op in c["hist"] if op[0] == "R") >= 2
    return d
