"""Generators for C07."""
import itertools

SYMS5 = [39, 34, 92, 10, 97]                       # ' " \ newline a
ALPHABET = [39, 39, 39, 34, 34, 92, 92, 10, 10, 13, 0, 127, 0x85, 0x1F600, 0x301, 97, 32, 9, 0xE9, 0xA0, 0x2028,
            0xFF, 0x100, 0xD800, 0xFFFF, 0x10FFFF, 0xAD, 120, 110]
BALPHABET = [39, 39, 39, 34, 34, 92, 92, 10, 10, 13, 0, 127, 0x85, 97, 32, 9, 0xE9, 0xFF, 120, 110]
NAMES = ["a", "a-1", "a-2", "b", "Failed expectation", "Failed expectation-1", "traceback", "a-1-1"]


def repr_case(s, isb, ml):
    return {"k": "repr", "bytes": isb, "s": list(s), "ml": ml}


def gen_repr(rng, tier):
    quick = tier == "quick"
    out = []
    fixed = ["", "'", "''", "'''", "''''", "'''''", "''''''", "a'''", "'''a", "\\'", "\\'''", "'\\''", "\"'", "\"'''",
             "a\nb", "\n", "\n\n", "'\n'", "''\n'", "\\\n", "\\", "\\\\'", "\"", "\"\"\"", "'\"\n\\", "\r\n", "\\n",
             "a\\'\nb\"", "'''\n'''", "\x00'\x7f", "\x85\n\xa0", "\U0001f600'''", "é\n", "\ud800", "b'x'", "'''\\"]
    for s in fixed:
        for ml in (None, True, False):
            out.append(repr_case([ord(c) for c in s], False, ml))
            if all(ord(c) < 256 for c in s):
                out.append(repr_case([ord(c) for c in s], True, ml))
    # exhaustive over five symbols
    maxlen = 4 if quick else 6
    bmax = 3 if quick else 5
    for n in range(0, maxlen + 1):
        for tup in itertools.product(SYMS5, repeat=n):
            for ml in ((None, True) if n > 3 else (None, True, False)):
                out.append(repr_case(tup, False, ml))
            if n <= bmax:
                for ml in (None, True):
                    out.append(repr_case(tup, True, ml))
    # random to length 40
    for _ in range(900 if quick else 30000):
        isb = rng.random() < 0.3
        alpha = BALPHABET if isb else ALPHABET
        n = rng.choice([1, 2, 3, 5, 8, 12, 20, 40])
        s = [rng.choice(alpha) for _ in range(rng.randint(0, n))]
        if rng.random() < 0.3:      # runs of quotes around other characters
            k = rng.randint(0, len(s))
            s[k:k] = [39] * rng.randint(2, 7)
        out.append(repr_case(s, isb, rng.choice([None, None, True, True, False])))
    return out


def gen_desc(rng, tier):
    """every name in testtools.matchers.__all__, read from the tree under test at run time"""
    import testtools.matchers
    from .c07 import harness_table
    table = harness_table()
    names = sorted(testtools.matchers.__all__)
    out = []
    for idx, name in enumerate(names):
        if name not in table:
            out.append({"k": "desc", "name": name, "id": idx, "variant": 0, "value": 0, "ann": False})
            continue
        for vi, (_, vals, tag) in enumerate(table[name]):
            for xi in range(len(vals)):
                for ann in (False, True):
                    # the cross product special text x every matcher is sampled in the quick tier (first value
                    # without message always kept); patterns, argument shapes and tuple matchees are all kept
                    if tag.startswith("text") and tier == "quick" and (xi or ann) and rng.random() >= 0.2:
                        continue
                    c = {"k": "desc", "name": name, "id": idx, "variant": vi, "value": xi, "ann": ann}
                    if tag != "base":
                        c["what"] = tag       # for the reader of a replay: kind of variant and what it is built from
                    out.append(c)
    # combinator expressions as in C06
    from . import gen_c06 as g
    n = 500 if tier == "quick" else 12000
    for _ in range(n):
        st = g.St(rng)
        v = g.rand_value(rng)
        if v[0] == "raise" and v[1] not in g.USER_EXC:
            continue                  # would propagate out of Raises: no mismatch to describe
        m = g.gm(rng, rng.choice([1, 2, 2, 3, 3, 4]), [v], st, top=True)
        out.append({"k": "dexpr", "m": m, "v": v, "leafdefs": st.leafdefs, "ann": rng.random() < 0.4})
    return out


def mixed_keys(m, v):
    """does the case involve dict keys of both kinds (int and str)?  describe() of a dict-matcher mismatch sorts
    the keys; before fix d5f0119 it raised TypeError for such keys (used for the input distribution only)"""
    from .c06 import walk
    kinds = set()
    for x in walk(m):
        if x[0] in ("MatchesDict", "ContainsDict", "ContainedByDict"):
            kinds |= set(k[0] for k, _ in x[1])

    def vals(v):
        if v[0] == "d":
            for k, x in v[1]:
                kinds.add(k[0])
                vals(x)
        elif v[0] == "l":
            for x in v[1]:
                vals(x)
        elif v[0] == "r":
            for _, x in v[2]:
                vals(x)
    if any(x[0] in ("MatchesDict", "ContainsDict", "ContainedByDict") for x in walk(m)):
        vals(v)
    return len(kinds) > 1


def gen_steps(rng, tok, lengths=(1, 1, 2, 2, 3, 4, 6), p_raise=0.0):
    steps = []
    for _ in range(rng.choice(lengths)):
        kind = rng.choice([0, 1, 1, 1, 2])
        if rng.random() < 0.4:
            mis = None
        else:
            names = rng.sample(NAMES, rng.choice([0, 1, 1, 2, 3]))
            mis = []
            for n in names:
                mis.append([n, tok[0]])
                tok[0] += 1
        steps.append([kind, mis, rng.random() < 0.3])
    if rng.random() < p_raise:
        # mostly the last statement of the function; sometimes earlier (what follows must not run)
        at = len(steps) if rng.random() < 0.75 else rng.randint(0, len(steps))
        steps.insert(at, [3, rng.randrange(5), rng.random() < 0.5])
    return steps


FIELDS = ("setup", "body", "teardown")


def prog(pre=(), setup=(), body=(), teardown=(), cleanups=(), setup_up=0, teardown_up=None):
    """setup_up / teardown_up: how many statements of setUp / tearDown stand before super().setUp() /
    super().tearDown() (default: setUp upcalls first, tearDown last)"""
    return {"k": "test", "pre": [list(d) for d in pre], "setup": list(setup), "setup_up": setup_up,
            "body": list(body), "teardown": list(teardown),
            "teardown_up": len(teardown) if teardown_up is None else teardown_up,
            "cleanups": [list(c) for c in cleanups]}


def raises(st):
    return st[0] == 3 or (st[0] in (0, 2) and st[1] is not None)


def executed(stmts):
    out = []
    for st in stmts:
        out.append(st)
        if raises(st):
            break
    return out


def in_f21(case):
    """setUp raises and an executed expectThat mismatched: the class of the former finding F21 (repaired by /repo
    889980a); generated like every other case, counted in the input distribution"""
    if not any(raises(st) for st in case["setup"]):
        return False
    ex = executed(case["setup"]) + [st for c in case["cleanups"] for st in executed(c)]
    return any(st[0] == 1 and st[1] is not None for st in ex)


def gen_test(rng, tier):
    out = []
    E, A, F = 1, 0, 2
    fixed = [
        prog(body=[[A, None, False]]),
        prog(body=[[A, [], False]]),
        prog(body=[[E, [], False], [A, None, False]]),
        prog(pre=[["a", 1]], body=[[E, [["a", 2]], False], [E, [["a", 3], ["a-1", 4]], True], [A, [["a", 5]], False],
                                   [E, [["b", 6]], False]]),
        prog(pre=[["Failed expectation", 1]], body=[[E, [["Failed expectation-1", 2]], False],
                                                    [E, [["Failed expectation", 3]], False]]),
        prog(pre=[["a", 1], ["a-1", 2], ["a-2", 3]], body=[[F, [["a", 4]], False]]),
        prog(pre=[["a", 1], ["a-1", 2], ["a-2", 3]], body=[[A, [["a", 4], ["a-1", 5]], False]]),
        prog(body=[[F, None, False], [E, [["traceback", 1]], False]]),
        # a failed expectation before setUp upcalls the base setUp / after tearDown has upcalled the base tearDown
        prog(setup=[[E, [["a", 1]], False]], setup_up=1),
        prog(setup=[[E, [], False], [A, None, False]], setup_up=2, body=[[A, None, False]]),
        prog(pre=[["a", 1]], setup=[[E, [["a", 2]], False], [E, None, False]], setup_up=1),
        prog(teardown=[[E, [["a", 1]], False]], teardown_up=0),
        prog(setup=[[A, None, False]], setup_up=1, teardown=[[A, None, False], [E, [], False]], teardown_up=1),
        prog(setup=[[3, 0, False]], setup_up=1, cleanups=[[[E, [["a", 1]], False]]]),
        # a failed expectation in setUp, setUp then skips / a cleanup after a failed setUp has a failed expectation
        prog(setup=[[E, [["a", 1]], False], [3, 0, False]]),
        prog(setup=[[3, 2, False]], cleanups=[[[E, [["a", 1]], False]]]),
        # a failed expectation, then the test goes on to skip / reach an expected failure / ...
        prog(body=[[E, [["a", 1]], False], [3, 0, False]]),
        prog(body=[[E, [], True], [3, 2, False]]),
        prog(body=[[E, [["a", 1]], False]], teardown=[[3, 0, True]]),
        prog(body=[[E, [["a", 1]], False]], cleanups=[[[3, 0, False]]]),
        prog(body=[[3, 0, False]], cleanups=[[[E, [["a", 1]], False]]]),
        prog(body=[[3, 3, False]], teardown=[[E, [["a", 1]], False], [A, [["a", 2]], False]]),
        prog(pre=[["a", 1]], setup=[[E, [["a", 2]], False]], body=[[3, 0, False]], teardown=[[E, [["a", 3]], False]],
             cleanups=[[[E, [["a", 4]], False], [3, 2, True]], [[A, [["a", 5]], False]]]),
        prog(setup=[[3, 0, False]], body=[[E, [["a", 1]], False]], cleanups=[[[A, [["a", 2]], False]]]),
        prog(setup=[[A, [["a", 1]], False]], cleanups=[[[3, 0, False]], [[3, 4, False]]]),
    ]
    out += fixed
    # exhaustive: every sequence of up to 3 statements over kind x {match, mismatch with detail "a"}, with/without pre "a"
    for n in range(1, 4):
        for combo in itertools.product([(k, m) for k in (0, 1, 2) for m in (False, True)], repeat=n):
            for pre in ([], [["a", 1]]):
                t = 2
                steps = []
                for k, m in combo:
                    steps.append([k, [["a", t]] if m else None, False])
                    t += 1
                out.append(prog(pre=pre, body=steps))
    # exhaustive two-step histories: one statement (expectThat mismatching / matching, assertThat mismatching) in one
    # of setUp, test method, tearDown, first / second cleanup, and one raise of each kind in one of the same places
    # (after the statement when in the same function)
    places = ["setup", "body", "teardown", 0, 1]
    n = 0
    for stmt in ([E, [["a", 2]], False], [E, None, False], [A, [["a", 2]], False]):
        for pa in places:
            for exc in range(5):
                for pe in places:
                    n += 1
                    c = prog(pre=[["a", 1]], cleanups=[[], []])
                    for place, st in ((pa, stmt), (pe, [3, exc, n % 2 == 0])):
                        if isinstance(place, int):
                            c["cleanups"][place].append(list(st))
                        else:
                            c[place].append(list(st))
                    out.append(c)
                    # the same history with the upcalls at the other end of setUp / tearDown, and in the middle
                    ups = [(len(c["setup"]), 0)]
                    if len(c["setup"]) == 2 or len(c["teardown"]) == 2:
                        ups.append((1, 1))
                    for su, tu in ups:
                        c2 = dict(c, setup_up=min(su, len(c["setup"])), teardown_up=min(tu, len(c["teardown"])))
                        if c2 != c:
                            out.append(c2)
    for _ in range(700 if tier == "quick" else 10000):
        tok = [1]
        pre = []
        for n in rng.sample(NAMES, rng.choice([0, 0, 1, 2, 3])):
            pre.append([n, tok[0]])
            tok[0] += 1
        plain = rng.random() < 0.25          # a test method only, nothing else raises
        pr = 0.0 if plain else 0.35
        c = prog(pre=pre, body=gen_steps(rng, tok, p_raise=pr))
        if not plain:
            if rng.random() < 0.4:
                c["setup"] = gen_steps(rng, tok, (0, 1, 1, 2), p_raise=0.25)
                c["setup_up"] = rng.randint(0, len(c["setup"]))
            if rng.random() < 0.5:
                c["teardown"] = gen_steps(rng, tok, (0, 1, 1, 2), p_raise=0.4)
            c["teardown_up"] = rng.randint(0, len(c["teardown"]))
            for _ in range(rng.choice([0, 0, 1, 1, 2, 3])):
                c["cleanups"].append(gen_steps(rng, tok, (0, 1, 1, 2), p_raise=0.4))
        out.append(c)
    return out


def generate(rng, tier):
    return gen_desc(rng, tier) + gen_test(rng, tier) + gen_repr(rng, tier)


def clamp(c):
    return dict(c, setup_up=min(c.get("setup_up", 0), len(c["setup"])),
                teardown_up=min(c.get("teardown_up", len(c["teardown"])), len(c["teardown"])))


def shrink_test(case):
    if case.get("setup_up", 0) != 0:
        yield dict(case, setup_up=0)
    if case.get("teardown_up", len(case["teardown"])) != len(case["teardown"]):
        yield dict(case, teardown_up=len(case["teardown"]))

    def variants(st):
        for i in range(len(st)):
            yield st[:i] + st[i + 1:]
        for i, (kind, mis, flag) in enumerate(st):
            if kind != 3 and mis:
                for j in range(len(mis)):
                    yield st[:i] + [[kind, mis[:j] + mis[j + 1:], flag]] + st[i + 1:]
            if flag:
                yield st[:i] + [[kind, mis, False]] + st[i + 1:]
    cl = case["cleanups"]
    for i in range(len(cl)):
        yield dict(case, cleanups=cl[:i] + cl[i + 1:])
    for f in FIELDS:
        if case[f]:
            yield dict(case, **{f: []})
    for f in FIELDS:
        for v in variants(case[f]):
            yield dict(case, **{f: v})
    for i in range(len(cl)):
        for v in variants(cl[i]):
            yield dict(case, cleanups=cl[:i] + [v] + cl[i + 1:])
    for i in range(len(case["pre"])):
        yield dict(case, pre=case["pre"][:i] + case["pre"][i + 1:])


def shrink(case):
    k = case["k"]
    if k == "repr":
        s = case["s"]
        for i in range(len(s)):
            yield dict(case, s=s[:i] + s[i + 1:])
        for i, c in enumerate(s):
            if c not in (39, 97):
                yield dict(case, s=s[:i] + [97] + s[i + 1:])
    elif k == "test":
        for c in shrink_test(case):
            yield clamp(c)
    elif k == "dexpr":
        from . import gen_c06 as g
        for c in g.shrink({"m": case["m"], "v": case["v"], "leafdefs": case.get("leafdefs", ())}):
            yield {"k": "dexpr", "m": c["m"], "v": c["v"], "leafdefs": c["leafdefs"], "ann": case["ann"]}
        if case["ann"]:
            yield dict(case, ann=False)


def distribution(cases):
    d = {"kind": {}, "repr_len": {}, "repr_bytes": 0, "repr_ml": {}, "desc_names": 0, "test_steps": {},
         "test_raise": {}, "test_failed_expectation_and_nonfailure_exception": 0,
         "test_failed_expectation_and_setup_raises": 0, "test_statements_before_setup_upcall": 0,
         "test_statements_after_teardown_upcall": 0,
         "test_with_setup_teardown_or_cleanups": 0, "dexpr_unorderable_dict_keys": 0}
    names = set()
    for c in cases:
        k = c["k"]
        d["kind"][k] = d["kind"].get(k, 0) + 1
        if k == "repr":
            n = min(len(c["s"]), 41)
            b = n if n <= 6 else (10 if n <= 10 else (20 if n <= 20 else 40))
            d["repr_len"][b] = d["repr_len"].get(b, 0) + 1
            d["repr_bytes"] += c["bytes"]
            d["repr_ml"][str(c["ml"])] = d["repr_ml"].get(str(c["ml"]), 0) + 1
        elif k == "desc":
            names.add(c["name"])
            d["desc_cases"] = d.get("desc_cases", 0) + 1
            w = c.get("what", "base").split(":")[0]
            d.setdefault("desc_variants", {})
            d["desc_variants"][w] = d["desc_variants"].get(w, 0) + 1
        elif k == "dexpr":
            d["dexpr_unorderable_dict_keys"] += mixed_keys(c["m"], c["v"])
        elif k == "test":
            stmts = c["setup"] + c["body"] + c["teardown"] + [st for cl in c["cleanups"] for st in cl]
            n = len(stmts)
            d["test_steps"][n] = d["test_steps"].get(n, 0) + 1
            ex = executed(c["setup"])
            if not any(raises(st) for st in c["setup"]):
                ex = ex + executed(c["body"]) + executed(c["teardown"])
            ex = ex + [st for cl in c["cleanups"] for st in executed(cl)]
            failed = any(st[0] == 1 and st[1] is not None for st in ex)
            for st in ex:
                if st[0] == 3:
                    key = ["skip", "fail", "xfail", "uxsuccess", "error"][st[1]]
                    d["test_raise"][key] = d["test_raise"].get(key, 0) + 1
                    if failed and st[1] in (0, 2, 3):
                        d["test_failed_expectation_and_nonfailure_exception"] += 1
                        break
            d["test_failed_expectation_and_setup_raises"] += in_f21(c)
            d["test_statements_before_setup_upcall"] += c.get("setup_up", 0) > 0
            d["test_statements_after_teardown_upcall"] += c.get("teardown_up", len(c["teardown"])) < len(c["teardown"])
            if c["teardown"] or c["cleanups"] or c["setup"]:
                d["test_with_setup_teardown_or_cleanups"] += 1
    d["desc_names"] = len(names)
    return d
