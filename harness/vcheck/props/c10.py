"""C10 - stream consumers account for every test exactly once
(testtools/testresult/real.py: _StreamToTestRecord, _TestRecord, StreamToDict,
StreamSummary, StreamToExtendedDecorator; testcase.py: PlaceHolder.run)."""
import datetime
import itertools

from .. import coqio as q

PROP = "C10"
CORR = "Corr.C10"
REQUIRES = ["Lib.Bytestr", "Model.StreamRec", "Spec.C10"]
PROOF_FILES = ["Proof/C10.v", "Lib/Bytestr.v"]
MANIFEST = {
    "text": "Coq theorems over all finite status-event streams (induction over the stream with the invariant 'the "
            "in-progress table is the image of the open segments'): the callbacks of _StreamToTestRecord are exactly "
            "the tests of the segment specification (one per final status at its position, in the order of those events; "
            "the unfinished ones at stopTestRun - the statement and the comparison take what stopTestRun reports as a "
            "multiset of whole tests, the model's popitem order being one allowed order), every id-carrying event "
            "belongs to exactly one reported test, each record "
            "has the last status given (else unknown), the latest tags, first/final timestamps and per file name the "
            "non-empty chunks concatenated in arrival order typed by the first; StreamSummary counts and buckets; "
            "StreamToExtendedDecorator = the same after dropping 'exists'. The hand-written Gallina model is tied to "
            "/repo on every run by differential execution inside coqc; the oracle for a failing input is the "
            "executable statement spec_okb, proved to imply the readable Spec.",
    "note": "Trusted: Coq kernel + vm_compute; the harness (generator, driver, Gallina printer); ids, routes, tags, "
            "file names, mime types and timestamps mapped to small numbers; tables (_status_map, INTERIM/FINAL_STATES, "
            "StreamSummary handlers) regenerated on every run into Gen/Streamtabs.v by probing the public behaviour "
            "of the live classes. All theorems closed under the global context.",
    "technique": "Coq proof (refinement to a segment specification, induction over event streams) + "
                 "model/implementation correspondence in coqc",
    "ref": "6 C10",
}
RULE = ("status-event streams over 2 test ids + None, route codes None/r1/r2, all 8 statuses + None, tag sets or "
        "None, 3 file names with empty/non-empty chunks, 4 mime types + None, timestamps or None: every stream of "
        "length <= 2 (quick; <= 3 thorough) over 24 representative event shapes, a seeded sample of longer ones, and "
        "random streams up to length 60; non-trivial = at least two id-carrying events and (two keys, a file chunk, "
        "or an event after a final status); distinct = distinct JSON")
TRUSTED = ["doubles.ExtendedTestResult (plus a subclass that records current_tags at each outcome) is the observation "
           "instrument for StreamToExtendedDecorator",
           "content types of the reported details are compared through a fixed table of 4 mime strings whose parsed "
           "form is written out in the harness (mime parsing itself belongs to C09/C16)"]
ASSUMPTIONS = ["text/* attachments carry bytes that decode in their charset (wf guard of DESIGN 6 C05/C10): bytes that "
               "are not UTF-8 are generated only under file name f-bin, which is only sent with binary mime types",
               "status words are the eight documented ones or None"]
EXPLANATION = ("Theorems in coq/Props/C10.v over all event streams; correspondence: the same stream is fed to "
               "StreamToDict, StreamSummary and StreamToExtendedDecorator(ExtendedTestResult) of the working tree and "
               "to coq/Model/StreamRec.v; observation = on_test dicts, StreamSummary attributes, extended log, each "
               "taken before and after stopTestRun (what stopTestRun adds is compared as a multiset of whole tests).")

# ---------------- the small alphabets ----------------
IDS = {1: "t.alpha", 2: "t.βeta"}
ROUTES = {1: "r1", 2: "r2"}
TAGS = {1: "tag-a", 2: "tag-é", 3: "tag-c"}
FILES = {1: "f-a", 2: "f-β", 3: "f-bin"}
MIMES = {0: "application/octet-stream", 1: "text/plain; charset=utf8", 2: "text/x-log",
         3: 'application/x-thing; k="v"'}
# what each mime string must parse to (type, subtype, parameters)
PARSED = {0: ("application", "octet-stream", {}), 1: ("text", "plain", {"charset": "utf8"}),
          2: ("text", "x-log", {}), 3: ("application", "x-thing", {"k": "v"})}
STATUS = {"inprogress": "Inprogress", "exists": "Exists", "xfail": "Xfail", "uxsuccess": "Uxsuccess",
          "success": "Success", "fail": "Fail", "skip": "Skip", "unknown": "Unknown"}
OUTCOMES = {"addSuccess": "AddSuccess", "addFailure": "AddFailure", "addError": "AddError", "addSkip": "AddSkip",
            "addExpectedFailure": "AddExpectedFailure", "addUnexpectedSuccess": "AddUnexpectedSuccess"}
UNKNOWN = 4999     # code for anything the tables above do not know (always a disagreement)


def stamp(n):
    return datetime.datetime(2000, 1, 1, 0, 0, n, tzinfo=datetime.timezone.utc)


def rev(table, value):
    for k, v in table.items():
        if v == value:
            return k
    return UNKNOWN


def ts_code(dt):
    if dt is None:
        return None
    if isinstance(dt, datetime.datetime) and dt.year == 2000 and dt.minute == 0 and dt.hour == 0:
        return dt.second
    return UNKNOWN


def ct_code(ct):
    for k, (t, s, p) in PARSED.items():
        if ct.type == t and ct.subtype == s and dict(ct.parameters) == p:
            return k
    return UNKNOWN


def details_obs(details):
    return [[rev(FILES, name), ct_code(c.content_type), list(b"".join(c.iter_bytes()))]
            for name, c in details.items()]


def kwargs_of(e):
    return dict(test_id=IDS.get(e["id"]), test_status=e["st"],
                test_tags=None if e["tags"] is None else set(TAGS[t] for t in e["tags"]),
                runnable=e.get("run", True),
                file_name=FILES.get(e["fn"]), file_bytes=None if e["fb"] is None else bytes(e["fb"]),
                eof=e["eof"], mime_type=None if e["mime"] is None else MIMES[e["mime"]],
                route_code=ROUTES.get(e["route"]), timestamp=None if e["ts"] is None else stamp(e["ts"]))


def make_ext():
    from testtools.testresult import doubles

    class Ext(doubles.ExtendedTestResult):
        """doubles.ExtendedTestResult that also notes the tags current at each outcome call"""

    def wrap(name):
        def method(self, test, *a, **kw):
            self._events.append(("current", sorted(rev(TAGS, t) for t in self.current_tags)))
            return getattr(doubles.ExtendedTestResult, name)(self, test, *a, **kw)
        return method
    for name in OUTCOMES:
        setattr(Ext, name, wrap(name))
    return Ext()


def ext_log_obs(events):
    """the extended result's log as a list of tagged lists"""
    out = []
    cur = None
    for ev in events:
        k = ev[0]
        if k == "current":
            cur = ev[1]
        elif k in ("startTestRun", "stopTestRun"):
            out.append([k])
        elif k == "time":
            out.append(["time", ts_code(ev[1])])
        elif k == "tags":
            out.append(["tags", sorted(rev(TAGS, t) for t in ev[1]), sorted(rev(TAGS, t) for t in ev[2])])
        elif k in ("startTest", "stopTest"):
            out.append([k, rev(IDS, ev[1].id())])
        elif k in OUTCOMES:
            d = ev[2] if len(ev) > 2 else {}
            if not isinstance(d, dict):
                out.append(["other", k])
                continue
            out.append(["outcome", k, rev(IDS, ev[1].id()), cur, details_obs(d)])
            cur = None
        else:
            out.append(["other", k])
    return out


def summary_lists(summ):
    """StreamSummary's public counter and lists, as test ids"""
    return {"run": summ.testsRun,
            "failures": [rev(IDS, c.id()) for c, _ in summ.failures],
            "errors": [rev(IDS, c.id()) for c, _ in summ.errors],
            "skipped": [rev(IDS, c.id()) for c, _ in summ.skipped],
            "xfail": [rev(IDS, c.id()) for c, _ in summ.expectedFailures],
            "uxs": [rev(IDS, c.id()) for c in summ.unexpectedSuccesses]}


def drive(case):
    """Public observation only: the on_test callback, StreamSummary's public attributes, the event record of the
    doubles.  What the status() calls reported is separated from what stopTestRun adds (the statement fixes the
    order of the former only)."""
    from testtools.testresult.real import StreamSummary, StreamToDict, StreamToExtendedDecorator
    dicts = []

    def on_test(d):
        dicts.append({"id": rev(IDS, d["id"]), "tags": sorted(rev(TAGS, t) for t in d["tags"]),
                      "details": details_obs(d["details"]), "status": d["status"],
                      "ts": [ts_code(t) for t in d["timestamps"]]})
    s2d = StreamToDict(on_test)
    summ = StreamSummary()
    ext = make_ext()
    s2e = StreamToExtendedDecorator(ext)
    sinks = (s2d, summ, s2e)
    for s in sinks:
        s.startTestRun()
    for e in case["events"]:
        for s in sinks:
            s.status(**kwargs_of(e))      # fresh tag set per consumer: records keep the caller's object
    n_dicts = len(dicts)
    pre = summary_lists(summ)
    n_ext = len(ext._events)
    for s in sinks:
        s.stopTestRun()
    return {
        "dicts": dicts[:n_dicts],
        "flush": dicts[n_dicts:],
        "pre": pre,
        "sum": summary_lists(summ),
        "ok": bool(summ.wasSuccessful()),
        "ext": ext_log_obs(ext._events[:n_ext]),
        "extflush": ext_log_obs(ext._events[n_ext:]),
    }


# ---------------- Gallina ----------------
def nats(l):
    return q.lst([q.nat(x) for x in l])


def sstr(x):
    """a byte string as a Coq term: printable ASCII as a literal (double quote doubled), anything else as hex"""
    b = bytes(x)
    if all(32 <= c < 127 for c in b):
        return '"%s"%%string' % b.decode("ascii").replace('"', '""')
    return '(hx "%s")' % b.hex()


def t_status(s):
    return STATUS.get(s, "Unknown") if s is not None else None


def t_event(e):
    return "(E %s %s %s %s %s %s %s %s %s)" % (
        q.option(e["id"], q.nat), q.option(e["route"], q.nat), q.option(t_status(e["st"])),
        q.option(e["tags"], nats), q.option(e["fn"], q.nat),
        q.option(e["fb"], lambda b: sstr(bytes(b))), q.boolean(e["eof"]),
        q.option(e["mime"], q.nat), q.option(e["ts"], q.nat))


def t_details(ds):
    return q.lst([q.pair(q.nat(n), q.pair(q.nat(ct), sstr(bytes(b)))) for n, ct, b in ds])


def t_rec(d):
    return "(R %s %s %s %s %s %s)" % (q.nat(d["id"]), nats(d["tags"]), t_details(d["details"]),
                                      STATUS[d["status"]],
                                      q.option(d["ts"][0], q.nat), q.option(d["ts"][1], q.nat))


def t_lev(l):
    k = l[0]
    if k == "startTestRun":
        return "LStartRun"
    if k == "stopTestRun":
        return "LStopRun"
    if k == "time":
        return "(LTime %s)" % q.nat(l[1])
    if k == "tags":
        return "(LTags %s %s)" % (nats(l[1]), nats(l[2]))
    if k == "startTest":
        return "(LStartTest %s)" % q.nat(l[1])
    if k == "stopTest":
        return "(LStopTest %s)" % q.nat(l[1])
    if k == "outcome":
        return "(LOutcome %s %s %s %s)" % (OUTCOMES[l[1]], q.nat(l[2]),
                                           nats(l[3] if l[3] is not None else [UNKNOWN]), t_details(l[4]))
    return "LKeyError"


def t_sumlists(s):
    return q.record([("sl_run", q.nat(s["run"])), ("sl_failures", nats(s["failures"])), ("sl_errors", nats(s["errors"])),
                     ("sl_skipped", nats(s["skipped"])), ("sl_xfail", nats(s["xfail"])), ("sl_uxs", nats(s["uxs"]))])


def term(case, o):
    i = q.record([("evs", q.lst([t_event(e) for e in case["events"]]))])
    ob = q.record([("o_dicts", q.lst([t_rec(d) for d in o["dicts"]])),
                   ("o_flush", q.lst([t_rec(d) for d in o["flush"]])),
                   ("o_pre", t_sumlists(o["pre"])), ("o_sum", t_sumlists(o["sum"])), ("o_ok", q.boolean(o["ok"])),
                   ("o_ext", q.lst([t_lev(l) for l in o["ext"]])),
                   ("o_extflush", q.lst([t_lev(l) for l in o["extflush"]]))])
    return q.pair(i, ob)


def perturb(case, o):
    o = dict(o)
    o["sum"] = dict(o["sum"], run=o["sum"]["run"] + 1)
    return o


# ---------------- generation ----------------
def ev(id=None, route=None, st=None, tags=None, fn=None, fb=None, eof=False, mime=None, ts=None):
    return {"id": id, "route": route, "st": st, "tags": tags, "fn": fn, "fb": fb, "eof": eof, "mime": mime, "ts": ts}


X, YZ, Q_, W, R_ = list(b"x"), list(b"yz"), list(b"q"), list(b"w"), list(b"r")
E_ACUTE = list("é".encode())
SHAPES = [
    ev(1, st="inprogress", ts=1),
    ev(1, st="success", ts=2),
    ev(1, st="fail", tags=[1], ts=3),
    ev(1, fn=1, fb=X, mime=1, ts=2),
    ev(1, fn=1, fb=YZ, mime=0, eof=True),
    ev(1, fn=1, fb=[], mime=2, ts=4),
    ev(1, fn=2, fb=Q_, tags=[2]),
    ev(1, route=1, st="inprogress", ts=1),
    ev(1, route=1, st="success", tags=[], ts=5),
    ev(2, st="inprogress", tags=[1, 2], ts=1),
    ev(2, st="skip", ts=3),
    ev(2, st="exists", ts=2),
    ev(2, st="xfail", fn=1, fb=W, mime=3, eof=True),
    ev(2, st="uxsuccess"),
    ev(None, fn=1, fb=X, ts=1),
    ev(None, st="success", ts=2),
    ev(1, st="unknown", ts=4),
    ev(1),
    ev(2, route=1, fn=3, fb=[255, 0], mime=0, ts=2),
    ev(1, st="exists"),
    ev(2, st="inprogress", fn=2, fb=E_ACUTE, mime=1, ts=4),
    ev(1, tags=[3], ts=2),
    ev(2, route=2, st="fail", ts=1),
    ev(1, st="skip", fn=1, fb=R_, mime=2, tags=[1]),
]
assert len(SHAPES) == 24

TEXT_BYTES = [[], X, YZ, E_ACUTE, list(b"line\n")]
BIN_BYTES = [[], [255, 0], [0xC3], X]


def rand_event(rng, final_bias=0.3):
    e = ev()
    e["id"] = rng.choice([1, 1, 2, 2, 2, None]) if rng.random() < 0.9 else None
    e["route"] = rng.choice([None, None, None, 1, 2])
    r = rng.random()
    if r < final_bias:
        e["st"] = rng.choice(["success", "fail", "skip", "xfail", "uxsuccess", "exists", "unknown"])
    elif r < final_bias + 0.3:
        e["st"] = "inprogress"
    e["tags"] = None if rng.random() < 0.6 else sorted(rng.sample([1, 2, 3], rng.randint(0, 3)))
    if rng.random() < 0.45:
        if rng.random() < 0.2:
            e["fn"] = 3
            e["fb"] = rng.choice(BIN_BYTES)
            e["mime"] = rng.choice([None, 0, 3])
        else:
            e["fn"] = rng.choice([1, 2])
            e["fb"] = rng.choice(TEXT_BYTES)
            e["mime"] = rng.choice([None, 0, 1, 2, 3])
        if rng.random() < 0.05:
            e["fb"] = None
        e["eof"] = rng.random() < 0.3
    elif rng.random() < 0.03:
        e["fb"] = X            # bytes without a name: ignored
    e["ts"] = None if rng.random() < 0.3 else rng.randint(1, 9)
    if rng.random() < 0.1:
        e["run"] = False
    return e


def generate(rng, tier):
    cases = [{"events": []}]
    # fixed corners: repeated finals, events after a final, same id on two routes, split attachments, hung tests
    fixed = [
        [SHAPES[0], SHAPES[1], SHAPES[1]],
        [SHAPES[1], SHAPES[3], SHAPES[0]],
        [SHAPES[0], SHAPES[7], SHAPES[8], SHAPES[1]],
        [SHAPES[3], SHAPES[9], SHAPES[4], SHAPES[20], SHAPES[6], SHAPES[2], SHAPES[10]],
        [SHAPES[9], SHAPES[0], SHAPES[7], SHAPES[18]],
        [SHAPES[5], SHAPES[4], SHAPES[3], SHAPES[16]],
        [SHAPES[11], SHAPES[19], SHAPES[13], SHAPES[12]],
        [SHAPES[14], SHAPES[15]],
        [SHAPES[21], SHAPES[17], SHAPES[23], SHAPES[22]],
    ]
    cases += [{"events": f} for f in fixed]
    full = 2 if tier == "quick" else 3
    for n in range(1, full + 1):
        for combo in itertools.product(SHAPES, repeat=n):
            cases.append({"events": list(combo)})
    # seeded sample of the next lengths
    n_sample = 2400 if tier == "quick" else 60000
    for _ in range(n_sample):
        n = rng.choice([full + 1, full + 1, full + 2])
        cases.append({"events": [rng.choice(SHAPES) for _ in range(n)]})
    n_rand = 1500 if tier == "quick" else 12000
    for _ in range(n_rand):
        n = rng.choice([3, 5, 8, 12, 20, 30, 60]) if rng.random() < 0.8 else rng.randint(1, 60)
        fb = rng.choice([0.1, 0.3, 0.5])
        cases.append({"events": [rand_event(rng, fb) for _ in range(n)]})
    return cases


def keys_of(case):
    return [(e["id"], e["route"]) for e in case["events"] if e["id"] is not None]


def nontrivial(case):
    ks = keys_of(case)
    if len(ks) < 2:
        return False
    evs = [e for e in case["events"] if e["id"] is not None]
    has_file = any(e["fn"] is not None and e["fb"] for e in evs)
    after_final = False
    closed = set()
    for e in evs:
        k = (e["id"], e["route"])
        if k in closed:
            after_final = True
        if e["st"] not in (None, "inprogress"):
            closed.add(k)
    return len(set(ks)) >= 2 or has_file or after_final


def shrink(case):
    evs = case["events"]
    for i in range(len(evs)):
        yield {"events": evs[:i] + evs[i + 1:]}
    for i, e in enumerate(evs):
        for field, simple in (("tags", None), ("fn", None), ("fb", None), ("mime", None), ("ts", None),
                              ("route", None), ("eof", False), ("st", None)):
            if e.get(field) != simple:
                e2 = dict(e)
                e2[field] = simple
                if field == "fn":
                    e2["fb"] = None
                yield {"events": evs[:i] + [e2] + evs[i + 1:]}
        if e.get("run") is False:
            e2 = dict(e)
            del e2["run"]
            yield {"events": evs[:i] + [e2] + evs[i + 1:]}


def distribution(cases):
    d = {"length": {}, "keys": {}, "with_file_chunks": 0, "with_event_after_final": 0, "with_hung_test": 0,
         "with_none_id_event": 0, "with_two_routes_same_id": 0, "status": {}}
    for c in cases:
        evs = c["events"]
        b = len(evs) if len(evs) <= 5 else (10 if len(evs) <= 10 else (30 if len(evs) <= 30 else 60))
        d["length"][b] = d["length"].get(b, 0) + 1
        ks = set(keys_of(c))
        d["keys"][len(ks)] = d["keys"].get(len(ks), 0) + 1
        d["with_file_chunks"] += any(e["fn"] is not None and e["fb"] for e in evs)
        d["with_none_id_event"] += any(e["id"] is None for e in evs)
        d["with_two_routes_same_id"] += any(a[0] == b2[0] and a[1] != b2[1] for a in ks for b2 in ks)
        closed, open_, after = set(), set(), False
        for e in evs:
            if e["id"] is None:
                continue
            k = (e["id"], e["route"])
            after = after or k in closed
            if e["st"] not in (None, "inprogress"):
                closed.add(k)
                open_.discard(k)
            else:
                open_.add(k)
            d["status"][str(e["st"])] = d["status"].get(str(e["st"]), 0) + 1
        d["with_event_after_final"] += after
        d["with_hung_test"] += bool(open_)
    return d
