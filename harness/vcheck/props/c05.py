"""C05 - all details and every traceback reach the result; none is dropped or overwritten (testcase.py, runtest.py)."""
from .. import coqio as q
from . import runprog as R

PROP = "C05"
CORR = "Corr.C05"
REQUIRES = ["Gen.Handlers", "Model.Run", "Spec.Run", "Spec.C05"]
PROOF_FILES = ["Proof/RunCore.v", "Proof/RunExtra.v", "Proof/RunTable.v", "Proof/C05.v"]
MANIFEST = {
    "text": "Coq theorems over all finite test programs whose bodies attach details (any names incl. ones colliding "
            "with generated names), make expectThat/assertThat mismatches carrying details, use fixtures carrying "
            "details (set-up succeeding or failing, old and new protocol), raise any number of exceptions, register "
            "addOnException handlers and change what lazy contents yield, about a hand-written Gallina model of "
            "addDetail/addDetailUniqueName/_matchHelper/gather_details/_report_traceback/onException/_report_*: the "
            "details handed over with the single outcome contain every expected detail (user details by name, every "
            "mismatch, expectation and fixture detail, the skip reason) with the bytes they yield at reporting time "
            "(gathered ones: at gathering), one traceback per failure/error and per assertion behind an expected "
            "failure, generated names are always fresh (pigeonhole), and every handler is called once per exception "
            "before the outcome - proved outside the delimited known finding F14 (a user addDetail under a base name "
            "that a generated detail may hold) and refuted inside it by a computed witness. Tied to /repo on every "
            "run by differential execution of model and implementation inside coqc; the oracle is the executable "
            "statement spec_okb, proved to imply the readable Spec.",
    "note": "Trusted: Coq kernel + vm_compute; the harness (generator, driver, a recording result that reads every "
            "content when the outcome arrives, Gallina printer). Details are observed as (base name, payload) - the "
            "disambiguating suffix and the order of the dict are left open; tracebacks are counted, their text is not "
            "compared. fixtures.Fixture (4.3.2) getDetails/setUp/cleanUp behaviour is modelled, validated by "
            "correspondence. The name 'reason' is reserved. Known finding F14 is delimited by Spec.C05.finding_F14 (an "
            "over-approximation by base name). All theorems closed under the global context.",
    "technique": "Coq proof (refinement of the machine to a fold over detail events, pigeonhole for fresh names) + "
                 "model/implementation correspondence in coqc",
    "ref": "6 C05",
}
RULE = ("programs as in C01 whose bodies also attach details under names from {traceback, traceback-1, traceback-1-2, "
        "traceback-2, Failed expectation, Failed expectation-1, log, x, x-1, fxd, fxd-1}, make mismatches carrying 0-2 "
        "details, use 0-2 fixtures carrying 0-2 details (ok / failing old style / failing with SetupError), raise 0-4 "
        "exceptions, register 0-2 addOnException handlers (odd-numbered ones read every detail the test has when they are called), "
        "read their own details mid-run (peek) and change cells before and after (payloads: empty, multi-chunk, not UTF-8; one Content "
        "object per source); "
        "non-trivial = a detail-attaching statement together with a raising statement, or two detail sources with the "
        "same base name; distinct = distinct JSON; plus fixtures one of whose details cannot be evaluated when it is gathered, @unittest.expectedFailure tests ending in every behaviour, force_failure set on the failed-setUp path")
TRUSTED = ["the recording subclass of doubles.ExtendedTestResult reads each content's bytes when the outcome call "
           "arrives", "fixtures.Fixture getDetails/setUp/cleanUp (fixtures 4.3.2) is modelled, not verified"]
ASSUMPTIONS = ["the result object and addOnException handlers do not raise",
               "configured RunTest factories: the Gallina input has no configuration; 300 (quick) / 8000 (thorough) cases run "
               "on a test case with a factory of its own (run_tests_with / runTest= / "
               "@run_test_with x subclasses, functions, partial, callable objects, factories of the API before last_resort) and are judged as the same program under "
               "the default RunTest (C05_factory_irrelevant)",
               "the detail name 'reason' is not used by tests, mismatches or fixtures",
               "contents are binary (application/octet-stream), so no decoding is involved at the result",
               "fixtures raise single exceptions; new-style _setUp and fixture cleanups raise Exception-derived ones"]
EXPLANATION = ("Theorems in coq/Props/C05.v over all programs; correspondence: TestCase.run of a generated "
               "testtools.TestCase subclass against a recording extended result, compared with coq/Model/Run.v on the "
               "details passed with the outcome (base name + payload read at that moment, traceback count) and on the "
               "addOnException handler calls and their position relative to the outcome. A share of the programs "
               "raises ONE exception object repeatedly (same_exc: body and tearDown, twice in a MultipleExceptions); "
               "the model counts every raise.")

FEATS = frozenset(["details", "fixture", "onexc", "cells", "badfx", "peek"])


def peek_programs():
    """a detail backed by a live source is read BEFORE the outcome - by the body, by tearDown, by a cleanup, by an
    addOnException handler (odd number) - and the source changes afterwards: what arrives are the bytes of
    reporting time.  Sources: addDetail, a mismatch's detail (expectThat / assertThat), the same source under two names."""
    E = R.E
    X, LOG, TB = [4, []], [3, []], [0, []]
    attach = [[["detail", X, 1]], [["expect", [[X, 1]]]], [["detail", X, 1], ["detail", LOG, 1]],
              [["detail", TB, 1], ["detail", X, 2]]]
    ends = [[], [["raise", E("Fail")]], [["raise", E("Kbd")]], [["assert", [[LOG, 1]]]]]
    for at in attach:
        for end in ends:
            peek = ["peek", at[0][1] if at[0][0] == "detail" else X]
            # the body looks at its own detail half way through
            yield R.mkprog(body=[["setcell", 1, 3]] + at + [peek, ["setcell", 1, 5], ["setcell", 2, 4]] + end)
            # tearDown / a cleanup changes the source after the body peeked
            yield R.mkprog(setup=[["cleanup", 10, [["setcell", 1, 2]]]], body=at + [peek] + end,
                           teardown=[["setcell", 1, 4]])
            # a cleanup peeks, an older cleanup writes afterwards
            yield R.mkprog(setup=[["cleanup", 10, [["setcell", 1, 5]]], ["cleanup", 11, [peek]]],
                           body=[["setcell", 1, 1]] + at + end)
            # an addOnException handler reads every detail when the test fails; tearDown and a cleanup write on
            yield R.mkprog(setup=[["onexc", 1], ["cleanup", 10, [["setcell", 1, 2], ["setcell", 2, 3]]]],
                           body=[["setcell", 1, 3]] + at + (end or [["raise", E("ValueError")]]),
                           teardown=[["setcell", 1, 5], ["raise", E("ValueError")]])



def drive(case):
    o = R.run_program(case["prog"], "FExtended", runner=case.get("runner"))[0]
    tr = o["trace"]
    outs = [k for k, e in enumerate(tr) if e[0] == "out"]
    first = outs[0] if outs else len(tr)
    details = (tr[first][2] or []) if outs else []
    return {"outs": len(outs),
            "details": [[n[0], c] for n, c in details],
            "calls": [[e[1], e[2]] for e in tr[:first] if e[0] == "H"],
            "late": len([e for e in tr[first:] if e[0] == "H"])}


def term(case, o):
    i = q.record([("i_prog", R.t_prog(case["prog"]))])
    ob = q.record([("o_outs", q.nat(o["outs"])),
                   ("o_details", q.lst([q.pair(q.nat(b), R.t_ocontent(c)) for b, c in o["details"]])),
                   ("o_calls", q.lst([q.pair(q.nat(h), R.t_cls(c)) for h, c in o["calls"]])),
                   ("o_late", q.nat(o["late"]))])
    return q.pair(i, ob)


def perturb(case, o):
    o = dict(o)
    o["details"] = list(o["details"]) + [[3, ["bytes", 5]]]
    return o


def _detail_acts(p):
    return [a for a in R.all_acts(p) if a[0] in ("detail", "expect", "assert", "fixture")]


def same_object(p, rng):
    """make the raise statements of p raise one exception object: one description copied to most of them, and the
    program flagged same_exc (runprog: one object per description)"""
    raises = [a for a in R.all_acts(p) if a[0] == "raise"]
    plain = [a for a in raises if a[1][0] != "M"]
    if len(raises) >= 2 and plain:
        e = rng.choice(plain)[1]
        for a in raises:
            if a[1] is not e and rng.random() < 0.7:
                a[1] = e if a[1][0] != "M" or rng.random() < 0.5 else ["M", [e, e]]
    p["same_exc"] = True


def nontrivial(case):
    p = case["prog"]
    return bool(_detail_acts(p)) and bool(R.raising_acts(p)) or len(_detail_acts(p)) >= 2


def generate(rng, tier):
    E, M = R.E, R.M
    TB, TB1, FE, X, X1, FXD = [0, []], [0, [1]], [1, []], [4, []], [4, [1]], [5, []]
    fx = lambda **kw: dict({"tok": 20, "old": False, "details": [], "cleanups": [], "fail": None}, **kw)  # noqa: E731
    fixed = [
        # the witness of F14 and relatives
        R.mkprog(setup=[["cleanup", 10, [["detail", TB, 1]]]], body=[["raise", E("Fail", 1)]]),
        R.mkprog(body=[["raise", E("ValueError")]], teardown=[["detail", TB, 3]]),
        R.mkprog(body=[["expect", [[X, 1]]], ["detail", [1, []], 2]]),
        R.mkprog(body=[["detail", X, 1], ["expect", [[X, 2]]], ["detail", X1, 3]]),
        # no collision: user name first
        R.mkprog(body=[["detail", TB, 1], ["detail", TB1, 2], ["raise", M(E("Fail"), E("ValueError"))]],
                 teardown=[["raise", E("ValueError")]]),
        R.mkprog(body=[["detail", X, 1], ["detail", X, 2], ["setcell", 2, 5], ["setcell", 1, 4]]),
        R.mkprog(body=[["detail", X, 1], ["fixture", fx(details=[[X, 2], [X, 3], [X1, 1]])], ["setcell", 3, 1],
                       ["expect", [[X, 1], [X, 1]]]], teardown=[["setcell", 3, 2]]),
        R.mkprog(body=[["fixture", fx(details=[[FXD, 1]], fail=E("ValueError"), cleanups=[[21, E("Fail")]])]]),
        R.mkprog(body=[["fixture", fx(old=True, details=[[FXD, 1]], fail=E("Kbd"))]]),
        R.mkprog(body=[["onexc", 0], ["raise", M(E("Skip", 1), E("Fail"), M())]], teardown=[["onexc", 1], ["raise", E("Skip", 2)]]),
        R.mkprog(body=[["xfailcall", 1, E("Fail")]]),
        R.mkprog(xfail=True, body=[["raise", E("Fail")]]),
        R.mkprog(xfail=True, body=[["raise", M(E("Fail"), E("ValueError"))]]),
        R.mkprog(body=[["raise", E("Skip", 1)]]),
        R.mkprog(body=[["raise", E("Skip")]]),
        R.mkprog(body=[["raise", E(R.SUBSKIP, 2)]]),
        R.mkprog(skip=["method", 2]),
        R.mkprog(body=[["xfailcall", 1, None]], teardown=[["raise", E("Skip", 2)]]),
        R.mkprog(body=[["expect", []], ["expect", []], ["detail", [1, [1]], 1]]),
    ]
    cases = [{"prog": R.retoken(p)} for p in fixed]
    # force_failure set in setUp / in a cleanup, setUp ending in every behaviour (fix 889980a): the forced failure
    # gets its traceback, the expectation's details and "Failed expectation" arrive
    for p, _ in R.setup_force_programs(details=True):
        cases.append({"prog": p})
    # fixtures with a detail that cannot be evaluated when it is gathered: what was gathered before it arrives
    for p, _ in R.badfx_programs():
        cases.append({"prog": p})
    # @unittest.expectedFailure tests: the traceback of what the wrapper turns into an expected failure
    for p, _ in R.xfail_programs():
        cases.append({"prog": p})
    # details read before the outcome while their source keeps changing
    for p in peek_programs():
        cases.append({"prog": R.retoken(p)})
    n = 5000 if tier == "quick" else 90000
    for k in range(n):
        feats = FEATS if k % 4 else frozenset(["details", "cells"])
        p = R.rand_prog(rng, feats=feats, depth=rng.choice([1, 2, 3]), p_raise=rng.choice([0.3, 0.5, 0.8]))
        if k % 6 == 1:
            same_object(p, rng)
        cases.append({"prog": p})
    # one exception OBJECT raised more than once in a run: body and tearDown, body and a cleanup, twice inside one
    # MultipleExceptions; every raise still gets its traceback and its handler calls
    for e in (E("ValueError", 1), E("Fail", 2), E("Skip", 1)):
        for p in (R.mkprog(body=[["onexc", 0], ["raise", e]], teardown=[["raise", e]]),
                  R.mkprog(setup=[["cleanup", 10, [["raise", e]]]], body=[["raise", e]], teardown=[["onexc", 1], ["raise", e]]),
                  R.mkprog(body=[["onexc", 0], ["raise", M(e, e)]]),
                  R.mkprog(body=[["raise", M(e, E("ValueError", 3), e)]], teardown=[["raise", E("ValueError", 3)]])):
            p = R.retoken(p)
            p["same_exc"] = True
            cases.append({"prog": p})
    # the same programs on cases configured with a RunTest factory of their own (the Gallina input leaves it out)
    cases += R.configured(cases, rng, 300 if tier == "quick" else 8000)
    return cases


def shrink(case):
    return R.shrink_configured(case, ({"prog": p} for p in R.shrink_prog(case["prog"])))


def distribution(cases):
    d = R.prog_distribution([c["prog"] for c in cases])
    d["detail_statements"] = {}
    for c in cases:
        k = min(len(_detail_acts(c["prog"])), 6)
        d["detail_statements"][k] = d["detail_statements"].get(k, 0) + 1
    d["runtest_factory"] = R.runner_distribution(cases)
    return d
