"""C08 - result adapters deliver each call once, at the richest protocol the target has
(testtools/testresult/real.py: ExtendedToOriginalDecorator, MultiTestResult, TestResultDecorator,
Tagger, TestByTestResult, _details_to_str)."""
import datetime
import json
import re
import sys

from .. import coqio as q
from ..tabs import bytest as bytab

PROP = "C08"
CORR = "Corr.C08"
REQUIRES = ["Model.Adapters", "Spec.C08"]
PROOF_FILES = ["Proof/C08.v"]
MANIFEST = {
    "text": "Coq theorems over all adapter stacks (trees of ExtendedToOriginalDecorator / MultiTestResult / "
            "TestResultDecorator / Tagger over targets given by arbitrary capability sets and TestByTestResult) and all "
            "histories of TestResult calls, by induction on the path from the top of the stack to each innermost result: "
            "every startTest/outcome/stopTest arrives exactly once and in order, degraded exactly as the documented table "
            "says (substring lemma for _details_to_str), no failing outcome becomes a passing one, TestByTestResult calls "
            "back once per test with the times, tags, details and status word in force (simulation of the TagContext "
            "chain by a two-level specification). The Gallina model is tied to /repo on every run by differential "
            "execution of model and implementation inside coqc; the oracle for a failing input is the executable "
            "statement spec_okb, proved to imply the readable Spec.",
    "note": "Trusted: Coq kernel + vm_compute; the harness (generators, drivers, Gallina printer, the probing of the "
            "doubles' capability sets and of TestByTestResult's status words); failfast is never set on any result; "
            "text details are str over a small alphabet (code points < 5000). All theorems closed under the global context.",
    "technique": "Coq proof (induction on adapter paths, simulation, substring lemma) + model/implementation "
                 "correspondence in coqc",
    "ref": "6 C08",
}
RULE = ("adapter stacks: every well-formed stack of depth <= 2 over the five target flavours and TestByTestResult "
        "(MultiTestResult with one or two members), random stacks of depth 3; histories of 0-4 bracketed tests "
        "(TestCase / PlaceHolder / ErrorHolder) with all six outcomes given as exc_info/reason or as details (text, "
        "blank and binary attachments, with and without 'reason'/'traceback', empty dict), interleaved tags/time/"
        "progress/stop/done/startTestRun/stopTestRun; non-trivial = at least one test and (depth >= 2 or a target "
        "lacking a method or the details protocol or a Tagger or a TestByTestResult); distinct = distinct JSON")
TRUSTED = ["the doubles of testtools.testresult.doubles and a logging subclass of testtools.TestResult record what "
           "they are called with; their capability sets are probed (hasattr / inspect.signature) and sent to the model",
           "python's str.strip / sorted / str.join are modelled by strip / isort / join of Model/Adapters.v"]
ASSUMPTIONS = ["stacks are well-formed: TestResultDecorator / Tagger (which forward the extended protocol unchanged) "
               "decorate something that speaks it; a bare target on top speaks it",
               "histories are bracketed (startTest, one outcome, stopTest; startTestRun/stopTestRun between tests); "
               "exactly one of err/reason and details is given; a bare skip reason is not empty; detail names are "
               "distinct; a text/* detail decodes in its charset (text_content); a 'reason' detail is text",
               "failfast is left False on every result; time() is always given a datetime"]
EXPLANATION = ("Theorems in coq/Props/C08.v over all stacks and histories; correspondence: the calls of a generated "
               "history are made on a real stack of adapters over logging doubles, the logs of all innermost results, "
               "the on_test callbacks and the raising calls are compared with coq/Model/Adapters.v and judged by "
               "Spec.C08.spec_okb inside coqc.")

NAMES = ["attach", "reason", "traceback", "zlog"]      # numeric order = string order (Model.Adapters.name_text)
FLAVOURS = ["26", "27", "ext", "tw", "tt"]
EXT_FLAVOURS = ["ext", "tt"]
EPOCH = datetime.datetime(2000, 1, 1, tzinfo=datetime.timezone.utc)
ERR_METH = {"error": "addError", "failure": "addFailure", "xfail": "addExpectedFailure"}
OK_METH = {"success": "addSuccess", "uxsuccess": "addUnexpectedSuccess"}
EXN = {"AttributeError": "AttributeError", "ValueError": "ValueError", "TypeError": "TypeError"}


# ---------------------------------------------------------------- real objects
_CLS = {}


def _classes():
    if _CLS:
        return _CLS
    import testtools
    from testtools.testresult import doubles

    class LoggingTestResult(testtools.TestResult):
        """testtools.TestResult that also records what it is called with (stop/done are not recorded,
        as in the doubles)"""

        def __init__(self):
            self._events = []
            super().__init__()

        def startTestRun(self):
            self._events.append(("startTestRun",))
            super().startTestRun()

        def stopTestRun(self):
            self._events.append(("stopTestRun",))
            super().stopTestRun()

        def startTest(self, test):
            self._events.append(("startTest", test))
            super().startTest(test)

        def stopTest(self, test):
            self._events.append(("stopTest", test))
            super().stopTest(test)

        def tags(self, new_tags, gone_tags):
            self._events.append(("tags", new_tags, gone_tags))
            super().tags(new_tags, gone_tags)

        def time(self, a_datetime):
            self._events.append(("time", a_datetime))
            super().time(a_datetime)

        def addError(self, test, err=None, details=None):
            self._events.append(("addError", test, err, details))
            super().addError(test, err, details)

        def addFailure(self, test, err=None, details=None):
            self._events.append(("addFailure", test, err, details))
            super().addFailure(test, err, details)

        def addExpectedFailure(self, test, err=None, details=None):
            self._events.append(("addExpectedFailure", test, err, details))
            super().addExpectedFailure(test, err, details)

        def addSkip(self, test, reason=None, details=None):
            self._events.append(("addSkip", test, reason, details))
            super().addSkip(test, reason, details)

        def addSuccess(self, test, details=None):
            self._events.append(("addSuccess", test, None, details))
            super().addSuccess(test, details)

        def addUnexpectedSuccess(self, test, details=None):
            self._events.append(("addUnexpectedSuccess", test, None, details))
            super().addUnexpectedSuccess(test, details)

    class Case(testtools.TestCase):
        def __init__(self, name):
            super().__init__("test_x")
            self._name = name

        def id(self):
            return self._name

        def test_x(self):
            pass

    _CLS.update({"26": doubles.Python26TestResult, "27": doubles.Python27TestResult,
                 "ext": doubles.ExtendedTestResult, "tw": doubles.TwistedTestResult, "tt": LoggingTestResult,
                 "Case": Case})
    return _CLS


_CAPS = {}


def caps(flavour):
    """capability set of a target flavour, probed on the live class:
    skip xfail uxs details startrun stoprun tags time progress done stop"""
    if flavour not in _CAPS:
        import inspect
        obj = _classes()[flavour]()
        try:
            det = "details" in inspect.signature(obj.addError).parameters
        except (TypeError, ValueError):
            det = False
        _CAPS[flavour] = [hasattr(obj, "addSkip"), hasattr(obj, "addExpectedFailure"),
                          hasattr(obj, "addUnexpectedSuccess"), det, hasattr(obj, "startTestRun"),
                          hasattr(obj, "stopTestRun"), hasattr(obj, "tags"), hasattr(obj, "time"),
                          hasattr(obj, "progress"), hasattr(obj, "done"), hasattr(obj, "stop")]
    return _CAPS[flavour]


def test_kind(tid):
    return ["case", "placeholder", "errorholder"][tid % 3]


class Ctx:
    def __init__(self):
        self.tests = {}
        self.origs = {}
        self.orig_ids = {}

    def test(self, tid):
        if tid not in self.tests:
            import testtools
            kind = test_kind(tid)
            if kind == "case":
                t = _classes()["Case"]("t%d" % tid)
            elif kind == "placeholder":
                t = testtools.PlaceHolder("t%d" % tid)
            else:
                t = testtools.ErrorHolder("t%d" % tid, self.orig(900 + tid))
            self.tests[tid] = t
        return self.tests[tid]

    def orig(self, k):
        if k not in self.origs:
            try:
                raise RuntimeError("orig-%d" % k)
            except RuntimeError:
                self.origs[k] = sys.exc_info()
            self.orig_ids[id(self.origs[k][1])] = k
        return self.origs[k]


def mk_details(d):
    from testtools.content import Content, text_content
    from testtools.content_type import ContentType
    out = {}
    for n, kind, payload in d:
        if kind == "t":
            out[NAMES[n]] = text_content(payload)
        else:
            out[NAMES[n]] = Content(ContentType("application", "octet-stream"), lambda b=bytes(payload): [b])
    return out


def build(tree, leaves):
    """the real stack; leaves collects (kind, object-or-callback-list) left to right"""
    from testtools.testresult import real
    k = tree[0]
    if k == "T":
        r = _classes()[tree[1]]()
        leaves.append(("T", r))
        return r
    if k == "B":
        log = []
        leaves.append(("B", log))
        return real.TestByTestResult(lambda **kw: log.append(kw))
    if k == "E":
        return real.ExtendedToOriginalDecorator(build(tree[1], leaves))
    if k == "M":
        return real.MultiTestResult(*[build(c, leaves) for c in tree[1]])
    if k == "D":
        return real.TestResultDecorator(build(tree[1], leaves))
    if k == "G":
        return real.Tagger(build(tree[3], leaves), set("g%d" % x for x in tree[1]), set("g%d" % x for x in tree[2]))
    raise ValueError(tree)


def invoke(top, c, ctx):
    k = c[0]
    if k == "run":
        top.startTestRun()
    elif k == "endrun":
        top.stopTestRun()
    elif k == "tags":
        top.tags(set("g%d" % x for x in c[1]), set("g%d" % x for x in c[2]))
    elif k == "time":
        top.time(EPOCH + datetime.timedelta(seconds=c[1]))
    elif k == "prog":
        top.progress(c[1], c[2])
    elif k == "start":
        top.startTest(ctx.test(c[1]))
    elif k == "stop":
        top.stopTest(ctx.test(c[1]))
    elif k == "err":
        m = getattr(top, ERR_METH[c[1]])
        if c[3][0] == "e":
            m(ctx.test(c[2]), ctx.orig(c[3][1][1]))
        else:
            m(ctx.test(c[2]), details=mk_details(c[3][1]))
    elif k == "skip":
        if c[2][0] == "r":
            top.addSkip(ctx.test(c[1]), c[2][1])
        else:
            top.addSkip(ctx.test(c[1]), details=mk_details(c[2][1]))
    elif k == "ok":
        m = getattr(top, OK_METH[c[1]])
        if c[3] is None:
            m(ctx.test(c[2]))
        else:
            m(ctx.test(c[2]), details=mk_details(c[3][1]))
    elif k == "halt":
        top.stop()
    elif k == "done":
        top.done()
    else:
        raise ValueError(c)


# ---------------------------------------------------------------- observation
def o_test(t):
    m = re.fullmatch(r"t(\d+)", t.id())
    return int(m.group(1)) if m else 4999


def o_tags(s):
    out = []
    for x in s:
        m = re.fullmatch(r"g(\d+)", x)
        out.append(int(m.group(1)) if m else 4999)
    return sorted(out)


def o_time(dt):
    if dt is None:
        return None
    try:
        n = (dt - EPOCH).total_seconds()
    except TypeError:
        return None
    return int(n) if 0 <= n < 1000 and n == int(n) else None


def o_err(err, ctx):
    from testtools.testresult.real import _StringException
    try:
        val = err[1]
    except Exception:
        return ["x"]
    if type(val) is _StringException:
        return ["s", str(val)]
    if id(val) in ctx.orig_ids and ctx.origs[ctx.orig_ids[id(val)]][1] is val:
        return ["o", ctx.orig_ids[id(val)]]
    if isinstance(val, BaseException) and str(val) == "" and err[0] is type(val):
        return ["f"]
    return ["x"]


def o_details(d, ctx):
    from testtools.content import TracebackContent
    out = []
    for name, content in d.items():
        n = NAMES.index(name) if name in NAMES else 7
        if isinstance(content, TracebackContent):
            m = re.search(r"orig-(\d+)", content.as_text())
            out.append([n, "tb", ["o", int(m.group(1))] if m else ["x"]])
        elif content.content_type.type == "text":
            out.append([n, "t", content.as_text()])
        else:
            out.append([n, "b", list(b"".join(content.iter_bytes()))])
    return out


def o_arg(x, ctx):
    if x is None:
        return None
    if isinstance(x, dict):
        return ["d", o_details(x, ctx)]
    if isinstance(x, str):
        return ["r", x]
    return ["e", o_err(x, ctx)]


def o_event(ev, ctx):
    n = ev[0]
    if n in ("startTestRun", "stopTestRun"):
        return ["run"] if n == "startTestRun" else ["endrun"]
    if n == "tags":
        return ["tags", o_tags(ev[1]), o_tags(ev[2])]
    if n == "time":
        return ["time", o_time(ev[1])]
    if n == "progress":
        return ["prog", ev[1], ev[2]]
    if n in ("startTest", "stopTest"):
        return ["start" if n == "startTest" else "stop", o_test(ev[1])]
    if len(ev) == 4:                       # LoggingTestResult: (name, test, err-or-reason, details)
        x = ev[2] if ev[2] is not None else ev[3]
    else:                                  # doubles: (name, test[, err or reason or details])
        x = ev[2] if len(ev) > 2 else None
    a = o_arg(x, ctx)
    t = o_test(ev[1])
    for kind, meth in ERR_METH.items():
        if n == meth:
            return ["err", kind, t, a if a is not None else ["e", ["x"]]]
    if n == "addSkip":
        return ["skip", t, a if a is not None else ["r", ""]]
    for kind, meth in OK_METH.items():
        if n == meth:
            return ["ok", kind, t, a]
    return ["unknown", n]


def o_callback(kw, ctx):
    d = kw.get("details")
    st = kw.get("status")
    return [o_test(kw["test"]), None if st is None else bytab.word_code(st), o_time(kw.get("start_time")),
            o_time(kw.get("stop_time")), o_tags(kw.get("tags") or ()), None if d is None else o_details(d, ctx)]


def drive(case):
    ctx = Ctx()
    leaves = []
    top = build(case["stack"], leaves)
    raised = []
    for j, c in enumerate(case["hist"]):
        try:
            invoke(top, c, ctx)
        except Exception as e:      # noqa - part of the observation; spec_okb judges it
            raised.append([j, EXN.get(type(e).__name__, "OtherError")])
    out = []
    for kind, x in leaves:
        if kind == "T":
            out.append(["log", [o_event(ev, ctx) for ev in x._events]])
        else:
            out.append(["cbs", [o_callback(kw, ctx) for kw in x]])
    return {"leaves": out, "raised": raised}


# ---------------------------------------------------------------- Gallina
def t_text(s):
    return q.lst([q.nat(ord(ch)) for ch in s])


def t_nats(l):
    return q.lst([q.nat(x) for x in l])


def t_test(tid):
    return "(%s %s)" % ("tc" if test_kind(tid) == "case" else "th", q.nat(tid))


def t_errv(e):
    if e[0] == "o":
        return "(Orig %s)" % q.nat(e[1])
    if e[0] == "s":
        return "(Str %s)" % t_text(e[1])
    return "Fresh" if e[0] == "f" else "Other"


def t_details(d):
    items = []
    for n, kind, payload in d:
        if kind == "t":
            k = "(DText %s)" % t_text(payload)
        elif kind == "b":
            k = "(DBin %s)" % t_nats(payload)
        else:
            k = "(DTb %s)" % t_errv(payload)
        items.append(q.pair(q.nat(n), k))
    return q.lst(items)


def t_call(c):
    k = c[0]
    if k == "run":
        return "StartTestRun"
    if k == "endrun":
        return "StopTestRun"
    if k == "tags":
        return "(Tags %s %s)" % (t_nats(c[1]), t_nats(c[2]))
    if k == "time":
        return "(Time %s)" % q.nat(c[1] if c[1] is not None else 4999)
    if k == "prog":
        return "(Progress %s %s)" % (q.nat(c[1]), q.nat(c[2]))
    if k == "start":
        return "(StartTest %s)" % t_test(c[1])
    if k == "stop":
        return "(StopTest %s)" % t_test(c[1])
    if k == "err":
        a = "(inl %s)" % t_errv(c[3][1]) if c[3][0] == "e" else "(inr %s)" % t_details(c[3][1])
        return "(AddErr %s %s %s)" % ({"error": "KError", "failure": "KFailure", "xfail": "KXFail"}[c[1]], t_test(c[2]), a)
    if k == "skip":
        a = "(inl %s)" % t_text(c[2][1]) if c[2][0] == "r" else "(inr %s)" % t_details(c[2][1])
        return "(AddSkip %s %s)" % (t_test(c[1]), a)
    if k == "ok":
        a = "None" if c[3] is None else "(Some %s)" % t_details(c[3][1])
        return "(AddOk %s %s %s)" % ({"success": "KSuccess", "uxsuccess": "KUxSuccess"}[c[1]], t_test(c[2]), a)
    if k == "halt":
        return "Stop"
    if k == "done":
        return "Done"
    raise ValueError(c)


def t_stack(t):
    k = t[0]
    if k == "T":
        return "(Target (Build_caps %s))" % " ".join(q.boolean(b) for b in caps(t[1]))
    if k == "B":
        return "ByTest"
    if k == "E":
        return "(E2O %s)" % t_stack(t[1])
    if k == "M":
        return "(Multi %s)" % q.lst([t_stack(c) for c in t[1]])
    if k == "D":
        return "(Deco %s)" % t_stack(t[1])
    return "(Tagger %s %s %s)" % (t_nats(t[1]), t_nats(t[2]), t_stack(t[3]))


def t_cb(c):
    return "(Build_cb %s %s %s %s %s %s)" % (
        t_test(c[0]), q.option(c[1], q.nat), q.option(c[2], q.nat), q.option(c[3], q.nat), t_nats(c[4]),
        q.option(c[5], t_details))


def term(case, o):
    i = q.record([("stack", t_stack(case["stack"])), ("hist", q.lst([t_call(c) for c in case["hist"]]))])
    leaves = []
    for kind, l in o["leaves"]:
        if kind == "log":
            leaves.append("(OLog %s)" % q.lst([t_call(c) for c in l]))
        else:
            leaves.append("(OCbs %s)" % q.lst([t_cb(c) for c in l]))
    ob = q.record([("o_leaves", q.lst(leaves)),
                   ("o_raised", q.lst([q.pair(q.nat(j), e) for j, e in o["raised"]]))])
    return q.pair(i, ob)


def perturb(case, o):
    o = json.loads(json.dumps(o))
    o["raised"] = o["raised"] + [[len(case["hist"]) + 1, "ValueError"]]
    return o


# ---------------------------------------------------------------- generation
LEAVES = [["T", f] for f in FLAVOURS] + [["B"]]
EXT_LEAVES = [["T", f] for f in EXT_FLAVOURS] + [["B"]]
ALPHABET = ["a", "b", "c", " ", "\n", "\t", "é", "{", "}", ":"]


def is_ext(t):
    return t[0] != "T" or t[1] in EXT_FLAVOURS


def depth(t):
    k = t[0]
    if k in ("T", "B"):
        return 0
    if k == "M":
        return 1 + max([depth(c) for c in t[1]], default=0)
    return 1 + depth(t[3] if k == "G" else t[1])


def leaves_of(t):
    k = t[0]
    if k in ("T", "B"):
        return [t]
    if k == "M":
        return [x for c in t[1] for x in leaves_of(c)]
    return leaves_of(t[3] if k == "G" else t[1])


def wraps(t, tagger=([1], [2])):
    """every single adapter around t that keeps the stack well-formed"""
    out = [["E", t], ["M", [t]]]
    if is_ext(t):
        out += [["D", t], ["G", list(tagger[0]), list(tagger[1]), t]]
    return out


def small_stacks():
    """every well-formed stack of depth <= 2 (MultiTestResult with one member, or two members of depth <= 1)"""
    d0 = [l for l in LEAVES]
    d1 = []
    for l in d0:
        d1 += wraps(l)
    pairs1 = [["M", [a, b]] for a in d0 for b in d0]
    d2 = []
    for s in d1 + pairs1:
        d2 += wraps(s, ([3], [1]))
    pairs2 = []
    for a in d1:
        for b in d0[:3] + [["B"]]:
            pairs2.append(["M", [a, b]])
    for a in d0[:2] + [["T", "tt"]]:
        for b in d1:
            pairs2.append(["M", [a, b]])
    return [l for l in EXT_LEAVES] + d1 + pairs1 + d2 + pairs2


def rand_stack(rng, d):
    if d == 0:
        return rng.choice(LEAVES)
    k = rng.choice(["E", "E", "M", "M", "D", "G"])
    if k == "M":
        n = rng.choice([1, 2, 2, 3])
        kids = [rand_stack(rng, d - 1 if j == 0 else rng.randint(0, d - 1)) for j in range(n)]
        rng.shuffle(kids)
        return ["M", kids]
    c = rand_stack(rng, d - 1)
    if k == "E":
        return ["E", c]
    if not is_ext(c):          # a bare target that does not speak the extended protocol
        c = rng.choice(EXT_LEAVES)
    if k == "D":
        return ["D", c]
    return ["G", rand_tags(rng), rand_tags(rng), c]


def rand_tags(rng):
    return sorted(set(rng.randint(0, 4) for _ in range(rng.choice([0, 1, 1, 2]))))


def rand_text(rng, blank_ok=True):
    r = rng.random()
    if blank_ok and r < 0.12:
        return "".join(rng.choice([" ", "\n", "\t"]) for _ in range(rng.randint(0, 2)))
    s = "".join(rng.choice(ALPHABET) for _ in range(rng.randint(1, 6)))
    return s


def rand_details(rng):
    if rng.random() < 0.1:
        return []
    names = [n for n in range(len(NAMES)) if rng.random() < 0.5]
    rng.shuffle(names)
    out = []
    for n in names:
        if n != 1 and rng.random() < 0.2:
            out.append([n, "b", [rng.choice([0, 65, 128, 255]) for _ in range(rng.randint(0, 3))]])
        else:
            out.append([n, "t", rand_text(rng)])
    return out


def rand_outcome(rng, tid, kind=None, form=None):
    kind = kind or rng.choice(["error", "failure", "xfail", "skip", "success", "uxsuccess"])
    form = form or rng.choice(["plain", "details"])
    if kind in ERR_METH:
        return ["err", kind, tid, ["e", ["o", rng.randint(0, 9)]] if form == "plain" else ["d", rand_details(rng)]]
    if kind == "skip":
        if form == "plain":
            return ["skip", tid, ["r", rand_text(rng, blank_ok=False)]]
        return ["skip", tid, ["d", rand_details(rng)]]
    return ["ok", kind, tid, None if form == "plain" else ["d", rand_details(rng)]]


def rand_noise(rng, p):
    out = []
    while rng.random() < p:
        k = rng.choice(["tags", "tags", "time", "time", "prog", "halt", "done"])
        if k == "tags":
            out.append(["tags", rand_tags(rng), rand_tags(rng)])
        elif k == "time":
            out.append(["time", rng.randint(0, 20)])
        elif k == "prog":
            out.append(["prog", rng.randint(0, 3), rng.randint(0, 3)])
        else:
            out.append([k])
    return out


def block(rng, tid, outcome, p):
    return ([["start", tid]] + rand_noise(rng, p) + [outcome] + rand_noise(rng, p) + [["stop", tid]])


def rand_hist(rng, ntests, outcomes=None, p=0.3):
    h = []
    if rng.random() < 0.6:
        h.append(["run"])
    h += rand_noise(rng, p)
    tids = [rng.randint(0, 8) for _ in range(ntests)]
    for j, tid in enumerate(tids):
        oc = rand_outcome(rng, tid, *(outcomes[j] if outcomes else (None, None)))
        h += block(rng, tid, oc, p)
        h += rand_noise(rng, p)
        if rng.random() < 0.1:
            h += [["endrun"], ["run"]] if rng.random() < 0.5 else [["run"]]
    if rng.random() < 0.5:
        h.append(["endrun"])
    h += rand_noise(rng, p / 2)
    return h


SYSTEMATIC = [
    [("error", "plain"), ("failure", "details"), ("xfail", "plain"), ("skip", "plain")],
    [("skip", "details"), ("skip", "details"), ("success", "plain"), ("uxsuccess", "plain")],
    [("success", "details"), ("uxsuccess", "details"), ("error", "details"), ("xfail", "details")],
]


def generate(rng, tier):
    cases = []
    fixed = [
        # F9: unexpected success of a PlaceHolder over a result without addUnexpectedSuccess
        {"stack": ["E", ["T", "26"]], "hist": [["start", 1], ["ok", "uxsuccess", 1, ["d", []]], ["stop", 1]]},
        {"stack": ["M", [["T", "26"], ["T", "ext"]]],
         "hist": [["start", 2], ["ok", "uxsuccess", 2, None], ["stop", 2]]},
        # empty details dict towards TestByTestResult (3f53a3e), first member of a MultiTestResult
        {"stack": ["M", [["B"], ["T", "27"]]], "hist": [["start", 0], ["err", "error", 0, ["d", []]], ["stop", 0]]},
        {"stack": ["G", [1], [], ["B"]],
         "hist": [["run"], ["tags", [2], []], ["time", 3], ["start", 0], ["tags", [4], [2]],
                  ["err", "xfail", 0, ["d", []]], ["time", 5], ["stop", 0], ["start", 1], ["skip", 1, ["r", "a b"]],
                  ["stop", 1], ["endrun"]]},
        # details with a special traceback, a blank and a binary attachment towards a 2.6-style result
        {"stack": ["E", ["T", "26"]],
         "hist": [["start", 3], ["err", "failure", 3, ["d", [[3, "t", "a\nb"], [2, "t", " c: "], [0, "t", " \n"],
                                                           [1, "b", [255, 0]]]]], ["stop", 3]]},
        {"stack": ["D", ["T", "tt"]], "hist": [["prog", 1, 2], ["done"], ["halt"]]},
    ]
    cases += fixed
    stacks = small_stacks()
    per_stack = 4 if tier == "quick" else 45
    for s in stacks:
        for outs in SYSTEMATIC:
            cases.append({"stack": s, "hist": rand_hist(rng, 4, outs, p=0.25)})
        for _ in range(per_stack):
            cases.append({"stack": s, "hist": rand_hist(rng, rng.choice([0, 1, 1, 2, 2, 3, 4]))})
    n_rand = 1200 if tier == "quick" else 22000
    for _ in range(n_rand):
        s = rand_stack(rng, 3)
        if not is_ext(s):
            s = ["E", s]
        cases.append({"stack": s, "hist": rand_hist(rng, rng.choice([0, 1, 2, 2, 3, 4]))})
    return cases


def n_tests(case):
    return sum(1 for c in case["hist"] if c[0] == "start")


def nontrivial(case):
    s = case["stack"]
    ls = leaves_of(s)
    special = any(l[0] == "B" or l[1] not in EXT_FLAVOURS for l in ls) or '"G"' in json.dumps(s)
    return n_tests(case) >= 1 and (depth(s) >= 2 or special)


def shrink(case):
    s, h = case["stack"], case["hist"]
    # drop a whole test block, then single noise calls
    starts = [j for j, c in enumerate(h) if c[0] == "start"]
    for j in starts:
        e = next(k for k in range(j, len(h)) if h[k][0] == "stop")
        yield {"stack": s, "hist": h[:j] + h[e + 1:]}
    for j, c in enumerate(h):
        if c[0] in ("tags", "time", "prog", "halt", "done", "run", "endrun"):
            yield {"stack": s, "hist": h[:j] + h[j + 1:]}

    def sub(t):
        k = t[0]
        if k in ("T", "B"):
            return
        if k == "M":
            for c in t[1]:
                yield c
            if len(t[1]) > 1:               # MultiTestResult() without results cannot be constructed
                for j in range(len(t[1])):
                    yield ["M", t[1][:j] + t[1][j + 1:]]
            for j, c in enumerate(t[1]):
                for x in sub(c):
                    yield ["M", t[1][:j] + [x] + t[1][j + 1:]]
            return
        c = t[3] if k == "G" else t[1]
        yield c
        for x in sub(c):
            if k == "E":
                yield ["E", x]
            elif is_ext(x):
                yield ["D", x] if k == "D" else ["G", t[1], t[2], x]
        if k == "G" and (t[1] or t[2]):
            yield ["G", [], [], c]
    for x in sub(s):
        if is_ext(x):
            yield {"stack": x, "hist": h}
        else:
            yield {"stack": ["E", x], "hist": h}
    # simplify details
    for j, c in enumerate(h):
        a = c[3] if c[0] in ("err", "ok") else c[2] if c[0] == "skip" else None
        if a and a[0] == "d" and a[1]:
            for m in range(len(a[1])):
                c2 = json.loads(json.dumps(c))
                a2 = c2[3] if c[0] in ("err", "ok") else c2[2]
                del a2[1][m]
                yield {"stack": s, "hist": h[:j] + [c2] + h[j + 1:]}


def distribution(cases):
    d = {"depth": {}, "tests": {}, "leaf_flavours": {}, "outcomes": {}, "adapters": {}, "details_form": 0,
         "empty_details": 0, "binary_details": 0}
    for c in cases:
        dp = depth(c["stack"])
        d["depth"][dp] = d["depth"].get(dp, 0) + 1
        nt = n_tests(c)
        d["tests"][nt] = d["tests"].get(nt, 0) + 1
        for l in leaves_of(c["stack"]):
            k = l[1] if l[0] == "T" else "bytest"
            d["leaf_flavours"][k] = d["leaf_flavours"].get(k, 0) + 1
        s = json.dumps(c["stack"])
        for k in "EMDG":
            d["adapters"][k] = d["adapters"].get(k, 0) + s.count('"%s"' % k)
        for x in c["hist"]:
            if x[0] in ("err", "ok", "skip"):
                kind = "skip" if x[0] == "skip" else x[1]
                d["outcomes"][kind] = d["outcomes"].get(kind, 0) + 1
                a = x[2] if x[0] == "skip" else x[3]
                if a and a[0] == "d":
                    d["details_form"] += 1
                    d["empty_details"] += not a[1]
                    d["binary_details"] += any(e[1] == "b" for e in a[1])
    return d
