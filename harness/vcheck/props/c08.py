"""C08 - result adapters deliver each call once, at the richest protocol the target has
(testtools/testresult/real.py: ExtendedToOriginalDecorator, MultiTestResult, TestResultDecorator,
Tagger, TestByTestResult, _details_to_str)."""
import datetime
import json
import re
import sys

from .. import coqio as q
from ..tabs import bytest as bytab

PROP = "C08"
CORR = "Corr.C08"
REQUIRES = ["Model.Adapters", "Spec.C08", "Model.AdaptersLit"]
PROOF_FILES = ["Proof/C08.v"]
MANIFEST = {
    "text": "Coq theorems over all adapter stacks (trees of ExtendedToOriginalDecorator / MultiTestResult / "
            "TestResultDecorator / Tagger over targets given by arbitrary capability sets and TestByTestResult) and all "
            "histories of TestResult calls, by induction on the path from the top of the stack to each innermost result: "
            "every startTest/outcome/stopTest arrives exactly once and in order, degraded exactly as the documented table "
            "says (substring lemma for _details_to_str), no failing outcome becomes a passing one, TestByTestResult calls "
            "back once per test with the times, tags, details and status word in force (simulation of the TagContext "
            "chain by a two-level specification). The Gallina model is tied to /repo on every run by differential "
            "execution of model and implementation inside coqc; the oracle for a failing input is the executable "
            "statement spec_okb, proved to imply the readable Spec. An on_test that raises is part of the input (per "
            "TestByTestResult the tests it raises for): the exception comes out of that stopTest and the following "
            "tests are still reported once each with their own times, tags and details (wf excludes a faulty on_test "
            "in front of another result of a MultiTestResult: outside the property's quantifier).",
    "note": "Trusted: Coq kernel + vm_compute; the harness (generators, drivers, Gallina printer, the probing of the "
            "doubles' capability sets and of TestByTestResult's status words); failfast is never set on any result; "
            "text details are str over a small alphabet (code points < 5000). All theorems closed under the global context.",
    "technique": "Coq proof (induction on adapter paths, simulation, substring lemma) + model/implementation "
                 "correspondence in coqc",
    "ref": "6 C08",
}
RULE = ("adapter stacks: every well-formed stack of depth <= 2 over the five target flavours and TestByTestResult "
        "(MultiTestResult with one or two members), random stacks of depth 3; histories of 0-6 bracketed tests "
        "(TestCase / PlaceHolder / ErrorHolder) with all six outcomes given as exc_info/reason or as details (text, "
        "blank and binary attachments, empty dict; names drawn from 'traceback', 'reason' and names that extend or "
        "resemble them: traceback-1, traceback-1-2, traceback-2, tracebackx, trace, Traceback, reason-1, reaso, plus "
        "attach/zlog), interleaved tags/time/progress/stop/done/startTestRun/stopTestRun; a bounded-exhaustive block: "
        "nine name sets around the special names in EVERY insertion order x six outcomes over stacks ending in every "
        "target flavour; real testtools TestCases (body errors/fails/skips/passes, 0-2 raising cleanups, own details "
        "incl. one named 'traceback') run with TestCase.run against the stack, the history being what they report; "
        "on_test callbacks that RAISE (after taking their arguments) for a set of test ids: at the last innermost "
        "result of about half of all stacks that end in a TestByTestResult, plus a block of 11 stacks x histories of "
        "2-4 tests with test-local tags() and Taggers, plus real TestCases over them (never where a result is "
        "dispatched to after the faulty one: outside wf); "
        "non-trivial = at least one test and (depth >= 2 or a target lacking a method or the details protocol or a "
        "Tagger or a TestByTestResult); distinct = distinct JSON")
TRUSTED = ["the doubles of testtools.testresult.doubles and a logging subclass of testtools.TestResult record what "
           "they are called with; their capability sets are probed (hasattr / inspect.signature) and sent to the model",
           "python's str.strip / sorted / str.join / str comparison are modelled by strip / isort / join / name_leb "
           "of Model/Adapters.v",
           "real-TestCase cases: the history is read off the TestCase (getDetails() after the run; the outcome it "
           "reports follows from the program: a raising cleanup gives addError, else the body decides)"]
ASSUMPTIONS = ["stacks are well-formed: TestResultDecorator / Tagger (which forward the extended protocol unchanged) "
               "decorate something that speaks it; a bare target on top speaks it",
               "histories are bracketed (startTest, one outcome, stopTest; startTestRun/stopTestRun between tests); "
               "exactly one of err/reason and details is given; a bare skip reason is not empty; detail names are "
               "distinct; a text/* detail decodes in its charset (text_content); a 'reason' detail is text",
               "failfast is left False on every result; time() is always given a datetime",
               "the only user-supplied callable in the anchored code is TestByTestResult's on_test; it may raise (an "
               "Exception subclass) after it has taken its arguments, the caller goes on with the next call; the "
               "targets' own methods do not raise",
               "EXCLUDED (Spec.C08.fault_reaches_sibling, part of wf): an on_test that raises for a test while another "
               "innermost result is still to be dispatched to after its TestByTestResult (a later member of an "
               "enclosing MultiTestResult). MultiTestResult._dispatch stops at the member that raised, the later "
               "results never get that stopTest; a wrapped result that raises in front of others is a fault "
               "dimension C08's quantifier does not name (observed, see notes/fixes/observed-multi-dispatch-after-"
               "raise.patch; the model keeps the behaviour, Props example C08_example_fault_reaches_sibling). An "
               "on_test that raises where no result comes after it is inside"]
EXPLANATION = ("Theorems in coq/Props/C08.v over all stacks and histories; correspondence: the calls of a generated "
               "history are made on a real stack of adapters over logging doubles, the logs of all innermost results, "
               "the on_test callbacks and the raising calls are compared with coq/Model/Adapters.v and judged by "
               "Spec.C08.spec_okb inside coqc. A share of the histories is driven by a caller that keeps one details "
               "dict object and refills it for every outcome (what sinks logged by reference is read before the next "
               "call).")

# detail names are sent to the model as they are (strings); the pool is built around the two names the code
# treats specially ('traceback' in _details_to_exc_info, 'reason' in addSkip): names extending them (what
# TestCase._report_traceback / addDetailUniqueName produce), a proper prefix, a case variant, unrelated ones
NAMES = ["attach", "reason", "reason-1", "reaso", "trace", "traceback", "traceback-1", "traceback-1-2", "traceback-2",
         "tracebackx", "Traceback", "zlog"]
CORE_NAMES = ["traceback", "traceback-1", "reason"]
OLD_NAMES = ["attach", "reason", "traceback", "zlog"]   # replays written before names were strings


def dname(n):
    if isinstance(n, int):
        return OLD_NAMES[min(n, 3)]
    return n
FLAVOURS = ["26", "27", "ext", "tw", "tt"]
EXT_FLAVOURS = ["ext", "tt"]
EPOCH = datetime.datetime(2000, 1, 1, tzinfo=datetime.timezone.utc)
ERR_METH = {"error": "addError", "failure": "addFailure", "xfail": "addExpectedFailure"}
OK_METH = {"success": "addSuccess", "uxsuccess": "addUnexpectedSuccess"}
EXN = {"AttributeError": "AttributeError", "ValueError": "ValueError", "TypeError": "TypeError",
       "SinkError": "CallbackError"}


class SinkError(Exception):
    """what a faulty on_test raises"""


# ---------------------------------------------------------------- real objects
_CLS = {}


def _classes():
    if _CLS:
        return _CLS
    import testtools
    from testtools.testresult import doubles

    class LoggingTestResult(testtools.TestResult):
        """testtools.TestResult that also records what it is called with (stop/done are not recorded,
        as in the doubles)"""

        def __init__(self):
            self._events = []
            super().__init__()

        def startTestRun(self):
            self._events.append(("startTestRun",))
            super().startTestRun()

        def stopTestRun(self):
            self._events.append(("stopTestRun",))
            super().stopTestRun()

        def startTest(self, test):
            self._events.append(("startTest", test))
            super().startTest(test)

        def stopTest(self, test):
            self._events.append(("stopTest", test))
            super().stopTest(test)

        def tags(self, new_tags, gone_tags):
            self._events.append(("tags", new_tags, gone_tags))
            super().tags(new_tags, gone_tags)

        def time(self, a_datetime):
            self._events.append(("time", a_datetime))
            super().time(a_datetime)

        def addError(self, test, err=None, details=None):
            self._events.append(("addError", test, err, details))
            super().addError(test, err, details)

        def addFailure(self, test, err=None, details=None):
            self._events.append(("addFailure", test, err, details))
            super().addFailure(test, err, details)

        def addExpectedFailure(self, test, err=None, details=None):
            self._events.append(("addExpectedFailure", test, err, details))
            super().addExpectedFailure(test, err, details)

        def addSkip(self, test, reason=None, details=None):
            self._events.append(("addSkip", test, reason, details))
            super().addSkip(test, reason, details)

        def addSuccess(self, test, details=None):
            self._events.append(("addSuccess", test, None, details))
            super().addSuccess(test, details)

        def addUnexpectedSuccess(self, test, details=None):
            self._events.append(("addUnexpectedSuccess", test, None, details))
            super().addUnexpectedSuccess(test, details)

    class Case(testtools.TestCase):
        def __init__(self, name):
            super().__init__("test_x")
            self._name = name

        def id(self):
            return self._name

        def test_x(self):
            pass

    class RealCase(testtools.TestCase):
        """a TestCase that really runs: own details, a body that errors / fails / skips / passes, cleanups that
        raise (each adds a traceback-N detail)"""

        def __init__(self, name, prog):
            super().__init__("test_x")
            self._name = name
            self._prog = prog

        def id(self):
            return self._name

        def _boom(self, j):
            raise RuntimeError("cleanup %d exploded" % j)

        def test_x(self):
            for j in range(self._prog["cleanups"]):
                self.addCleanup(self._boom, j)
            for n, content in mk_details(self._prog["details"]).items():
                self.addDetail(n, content)
            body = self._prog["body"]
            if body == "error":
                raise RuntimeError("body exploded")
            if body == "fail":
                self.fail("body failed")
            if body == "skip":
                self.skipTest("body skipped")

    _CLS["RealCase"] = RealCase
    _CLS.update({"26": doubles.Python26TestResult, "27": doubles.Python27TestResult,
                 "ext": doubles.ExtendedTestResult, "tw": doubles.TwistedTestResult, "tt": LoggingTestResult,
                 "Case": Case})
    return _CLS


_CAPS = {}


def caps(flavour):
    """capability set of a target flavour, probed on the live class:
    skip xfail uxs details startrun stoprun tags time progress done stop"""
    if flavour not in _CAPS:
        import inspect
        obj = _classes()[flavour]()
        try:
            det = "details" in inspect.signature(obj.addError).parameters
        except (TypeError, ValueError):
            det = False
        _CAPS[flavour] = [hasattr(obj, "addSkip"), hasattr(obj, "addExpectedFailure"),
                          hasattr(obj, "addUnexpectedSuccess"), det, hasattr(obj, "startTestRun"),
                          hasattr(obj, "stopTestRun"), hasattr(obj, "tags"), hasattr(obj, "time"),
                          hasattr(obj, "progress"), hasattr(obj, "done"), hasattr(obj, "stop")]
    return _CAPS[flavour]


def test_kind(tid):
    return ["case", "placeholder", "errorholder"][tid % 3]


class Ctx:
    def __init__(self):
        self.tests = {}
        self.origs = {}
        self.orig_ids = {}
        self.reuse = None      # a dict: the caller keeps ONE details dict and refills it for every outcome

    def details(self, d):
        new = mk_details(d)
        if self.reuse is None:
            return new
        self.reuse.clear()
        self.reuse.update(new)
        return self.reuse

    def test(self, tid):
        if tid not in self.tests:
            import testtools
            kind = test_kind(tid)
            if kind == "case":
                t = _classes()["Case"]("t%d" % tid)
            elif kind == "placeholder":
                t = testtools.PlaceHolder("t%d" % tid)
            else:
                t = testtools.ErrorHolder("t%d" % tid, self.orig(900 + tid))
            self.tests[tid] = t
        return self.tests[tid]

    def orig(self, k):
        if k not in self.origs:
            try:
                raise RuntimeError("orig-%d" % k)
            except RuntimeError:
                self.origs[k] = sys.exc_info()
            self.orig_ids[id(self.origs[k][1])] = k
        return self.origs[k]


def mk_details(d):
    from testtools.content import Content, text_content
    from testtools.content_type import ContentType
    out = {}
    for n, kind, payload in d:
        if kind == "t":
            out[dname(n)] = text_content(payload)
        else:
            out[dname(n)] = Content(ContentType("application", "octet-stream"), lambda b=bytes(payload): [b])
    return out


def build(tree, leaves):
    """the real stack; leaves collects (kind, object-or-callback-list) left to right"""
    from testtools.testresult import real
    k = tree[0]
    if k == "T":
        r = _classes()[tree[1]]()
        leaves.append(("T", r))
        return r
    if k == "B":
        log = []
        leaves.append(("B", log))
        bad = set(tree[1]) if len(tree) > 1 else ()

        def on_test(**kw):              # takes its arguments, then fails for the tests in bad
            log.append(kw)
            if o_test(kw["test"]) in bad:
                raise SinkError("sink unavailable")
        return real.TestByTestResult(on_test)
    if k == "E":
        return real.ExtendedToOriginalDecorator(build(tree[1], leaves))
    if k == "M":
        return real.MultiTestResult(*[build(c, leaves) for c in tree[1]])
    if k == "D":
        return real.TestResultDecorator(build(tree[1], leaves))
    if k == "G":
        return real.Tagger(build(tree[3], leaves), set("g%d" % x for x in tree[1]), set("g%d" % x for x in tree[2]))
    raise ValueError(tree)


def invoke(top, c, ctx):
    k = c[0]
    if k == "run":
        top.startTestRun()
    elif k == "endrun":
        top.stopTestRun()
    elif k == "tags":
        top.tags(set("g%d" % x for x in c[1]), set("g%d" % x for x in c[2]))
    elif k == "time":
        top.time(EPOCH + datetime.timedelta(seconds=c[1]))
    elif k == "prog":
        top.progress(c[1], c[2])
    elif k == "start":
        top.startTest(ctx.test(c[1]))
    elif k == "stop":
        top.stopTest(ctx.test(c[1]))
    elif k == "err":
        m = getattr(top, ERR_METH[c[1]])
        if c[3][0] == "e":
            m(ctx.test(c[2]), ctx.orig(c[3][1][1]))
        else:
            m(ctx.test(c[2]), details=ctx.details(c[3][1]))
    elif k == "skip":
        if c[2][0] == "r":
            top.addSkip(ctx.test(c[1]), c[2][1])
        else:
            top.addSkip(ctx.test(c[1]), details=ctx.details(c[2][1]))
    elif k == "ok":
        m = getattr(top, OK_METH[c[1]])
        if c[3] is None:
            m(ctx.test(c[2]))
        else:
            m(ctx.test(c[2]), details=ctx.details(c[3][1]))
    elif k == "halt":
        top.stop()
    elif k == "done":
        top.done()
    else:
        raise ValueError(c)


# ---------------------------------------------------------------- observation
def o_test(t):
    m = re.fullmatch(r"t(\d+)", t.id())
    return int(m.group(1)) if m else 4999


def o_tags(s):
    out = []
    for x in s:
        m = re.fullmatch(r"g(\d+)", x)
        out.append(int(m.group(1)) if m else 4999)
    return sorted(out)


def o_time(dt):
    if dt is None:
        return None
    try:
        n = (dt - EPOCH).total_seconds()
    except TypeError:
        return None
    return int(n) if 0 <= n < 1000 and n == int(n) else None


def o_err(err, ctx):
    from testtools.testresult.real import _StringException
    try:
        val = err[1]
    except Exception:
        return ["x"]
    if type(val) is _StringException:
        return ["s", str(val)]
    if id(val) in ctx.orig_ids and ctx.origs[ctx.orig_ids[id(val)]][1] is val:
        return ["o", ctx.orig_ids[id(val)]]
    if isinstance(val, BaseException) and str(val) == "" and err[0] is type(val):
        return ["f"]
    return ["x"]


def o_details(d, ctx):
    from testtools.content import TracebackContent
    out = []
    for name, content in d.items():
        n = name if isinstance(name, str) else "?%r" % (name,)
        m = re.search(r"orig-(\d+)", content.as_text()) if isinstance(content, TracebackContent) else None
        if m:          # the traceback TestByTestResult made from an exc_info of the history
            out.append([n, "tb", ["o", int(m.group(1))]])
        elif content.content_type.type == "text":
            out.append([n, "t", content.as_text()])
        else:
            out.append([n, "b", list(b"".join(content.iter_bytes()))])
    return out


def o_arg(x, ctx):
    if x is None:
        return None
    if isinstance(x, dict):
        return ["d", o_details(x, ctx)]
    if isinstance(x, str):
        return ["r", x]
    return ["e", o_err(x, ctx)]


def o_event(ev, ctx):
    n = ev[0]
    if n in ("startTestRun", "stopTestRun"):
        return ["run"] if n == "startTestRun" else ["endrun"]
    if n == "tags":
        return ["tags", o_tags(ev[1]), o_tags(ev[2])]
    if n == "time":
        return ["time", o_time(ev[1])]
    if n == "progress":
        return ["prog", ev[1], ev[2]]
    if n in ("startTest", "stopTest"):
        return ["start" if n == "startTest" else "stop", o_test(ev[1])]
    if len(ev) == 4:                       # LoggingTestResult: (name, test, err-or-reason, details)
        x = ev[2] if ev[2] is not None else ev[3]
    else:                                  # doubles: (name, test[, err or reason or details])
        x = ev[2] if len(ev) > 2 else None
    a = o_arg(x, ctx)
    t = o_test(ev[1])
    for kind, meth in ERR_METH.items():
        if n == meth:
            return ["err", kind, t, a if a is not None else ["e", ["x"]]]
    if n == "addSkip":
        return ["skip", t, a if a is not None else ["r", ""]]
    for kind, meth in OK_METH.items():
        if n == meth:
            return ["ok", kind, t, a]
    return ["unknown", n]


def o_callback(kw, ctx):
    d = kw.get("details")
    st = kw.get("status")
    return [o_test(kw["test"]), None if st is None else bytab.word_code(st), o_time(kw.get("start_time")),
            o_time(kw.get("stop_time")), o_tags(kw.get("tags") or ()), None if d is None else o_details(d, ctx)]


def real_outcome(prog):
    """what a TestCase with this program reports: the last exception caught decides, and cleanups run last"""
    if prog["cleanups"] > 0:
        return "error"
    return {"error": "error", "fail": "failure", "skip": "skip", "pass": "success"}[prog["body"]]


def run_real(top, c, ctx):
    """TestCase.run(result) reports through its own ExtendedToOriginalDecorator(result): the stack of the case is
    ["E", inner] and the test is run against the inner object.  Returns the calls the TestCase made."""
    from testtools.testresult import real
    assert type(top) is real.ExtendedToOriginalDecorator
    tid, prog = c[1], c[2]
    assert test_kind(tid) == "case"
    t = _classes()["RealCase"]("t%d" % tid, prog)
    ctx.tests[tid] = t
    exc = None
    try:
        t.run(top.decorated)
    except Exception as e:      # noqa - what a faulty on_test raised comes out of stopTest, hence out of run()
        exc = EXN.get(type(e).__name__, "OtherError")
    det = ["d", o_details(t.getDetails(), ctx)]
    kind = real_outcome(prog)
    if kind in ERR_METH:
        oc = ["err", kind, tid, det]
    elif kind == "skip":
        oc = ["skip", tid, det]
    else:
        oc = ["ok", kind, tid, det]
    return [["start", tid], oc, ["stop", tid]], exc


def has_real(case):
    return any(c[0] == "real" for c in case["hist"])


def expand(case, o):
    """the history as a list of calls: a real TestCase run stands for the calls it made"""
    if not has_real(case):
        return case["hist"], list(range(len(case["hist"])))
    h, pos, g = [], [], iter(o["given"])
    for c in case["hist"]:
        pos.append(len(h))
        h += next(g) if c[0] == "real" else [c]
    return h, pos


def _snapshot(leaves, seen):
    """the caller refills its details dict for the next outcome: what a sink logged BY REFERENCE is read now (a
    shallow copy takes the dict's place in the log)"""
    for n, (kind, x) in enumerate(leaves):
        if kind == "T":
            evs = x._events
            for i in range(seen.get(n, 0), len(evs)):
                if isinstance(evs[i], tuple):
                    evs[i] = tuple(dict(a) if isinstance(a, dict) else a for a in evs[i])
            seen[n] = len(evs)
        else:
            for kw in x[seen.get(n, 0):]:
                if isinstance(kw.get("details"), dict):
                    kw["details"] = dict(kw["details"])
            seen[n] = len(x)


def drive(case):
    ctx = Ctx()
    if case.get("reuse"):
        ctx.reuse = {}
    seen = {}
    leaves = []
    top = build(case["stack"], leaves)
    raised = []
    given = []
    for j, c in enumerate(case["hist"]):
        if ctx.reuse is not None:
            _snapshot(leaves, seen)
        if c[0] == "real":
            calls, exc = run_real(top, c, ctx)
            given.append(calls)
            if exc:
                raised.append([j, exc])
            continue
        try:
            invoke(top, c, ctx)
        except Exception as e:      # noqa - part of the observation; spec_okb judges it
            raised.append([j, EXN.get(type(e).__name__, "OtherError")])
    out = []
    for kind, x in leaves:
        if kind == "T":
            out.append(["log", [o_event(ev, ctx) for ev in x._events]])
        else:
            out.append(["cbs", [o_callback(kw, ctx) for kw in x]])
    if given:
        return {"leaves": out, "raised": raised, "given": given}
    return {"leaves": out, "raised": raised}


# ---------------------------------------------------------------- Gallina
def t_text(s):
    """a str as a Gallina list of code points: runs of printable ASCII (and newlines) as string literals decoded
    by Model.AdaptersLit.T, every other character as a numeral"""
    parts, run, odd = [], [], []

    def flush():
        if run:
            parts.append('(T "%s"%%string)' % "".join(run))
            del run[:]
        if odd:
            parts.append(q.lst([q.nat(n) for n in odd]))
            del odd[:]

    for ch in s:
        o = ord(ch)
        if (32 <= o < 127 and ch != '"') or ch == "\n":
            if odd:
                flush()
            run.append(ch)
        else:
            if run:
                flush()
            odd.append(o)
    flush()
    if not parts:
        return "[]"
    return parts[0] if len(parts) == 1 else "(%s)" % " ++ ".join(parts)


def t_nats(l):
    return q.lst([q.nat(x) for x in l])


def t_test(tid):
    return "(%s %s)" % ("tc" if test_kind(tid) == "case" else "th", q.nat(tid))


def t_errv(e):
    if e[0] == "o":
        return "(Orig %s)" % q.nat(e[1])
    if e[0] == "s":
        return "(Str %s)" % t_text(e[1])
    return "Fresh" if e[0] == "f" else "Other"


def t_details(d):
    items = []
    for n, kind, payload in d:
        if kind == "t":
            k = "(DText %s)" % t_text(payload)
        elif kind == "b":
            k = "(DBin %s)" % t_nats(payload)
        else:
            k = "(DTb %s)" % t_errv(payload)
        items.append(q.pair(t_text(dname(n)), k))
    return q.lst(items)


def t_call(c):
    k = c[0]
    if k == "run":
        return "StartTestRun"
    if k == "endrun":
        return "StopTestRun"
    if k == "tags":
        return "(Tags %s %s)" % (t_nats(c[1]), t_nats(c[2]))
    if k == "time":
        return "(Time %s)" % q.nat(c[1] if c[1] is not None else 4999)
    if k == "prog":
        return "(Progress %s %s)" % (q.nat(c[1]), q.nat(c[2]))
    if k == "start":
        return "(StartTest %s)" % t_test(c[1])
    if k == "stop":
        return "(StopTest %s)" % t_test(c[1])
    if k == "err":
        a = "(inl %s)" % t_errv(c[3][1]) if c[3][0] == "e" else "(inr %s)" % t_details(c[3][1])
        return "(AddErr %s %s %s)" % ({"error": "KError", "failure": "KFailure", "xfail": "KXFail"}[c[1]], t_test(c[2]), a)
    if k == "skip":
        a = "(inl %s)" % t_text(c[2][1]) if c[2][0] == "r" else "(inr %s)" % t_details(c[2][1])
        return "(AddSkip %s %s)" % (t_test(c[1]), a)
    if k == "ok":
        a = "None" if c[3] is None else "(Some %s)" % t_details(c[3][1])
        return "(AddOk %s %s %s)" % ({"success": "KSuccess", "uxsuccess": "KUxSuccess"}[c[1]], t_test(c[2]), a)
    if k == "halt":
        return "Stop"
    if k == "done":
        return "Done"
    raise ValueError(c)


def t_stack(t):
    k = t[0]
    if k == "T":
        return "(Target (Build_caps %s))" % " ".join(q.boolean(b) for b in caps(t[1]))
    if k == "B":
        return "(ByTest %s)" % t_nats(t[1] if len(t) > 1 else [])
    if k == "E":
        return "(E2O %s)" % t_stack(t[1])
    if k == "M":
        return "(Multi %s)" % q.lst([t_stack(c) for c in t[1]])
    if k == "D":
        return "(Deco %s)" % t_stack(t[1])
    return "(Tagger %s %s %s)" % (t_nats(t[1]), t_nats(t[2]), t_stack(t[3]))


def t_cb(c):
    return "(Build_cb %s %s %s %s %s %s)" % (
        t_test(c[0]), q.option(c[1], q.nat), q.option(c[2], q.nat), q.option(c[3], q.nat), t_nats(c[4]),
        q.option(c[5], t_details))


def term(case, o):
    hist, pos = expand(case, o)

    def rpos(j):        # a real TestCase run raises from its stopTest
        if j >= len(pos):
            return j
        return pos[j] + 2 if case["hist"][j][0] == "real" else pos[j]
    i = q.record([("stack", t_stack(case["stack"])), ("hist", q.lst([t_call(c) for c in hist]))])
    leaves = []
    for kind, l in o["leaves"]:
        if kind == "log":
            leaves.append("(OLog %s)" % q.lst([t_call(c) for c in l]))
        else:
            leaves.append("(OCbs %s)" % q.lst([t_cb(c) for c in l]))
    ob = q.record([("o_leaves", q.lst(leaves)),
                   ("o_raised", q.lst([q.pair(q.nat(rpos(j)), e) for j, e in o["raised"]]))])
    return q.pair(i, ob)


def perturb(case, o):
    o = json.loads(json.dumps(o))
    o["raised"] = o["raised"] + [[len(case["hist"]) + 1, "ValueError"]]
    return o


# ---------------------------------------------------------------- generation
LEAVES = [["T", f] for f in FLAVOURS] + [["B"]]
EXT_LEAVES = [["T", f] for f in EXT_FLAVOURS] + [["B"]]
ALPHABET = ["a", "b", "c", " ", "\n", "\t", "é", "{", "}", ":"]


def is_ext(t):
    return t[0] != "T" or t[1] in EXT_FLAVOURS


def depth(t):
    k = t[0]
    if k in ("T", "B"):
        return 0
    if k == "M":
        return 1 + max([depth(c) for c in t[1]], default=0)
    return 1 + depth(t[3] if k == "G" else t[1])


def leaves_of(t):
    k = t[0]
    if k in ("T", "B"):
        return [t]
    if k == "M":
        return [x for c in t[1] for x in leaves_of(c)]
    return leaves_of(t[3] if k == "G" else t[1])


def wraps(t, tagger=([1], [2])):
    """every single adapter around t that keeps the stack well-formed"""
    out = [["E", t], ["M", [t]]]
    if is_ext(t):
        out += [["D", t], ["G", list(tagger[0]), list(tagger[1]), t]]
    return out


def small_stacks():
    """every well-formed stack of depth <= 2 (MultiTestResult with one member, or two members of depth <= 1)"""
    d0 = [l for l in LEAVES]
    d1 = []
    for l in d0:
        d1 += wraps(l)
    pairs1 = [["M", [a, b]] for a in d0 for b in d0]
    d2 = []
    for s in d1 + pairs1:
        d2 += wraps(s, ([3], [1]))
    pairs2 = []
    for a in d1:
        for b in d0[:3] + [["B"]]:
            pairs2.append(["M", [a, b]])
    for a in d0[:2] + [["T", "tt"]]:
        for b in d1:
            pairs2.append(["M", [a, b]])
    return [l for l in EXT_LEAVES] + d1 + pairs1 + d2 + pairs2


def rand_stack(rng, d):
    if d == 0:
        return rng.choice(LEAVES)
    k = rng.choice(["E", "E", "M", "M", "D", "G"])
    if k == "M":
        n = rng.choice([1, 2, 2, 3])
        kids = [rand_stack(rng, d - 1 if j == 0 else rng.randint(0, d - 1)) for j in range(n)]
        rng.shuffle(kids)
        return ["M", kids]
    c = rand_stack(rng, d - 1)
    if k == "E":
        return ["E", c]
    if not is_ext(c):          # a bare target that does not speak the extended protocol
        c = rng.choice(EXT_LEAVES)
    if k == "D":
        return ["D", c]
    return ["G", rand_tags(rng), rand_tags(rng), c]


def rand_tags(rng):
    return sorted(set(rng.randint(0, 4) for _ in range(rng.choice([0, 1, 1, 2]))))


def rand_text(rng, blank_ok=True):
    r = rng.random()
    if blank_ok and r < 0.12:
        return "".join(rng.choice([" ", "\n", "\t"]) for _ in range(rng.randint(0, 2)))
    s = "".join(rng.choice(ALPHABET) for _ in range(rng.randint(1, 8)))
    return s


def rand_details(rng):
    if rng.random() < 0.1:
        return []
    names = [n for n in NAMES if rng.random() < (0.4 if n in CORE_NAMES else 0.13)]
    rng.shuffle(names)          # insertion order of the dict
    out = []
    for n in names:
        if n != "reason" and rng.random() < 0.2:
            out.append([n, "b", [rng.choice([0, 65, 128, 255]) for _ in range(rng.randint(0, 3))]])
        else:
            out.append([n, "t", rand_text(rng)])
    return out


def rand_outcome(rng, tid, kind=None, form=None):
    kind = kind or rng.choice(["error", "failure", "xfail", "skip", "success", "uxsuccess"])
    form = form or rng.choice(["plain", "details"])
    if kind in ERR_METH:
        return ["err", kind, tid, ["e", ["o", rng.randint(0, 9)]] if form == "plain" else ["d", rand_details(rng)]]
    if kind == "skip":
        if form == "plain":
            return ["skip", tid, ["r", rand_text(rng, blank_ok=False)]]
        return ["skip", tid, ["d", rand_details(rng)]]
    return ["ok", kind, tid, None if form == "plain" else ["d", rand_details(rng)]]


def rand_noise(rng, p):
    out = []
    while rng.random() < p:
        k = rng.choice(["tags", "tags", "time", "time", "prog", "halt", "done"])
        if k == "tags":
            out.append(["tags", rand_tags(rng), rand_tags(rng)])
        elif k == "time":
            out.append(["time", rng.randint(0, 20)])
        elif k == "prog":
            out.append(["prog", rng.randint(0, 3), rng.randint(0, 3)])
        else:
            out.append([k])
    return out


def block(rng, tid, outcome, p):
    return ([["start", tid]] + rand_noise(rng, p) + [outcome] + rand_noise(rng, p) + [["stop", tid]])


def rand_hist(rng, ntests, outcomes=None, p=0.3):
    h = []
    if rng.random() < 0.6:
        h.append(["run"])
    h += rand_noise(rng, p)
    tids = [rng.randint(0, 8) for _ in range(ntests)]
    for j, tid in enumerate(tids):
        oc = rand_outcome(rng, tid, *(outcomes[j] if outcomes else (None, None)))
        h += block(rng, tid, oc, p)
        h += rand_noise(rng, p)
        if rng.random() < 0.1:
            h += [["endrun"], ["run"]] if rng.random() < 0.5 else [["run"]]
    if rng.random() < 0.5:
        h.append(["endrun"])
    h += rand_noise(rng, p / 2)
    return h


SYSTEMATIC = [
    [("error", "plain"), ("failure", "details"), ("xfail", "plain"), ("skip", "plain")],
    [("skip", "details"), ("skip", "details"), ("success", "plain"), ("uxsuccess", "plain")],
    [("success", "details"), ("uxsuccess", "details"), ("error", "details"), ("xfail", "details")],
]


# ---- names around the special ones, in every insertion order, for every outcome and target flavour
NAME_SETS = [
    ["traceback", "traceback-1"],                       # body failed and a cleanup raised
    ["traceback", "traceback-1", "traceback-1-2"],
    ["traceback", "tracebackx"],
    ["traceback", "trace"],
    ["traceback-1", "zlog"],                            # no special attachment at all
    ["reason", "reason-1"],
    ["reason-1", "reaso"],                              # no 'reason': addSkip falls back to _details_to_str
    ["reason", "traceback", "traceback-1"],
    ["traceback", "traceback-2", "reason-1"],
]
WORDS = ["ALPHA", "BRAVO", "CHARLIE", "DELTA", "ECHO", "FOXTROT"]
OUTCOME_KINDS = ["error", "failure", "xfail", "skip", "success", "uxsuccess"]


def name_orders():
    import itertools
    out = []
    for ns in NAME_SETS:
        out += [list(p) for p in itertools.permutations(ns)]
    return out


def worded_details(rng, names):
    """distinct words as texts (none contains another), some multi-line, some padded with blanks"""
    ws = rng.sample(WORDS, len(names))
    out = []
    for n, w in zip(names, ws):
        t = rng.choice([w, w, w + "\n" + w.lower(), " " + w + "\n", w + " " + w.lower()])
        out.append([n, "t", t])
    return out


def names_hist(rng, names, kinds=OUTCOME_KINDS):
    h = [["run"]] if rng.random() < 0.5 else []
    for kind in kinds:
        tid = rng.randint(0, 8)
        oc = rand_outcome(rng, tid, kind, "details")
        if oc[0] == "skip":
            oc[2] = ["d", worded_details(rng, names)]
        else:
            oc[3] = ["d", worded_details(rng, names)]
        h += block(rng, tid, oc, 0.1)
    return h


def names_stacks():
    """stacks whose innermost results cover every flavour, each behind every kind of adapter"""
    out = [["E", l] for l in LEAVES]
    out += [["M", [["T", "26"], ["T", "27"]]], ["M", [["T", "tw"], ["T", "ext"]]], ["M", [["T", "tt"], ["B"]]],
            ["G", [1], [2], ["M", [["T", "27"], ["T", "tw"]]]], ["D", ["E", ["T", "tw"]]],
            ["E", ["D", ["E", ["T", "26"]]]], ["M", [["G", [3], [], ["E", ["T", "27"]]], ["T", "26"]]],
            ["G", [], [1], ["D", ["M", [["T", "26"], ["T", "tw"], ["T", "ext"]]]]]]
    return out


# ---- real TestCases
REAL_DETAILS = [[], [["note", "t", "state before failing: 42"]], [["traceback", "t", "USER TRACEBACK"]],
                [["traceback-1", "t", "USER TB ONE"], ["reason", "t", "user reason"]]]
REAL_INNER = [["T", "26"], ["T", "27"], ["T", "tw"], ["T", "ext"], ["T", "tt"], ["B"],
              ["M", [["T", "26"], ["T", "27"]]], ["M", [["T", "tw"], ["B"]]], ["G", [1], [], ["M", [["T", "27"]]]],
              ["D", ["E", ["T", "tw"]]]]


def real_progs():
    return [{"body": b, "cleanups": c, "details": d} for b in ["error", "fail", "skip", "pass"] for c in [0, 1, 2]
            for d in REAL_DETAILS]


def real_cases(rng, tier):
    progs = real_progs()
    out = []
    # the scenario of a test whose body fails and whose cleanup raises, everywhere
    both = {"body": "error", "cleanups": 1, "details": REAL_DETAILS[1]}
    for inner in REAL_INNER:
        out.append({"stack": ["E", inner], "hist": [["real", 0, both]]})
    per = 3 if tier == "quick" else 24
    for inner in REAL_INNER:
        for _ in range(per):
            h = [["run"]] if rng.random() < 0.5 else []
            for _k in range(rng.choice([1, 2, 2])):
                h += rand_noise(rng, 0.2)
                h.append(["real", 3 * rng.randint(0, 2), rng.choice(progs)])
            h += rand_noise(rng, 0.2)
            out.append({"stack": ["E", inner], "hist": h})
    return out


# ---- on_test callbacks that raise
def with_faults(rng, case, p=0.6):
    """the same case with on_test made to raise for some of its tests, at the last innermost result: nothing is
    dispatched to after it (Spec.C08.fault_reaches_sibling stays false, the input stays well-formed)"""
    tids = sorted({c[1] for c in case["hist"] if c[0] in ("start", "real")})
    s = json.loads(json.dumps(case["stack"]))
    ls = leaves_of(s)
    cand = [l for l in ls[-1:] if l[0] == "B"]
    if not tids or not cand:
        return case
    for l in cand:
        if rng.random() < p:
            l[1:] = [[t for t in tids if rng.random() < 0.5] or [rng.choice(tids)]]
    return {"stack": s, "hist": case["hist"]}


def has_faults(case):
    return any(l[0] == "B" and len(l) > 1 and l[1] for l in leaves_of(case["stack"]))


def fault_reaches_sibling(case):
    """Spec.C08.fault_reaches_sibling: outside wf, never generated"""
    ls = leaves_of(case["stack"])
    stops = {c[1] for c in case["hist"] if c[0] in ("stop", "real")}
    return any(l[0] == "B" and len(l) > 1 and stops & set(l[1]) for l in ls[:-1])


FAULT_STACKS = [["B"], ["E", ["B"]], ["D", ["B"]], ["G", [1], [2], ["B"]], ["M", [["B"]]], ["M", [["T", "27"], ["B"]]],
                ["M", [["T", "ext"], ["G", [3], [], ["B"]]]], ["E", ["G", [1], [], ["E", ["B"]]]],
                ["G", [2], [], ["M", [["T", "26"], ["B"]]]], ["M", [["B"], ["D", ["B"]]]],
                ["M", [["M", [["T", "tw"], ["T", "tt"]]], ["G", [0], [4], ["B"]]]]]
def fault_cases(rng, tier):
    """tests with test-local tag changes (tags() inside the test, Taggers above) whose report fails, followed by
    further tests"""
    out = []
    per = 12 if tier == "quick" else 120
    for st in FAULT_STACKS:
        for _ in range(per):
            h = rand_hist(rng, rng.choice([2, 3, 3, 4]), p=0.5)
            out.append(with_faults(rng, {"stack": st, "hist": h}, p=1.0))
    for inner in [["B"], ["G", [1], [], ["B"]], ["M", [["T", "27"], ["B"]]]]:
        for _ in range(4 if tier == "quick" else 30):
            h = []
            for _k in range(rng.choice([2, 3])):
                h += rand_noise(rng, 0.3)
                h.append(["real", 3 * rng.randint(0, 2), rng.choice(real_progs())])
            out.append(with_faults(rng, {"stack": ["E", inner], "hist": h}, p=1.0))
    return out


def generate(rng, tier):
    cases = []
    fixed = [
        # F9: unexpected success of a PlaceHolder over a result without addUnexpectedSuccess
        {"stack": ["E", ["T", "26"]], "hist": [["start", 1], ["ok", "uxsuccess", 1, ["d", []]], ["stop", 1]]},
        {"stack": ["M", [["T", "26"], ["T", "ext"]]],
         "hist": [["start", 2], ["ok", "uxsuccess", 2, None], ["stop", 2]]},
        # empty details dict towards TestByTestResult (3f53a3e), first member of a MultiTestResult
        {"stack": ["M", [["B"], ["T", "27"]]], "hist": [["start", 0], ["err", "error", 0, ["d", []]], ["stop", 0]]},
        {"stack": ["G", [1], [], ["B"]],
         "hist": [["run"], ["tags", [2], []], ["time", 3], ["start", 0], ["tags", [4], [2]],
                  ["err", "xfail", 0, ["d", []]], ["time", 5], ["stop", 0], ["start", 1], ["skip", 1, ["r", "a b"]],
                  ["stop", 1], ["endrun"]]},
        # details with a special traceback, a blank and a binary attachment towards a 2.6-style result
        {"stack": ["E", ["T", "26"]],
         "hist": [["start", 3], ["err", "failure", 3, ["d", [["zlog", "t", "a\nb"], ["traceback", "t", " c: "],
                                                           ["attach", "t", " \n"], ["reason", "b", [255, 0]]]]],
                  ["stop", 3]]},
        # body failed and a cleanup raised: 'traceback' and 'traceback-1', either insertion order, 2.7 / Twisted style
        {"stack": ["E", ["T", "27"]],
         "hist": [["start", 0], ["err", "error", 0, ["d", [["traceback", "t", "ALPHA\nalpha"],
                                                         ["traceback-1", "t", "BRAVO"]]]], ["stop", 0]]},
        {"stack": ["M", [["T", "tw"]]],
         "hist": [["start", 1], ["err", "failure", 1, ["d", [["traceback-1", "t", "BRAVO"],
                                                           ["traceback", "t", "ALPHA"]]]], ["stop", 1]]},
        {"stack": ["E", ["T", "27"]],
         "hist": [["start", 1], ["skip", 1, ["d", [["reason-1", "t", "BRAVO"], ["reason", "t", "ALPHA"]]]],
                  ["stop", 1]]},
        {"stack": ["D", ["T", "tt"]], "hist": [["prog", 1, 2], ["done"], ["halt"]]},
        # on_test raises for a test with test-local tags (its own and a Tagger's); the next test has its own tags
        {"stack": ["G", [1], [], ["B", [0]]],
         "hist": [["tags", [5], []], ["start", 0], ["tags", [2], [5]], ["ok", "success", 0, None], ["stop", 0],
                  ["start", 1], ["ok", "success", 1, None], ["stop", 1]]},
        {"stack": ["M", [["T", "26"], ["B", [3]]]],
         "hist": [["time", 1], ["start", 3], ["tags", [4], []], ["err", "error", 3, ["d", []]], ["time", 2],
                  ["stop", 3], ["start", 4], ["skip", 4, ["r", "why"]], ["stop", 4]]},
    ]
    cases += fixed
    stacks = small_stacks()
    per_stack = 4 if tier == "quick" else 45
    for s in stacks:
        for outs in SYSTEMATIC:
            cases.append({"stack": s, "hist": rand_hist(rng, 4, outs, p=0.25)})
        for _ in range(per_stack):
            cases.append({"stack": s, "hist": rand_hist(rng, rng.choice([0, 1, 1, 2, 2, 3, 4]))})
    orders = name_orders()
    if tier == "quick":
        for s in names_stacks():
            for names in orders:
                cases.append({"stack": s, "hist": names_hist(rng, names)})
    else:
        for s in names_stacks():
            for names in orders:
                for _ in range(3):
                    cases.append({"stack": s, "hist": names_hist(rng, names)})
        for s in stacks:
            for _ in range(8):
                cases.append({"stack": s, "hist": names_hist(rng, rng.choice(orders), rng.sample(OUTCOME_KINDS, 3))})
    cases += real_cases(rng, tier)
    cases = cases[:len(fixed)] + [with_faults(rng, c) if rng.random() < 0.5 else c for c in cases[len(fixed):]]
    cases += fault_cases(rng, tier)
    n_rand = 1200 if tier == "quick" else 22000
    for _ in range(n_rand):
        s = rand_stack(rng, 3)
        if not is_ext(s):
            s = ["E", s]
        c = {"stack": s, "hist": rand_hist(rng, rng.choice([0, 1, 2, 2, 3, 4]))}
        cases.append(with_faults(rng, c) if rng.random() < 0.5 else c)
    # the caller keeps one details dict object and refills it for every outcome (a reporter that builds its details
    # in place): every sink still gets the details of ITS outcome
    extra = []
    for c in cases[len(fixed):]:
        if sum(1 for h in c["hist"] if h[0] in ("err", "skip", "ok") and h[-1] and h[-1][0] == "d") >= 2 \
                and not has_real(c) and rng.random() < 0.35:
            extra.append(dict(c, reuse=True))
    return cases + extra


def n_tests(case):
    return sum(1 for c in case["hist"] if c[0] in ("start", "real"))


def nontrivial(case):
    s = case["stack"]
    ls = leaves_of(s)
    special = any(l[0] == "B" or l[1] not in EXT_FLAVOURS for l in ls) or '"G"' in json.dumps(s)
    return n_tests(case) >= 1 and (depth(s) >= 2 or special)


def shrink(case):
    if case.get("reuse"):
        yield {k: v for k, v in case.items() if k != "reuse"}
        for c in _shrink(case):
            yield dict(c, reuse=True)
    else:
        yield from _shrink(case)


def _shrink(case):
    s, h = case["stack"], case["hist"]
    # drop a whole test block, then single noise calls
    starts = [j for j, c in enumerate(h) if c[0] == "start"]
    for j in starts:
        e = next(k for k in range(j, len(h)) if h[k][0] == "stop")
        yield {"stack": s, "hist": h[:j] + h[e + 1:]}
    for j, c in enumerate(h):
        if c[0] in ("tags", "time", "prog", "halt", "done", "run", "endrun", "real"):
            yield {"stack": s, "hist": h[:j] + h[j + 1:]}
    real = has_real(case)
    ls0 = leaves_of(s)
    for j, l in enumerate(ls0):
        if l[0] == "B" and len(l) > 1 and l[1]:
            for m in range(len(l[1])):
                s2 = json.loads(json.dumps(s))
                l2 = leaves_of(s2)[j]
                l2[1] = l2[1][:m] + l2[1][m + 1:]
                yield {"stack": s2, "hist": h}

    def sub(t):
        k = t[0]
        if k in ("T", "B"):
            return
        if k == "M":
            for c in t[1]:
                yield c
            if len(t[1]) > 1:               # MultiTestResult() without results cannot be constructed
                for j in range(len(t[1])):
                    yield ["M", t[1][:j] + t[1][j + 1:]]
            for j, c in enumerate(t[1]):
                for x in sub(c):
                    yield ["M", t[1][:j] + [x] + t[1][j + 1:]]
            return
        c = t[3] if k == "G" else t[1]
        yield c
        for x in sub(c):
            if k == "E":
                yield ["E", x]
            elif is_ext(x):
                yield ["D", x] if k == "D" else ["G", t[1], t[2], x]
        if k == "G" and (t[1] or t[2]):
            yield ["G", [], [], c]
    if real:                    # TestCase.run supplies the ExtendedToOriginalDecorator on top
        for x in sub(s[1]):
            yield {"stack": ["E", x], "hist": h}
        for j, c in enumerate(h):
            if c[0] == "real":
                pr = c[2]
                for pr2 in ([dict(pr, cleanups=pr["cleanups"] - 1)] if pr["cleanups"] else []) + \
                           [dict(pr, details=pr["details"][:m] + pr["details"][m + 1:]) for m in range(len(pr["details"]))]:
                    yield {"stack": s, "hist": h[:j] + [["real", c[1], pr2]] + h[j + 1:]}
    else:
        for x in sub(s):
            if is_ext(x):
                yield {"stack": x, "hist": h}
            else:
                yield {"stack": ["E", x], "hist": h}
    # simplify details
    for j, c in enumerate(h):
        a = c[3] if c[0] in ("err", "ok") else c[2] if c[0] == "skip" else None
        if a and a[0] == "d" and a[1]:
            for m in range(len(a[1])):
                c2 = json.loads(json.dumps(c))
                a2 = c2[3] if c[0] in ("err", "ok") else c2[2]
                del a2[1][m]
                yield {"stack": s, "hist": h[:j] + [c2] + h[j + 1:]}


def distribution(cases):
    d = {"depth": {}, "tests": {}, "leaf_flavours": {}, "outcomes": {}, "adapters": {}, "details_form": 0,
         "empty_details": 0, "binary_details": 0, "real_testcase_runs": 0, "special_and_extension": 0,
         "reason_and_extension": 0, "detail_names": {}, "faulty_on_test": 0, "fault_reaches_sibling": 0}
    for c in cases:
        d["faulty_on_test"] += has_faults(c)
        d["fault_reaches_sibling"] += fault_reaches_sibling(c)
        dp = depth(c["stack"])
        d["depth"][dp] = d["depth"].get(dp, 0) + 1
        nt = n_tests(c)
        d["tests"][nt] = d["tests"].get(nt, 0) + 1
        for l in leaves_of(c["stack"]):
            k = l[1] if l[0] == "T" else "bytest"
            d["leaf_flavours"][k] = d["leaf_flavours"].get(k, 0) + 1
        s = json.dumps(c["stack"])
        for k in "EMDG":
            d["adapters"][k] = d["adapters"].get(k, 0) + s.count('"%s"' % k)
        for x in c["hist"]:
            if x[0] in ("err", "ok", "skip"):
                kind = "skip" if x[0] == "skip" else x[1]
                d["outcomes"][kind] = d["outcomes"].get(kind, 0) + 1
                a = x[2] if x[0] == "skip" else x[3]
                if a and a[0] == "d":
                    d["details_form"] += 1
                    d["empty_details"] += not a[1]
                    d["binary_details"] += any(e[1] == "b" for e in a[1])
                    ns = [dname(e[0]) for e in a[1]]
                    for n in ns:
                        d["detail_names"][n] = d["detail_names"].get(n, 0) + 1
                    d["special_and_extension"] += "traceback" in ns and any(
                        n != "traceback" and n.startswith("traceback") for n in ns)
                    d["reason_and_extension"] += "reason" in ns and any(
                        n != "reason" and n.startswith("reason") for n in ns)
            elif x[0] == "real":
                d["real_testcase_runs"] += 1
                k = "real:" + real_outcome(x[2])
                d["outcomes"][k] = d["outcomes"].get(k, 0) + 1
    return d
