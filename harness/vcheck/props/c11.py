"""C11 - stream decorators forward each event once, change only their field, never alias
(testtools/testresult/real.py: CopyStreamResult, StreamTagger, TimestampingStreamResult, StreamFailFast,
StreamToQueue)."""
import datetime
import itertools

from .. import coqio as q
from ..tabs.failfast import STATUSES

PROP = "C11"
CORR = "Corr.C11"
REQUIRES = ["Model.Router", "Model.StreamDecor", "Spec.C11"]
PROOF_FILES = ["Proof/C11.v"]
MANIFEST = {
    "text": "Coq theorems over all decorator trees (CopyStreamResult / StreamTagger / TimestampingStreamResult / "
            "StreamFailFast / StreamToQueue, any depth and fan-out) and all call histories (any sequence of "
            "startTestRun / status / stopTestRun: no run, several runs through the same decorators, repeated or "
            "unmatched start/stop, status outside a run; the caller passing the same set object again, changed in "
            "place in between or not), by induction on the tree "
            "over an explicit store of mutable tag sets: the imperative model (references, allocation, sinks that keep "
            "the reference they were given, tags read at the end of the run, the caller's own objects right after the "
            "call) refines the pure per-sink statement - "
            "what a sink logs at a call is a function of the decorators on its path and of that call BY VALUE alone "
            "(C11_value_only: not of which object carries the tags, its past or its future); every startTestRun / "
            "stopTestRun is handed on every time (C11_start_stop_every_time); the "
            "caller's cells are never written; the set of statuses StreamFailFast reacts to is read from the live "
            "code (Gen/Failfast.v) and proved to be {fail, uxsuccess}. The hand-written Gallina model is tied to /repo "
            "on every run by differential execution of model and implementation inside coqc; the oracle for a failing "
            "input is the executable statement spec_okb, proved to imply the readable Spec.",
    "note": "Trusted: Coq kernel + vm_compute; the harness (generators, drivers, Gallina printer); "
            "testtools.testresult.doubles.StreamResult as the recording sink; queue.Queue; a filled-in timestamp is "
            "only classified (timezone-aware UTC, between the start of the harness process and now, 2 s slack), never compared; supplied timestamps lie both in the past and in the far future. All theorems closed under "
            "the global context.",
    "technique": "Coq proof (induction on the decorator tree over an explicit store; refinement to a pure per-path "
                 "specification) + model/implementation correspondence in coqc",
    "ref": "6 C11",
}
RULE = ("decorator trees over recording sinks and StreamFailFast leaves: every tree of depth <= 2 and fan-out <= 2 "
        "(720 shapes, tagger parameters drawn per tree), random trees to depth 3 / fan-out 3 (<= 12 leaves); histories "
        "of 0..3 runs (startTestRun / status calls / stopTestRun) through the same decorator tree, with repeated or "
        "missing startTestRun / stopTestRun and status calls before, between and after runs; the caller's tag "
        "argument None, a frozenset or one of the caller's 1..4 own set objects: the same object as at the previous "
        "call (half of the calls; in two thirds of those the caller has changed it in place in between - one tag "
        "added or discarded, or refilled), another object holding an equal value, or an unrelated one; the keyword "
        "dict one persistent object refilled per call (40%) or a new one; every field drawn from a table that "
        "holds the awkward values too: timestamps missing (left out or None) / timezone-aware UTC / aware in +02:00 "
        "or -05:30 / NAIVE / not a datetime ('F', 0, '', 12.5, ()); route codes None / ordinary / '' / '/' / 'ab/' / "
        "'/1' / ' ' / '0//xyz'; StreamToQueue routing codes now and then '' or ' '; ids, file names, mime types and "
        "one tag the empty string; statuses, file chunks (empty bytes too); non-trivial = at least two leaves or "
        "depth >= 2, and at least one status call; distinct = distinct JSON")
TRUSTED = ["doubles.StreamResult records the arguments it receives by reference; queue.Queue is FIFO",
           "the harness's drain loop for StreamToQueue (status -> status(**dict), startTestRun/stopTestRun handed on)",
           "the driver's identity test (`is`) that decides whether a logged tag object is one of the caller's own sets "
           "(read right after the call) or not (read at the end of the run)"]
ASSUMPTIONS = ["tags, ids, file names, mime types, supplied timestamps and route segments are mapped to small numbers "
               "by fixed injective tables (the empty string, a blank, naive / other-zone datetimes and non-datetime "
               "placeholders have numbers of their own); tags are numbers below 6",
               "a supplied timestamp is compared as kind (aware + UTC offset / naive / not a datetime) + value, so a "
               "change of tzinfo that keeps the instant, or one that keeps the wall-clock reading, both count as changed; "
               "a route code is compared as the list of its '/'-separated segments, '' being one empty segment; route "
               "codes and routing codes are str or None (anything else makes StreamToQueue raise TypeError on HEAD)",
               "the caller passes test_tags as None, a frozenset or a set (the quantifier of the property)",
               "whether a sink is handed the caller's own set object or an equal copy is left open (the statement "
               "speaks of what a target receives): a caller-owned object in a sink's log is compared by its value "
               "right after the call",
               "file_bytes, timestamps, ids and route codes are immutable objects: re-using them cannot be observed"]
EXPLANATION = ("Theorems in coq/Props/C11.v over all decorator trees and histories; correspondence: every call of a "
               "generated history (several runs, repeated stops, the caller's set objects re-used and edited in place "
               "between calls) is made on the root of ONE real decorator tree; per call the entries every leaf newly "
               "logged (tag sets read at the END of the run through the references the sinks kept; one of the caller's "
               "own objects right after the call), whether the call "
               "raised, and the contents of the caller's own set objects right after the call are compared with "
               "coq/Model/StreamDecor.v and judged by Spec.C11.spec_okb.")

# Value tables.  Every field the decorators merely hand on is drawn from a table that contains the awkward values
# too: the empty string (falsy, like None), a blank, and for timestamps naive datetimes, aware ones in several
# zones and things that are no datetimes at all.  The Coq side sees the table index.
SEGS = ["0", "1", "ab", "xyz", "q7", "long-seg", "Z", "", " "]      # route code segments: "" is segment 7
SEG_EMPTY, SEG_BLANK = 7, 8
SEGNUM = {s: k for k, s in enumerate(SEGS)}
ID_STR = ["test0", "test1", "test2", "", " "]
FILE_STR = ["file0", "file1", "file2", ""]
MIME_STR = ["text/m0", "text/m1", ""]
TAG_STR = ["tag0", "tag1", "tag2", "tag3", "tag4", ""]                # tag 5 is the empty string
UTC = datetime.timezone.utc
ZONES = [UTC, datetime.timezone(datetime.timedelta(hours=2)), datetime.timezone(datetime.timedelta(hours=-5, minutes=-30))]
NAIVE_BASE = datetime.datetime(2020, 1, 1)
# supplied timestamps lie in the past (days 0..24) AND in the future (days 25..49 count from FUTURE_BASE): a decorator
# that remembers a supplied time (a "monotonic clock") shows when a later missing timestamp is filled in
FUTURE_BASE = datetime.datetime(2200, 1, 1)
FUTURE_FROM = 25
_T0 = datetime.datetime.now(datetime.timezone.utc)      # no filled-in "current time" can be earlier than this
BASE = NAIVE_BASE.replace(tzinfo=UTC)
TS_OTHER = ["F", 0, "", 12.5, ()]                                     # placeholders that are not datetimes
GARBAGE = 4999
NTAGS = 6
NDAYS = 50


def ts_value(t):
    """the timestamp object for ["a", zone, day] | ["n", day] | ["o", k] (an int day = aware UTC, older replays)"""
    if t is None:
        return None
    if isinstance(t, int):
        t = ["a", 0, t]
    if t[0] == "a":
        return _day(t[2]).replace(tzinfo=ZONES[t[1]])
    if t[0] == "n":
        return _day(t[1])
    return TS_OTHER[t[1]]


def _day(d):
    return NAIVE_BASE + datetime.timedelta(days=d) if d < FUTURE_FROM else FUTURE_BASE + datetime.timedelta(days=d - FUTURE_FROM)


def _day_of(naive):
    """inverse of _day, None for a value outside the tables"""
    for base, lo, hi in ((NAIVE_BASE, 0, FUTURE_FROM), (FUTURE_BASE, FUTURE_FROM, NDAYS)):
        d = naive - base
        if d.seconds == 0 and d.microseconds == 0 and 0 <= d.days < hi - lo:
            return lo + d.days
    return None


# ---------------- numbers <-> python values ----------------
def _idx(table, s):
    if s is None:
        return None
    for k, v in enumerate(table):
        if type(v) is type(s) and v == s:
            return k
    return GARBAGE


def route_num(rc):
    if rc is None:
        return None
    if not isinstance(rc, str):
        return [GARBAGE]
    return [SEGNUM.get(x, GARBAGE) for x in rc.split("/")]


def tagset(ts):
    return set(TAG_STR[t] for t in ts)


def canon_tags(tags):
    if tags is None:
        return None
    try:
        return sorted(_idx(TAG_STR, t) for t in tags)
    except TypeError:
        return [GARBAGE]


def canon_ts(ts):
    """a supplied timestamp is identified in the tables - kind (aware + zone / naive / not a datetime) and value;
    anything else must be a current UTC time: only classified"""
    if ts is None:
        return None
    if not isinstance(ts, datetime.datetime):
        k = _idx(TS_OTHER, ts)
        return GARBAGE if k == GARBAGE else ["o", k]
    try:
        day = _day_of(ts.replace(tzinfo=None))
        exact = day is not None
        if ts.tzinfo is None:
            return ["n", day] if exact else GARBAGE
        off = ts.utcoffset()
        for z, zone in enumerate(ZONES):
            if exact and zone.utcoffset(None) == off:
                return ["a", z, day]
        now = datetime.datetime.now(UTC)
        slack = datetime.timedelta(seconds=2)
        if off == datetime.timedelta(0) and _T0 - slack <= ts <= now + slack:
            return "filled"
    except Exception:
        pass
    return GARBAGE


def canon_event(e):
    st = e.test_status
    return {"id": _idx(ID_STR, e.test_id),
            "st": None if st is None else (STATUSES.index(st) if st in STATUSES else GARBAGE),
            "tags": canon_tags(e.test_tags), "run": bool(e.runnable), "file": _idx(FILE_STR, e.file_name),
            "bytes": None if e.file_bytes is None else list(bytes(e.file_bytes)),
            "eof": bool(e.eof), "mime": _idx(MIME_STR, e.mime_type),
            "route": route_num(e.route_code), "ts": canon_ts(e.timestamp)}


# ---------------- building the real decorator tree ----------------
class Drained:
    """StreamToQueue(queue, code) together with the loop that empties its queue into the next result"""

    def __init__(self, code, target):
        import queue
        from testtools import StreamToQueue
        self.q = queue.Queue()
        self.stq = StreamToQueue(self.q, code)
        self.target = target

    def _drain(self):
        while not self.q.empty():
            d = self.q.get()
            ev = d.pop("event")
            if ev == "status":
                self.target.status(**d)
            else:
                assert d["result"] is self.stq
                getattr(self.target, ev)()

    def status(self, *a, **kw):
        self.stq.status(*a, **kw)
        self._drain()

    def startTestRun(self):
        self.stq.startTestRun()
        self._drain()

    def stopTestRun(self):
        self.stq.stopTestRun()
        self._drain()


def build(t, leaves, variant=0):
    from testtools import CopyStreamResult, StreamTagger, TimestampingStreamResult
    from testtools.testresult.real import StreamFailFast
    from testtools.testresult.doubles import StreamResult as Rec
    k = t[0]
    if k == "K":
        r = Rec()
        leaves.append(("K", r))
        return r
    if k == "F":
        hits = []
        leaves.append(("F", hits))
        return StreamFailFast(lambda: hits.append(1))
    if k == "C":
        return CopyStreamResult([build(c, leaves, variant) for c in t[1]])
    if k == "G":
        kids = [build(c, leaves, variant) for c in t[3]]

        def arg(ts):
            # an empty set of tags is passed as None, as an empty set or not at all, in turn
            if ts:
                return (tagset(ts) if (variant + len(ts)) % 2 else sorted(tagset(ts)))
            return None if variant % 2 else set()
        kw = {}
        if t[1] or variant % 3:
            kw["add"] = arg(t[1])
        if t[2] or variant % 3 != 1:
            kw["discard"] = arg(t[2])
        return StreamTagger(kids, **kw)
    if k == "Z":
        return TimestampingStreamResult(build(t[1], leaves, variant))
    if k == "Q":
        return Drained(None if t[1] is None else SEGS[t[1]], build(t[2], leaves, variant))
    raise ValueError(t)


def call_status(root, ev, caller_sets, kwobj=None):
    tg = ev["tags"]
    if tg is None:
        tags = None
    elif tg[0] == "f":
        tags = frozenset(tagset(tg[1]))
    else:
        tags = caller_sets[tg[1]]           # the caller's own object
    kw = {
        "test_id": None if ev["id"] is None else ID_STR[ev["id"]],
        "test_status": None if ev["st"] is None else STATUSES[ev["st"]],
        "test_tags": tags,
        "runnable": ev["run"],
        "file_name": None if ev["file"] is None else FILE_STR[ev["file"]],
        "file_bytes": None if ev["bytes"] is None else bytes(ev["bytes"]),
        "eof": ev["eof"],
        "mime_type": None if ev["mime"] is None else MIME_STR[ev["mime"]],
        "route_code": None if ev["route"] is None else "/".join(SEGS[s] for s in ev["route"]),
        "timestamp": ts_value(ev["ts"]),
    }
    pos = []
    for name in ["test_id", "test_status"][:ev.get("pos", 0)]:
        pos.append(kw.pop(name))
    if ev.get("omit"):
        defaults = {"runnable": True, "eof": False}
        for k in list(kw):
            if (k in defaults and kw[k] is defaults[k]) or (k not in defaults and kw[k] is None):
                del kw[k]
    if kwobj is None:
        root.status(*pos, **kw)
        return
    # the caller keeps ONE keyword dict for the whole history and refills it for every call
    kwobj.clear()
    kwobj.update(kw)
    root.status(*pos, **kwobj)
    if len(kwobj) != len(kw) or any(kwobj.get(k, kwobj) is not v for k, v in kw.items()):
        raise AssertionError("the caller's keyword dict was changed by status()")


def drive(case):
    leaves = []
    root = build(case["tree"], leaves, case.get("variant", 0))
    caller_sets = [tagset(ts) for ts in case["caller"]]
    kwobj = {} if case.get("kwreuse") else None
    marks = []
    at_call = {}            # (leaf, index in its log) -> the caller's own set as it was right after the call
    for op in case["ops"]:
        raised = False
        try:
            if op[0] == "S":
                root.startTestRun()
            elif op[0] == "T":
                root.stopTestRun()
            elif op[0] == "E":
                call_status(root, op[1], caller_sets, kwobj)
            else:                                   # the caller changes its own set in place
                s = caller_sets[op[1]]
                s.clear()
                s.update(tagset(op[2]))
        except Exception:
            raised = True
        lens = [len(x._events) if kind == "K" else len(x) for kind, x in leaves]
        # a sink that was handed one of the caller's OWN set objects: what that object holds later is the
        # caller's doing, so it is read now; every other logged object is read at the end of the run
        before = marks[-1][1] if marks else [0] * len(leaves)
        for j, ((kind, x), b, a) in enumerate(zip(leaves, before, lens)):
            if kind != "K":
                continue
            for n in range(b, a):
                c = x._events[n]
                if c[0] == "status" and any(c.test_tags is s for s in caller_sets):
                    at_call[(j, n)] = canon_tags(c.test_tags)
        marks.append((raised, lens, [canon_tags(s) for s in caller_sets]))
    # everything the sinks logged is read now, at the end of the run, through the references they kept
    steps = []
    before = [0] * len(leaves)
    for raised, lens, snap in marks:
        new = []
        for j, ((kind, x), b, a) in enumerate(zip(leaves, before, lens)):
            if kind == "F":
                new.append(["X"] * (a - b))
                continue
            ent = []
            for n in range(b, a):
                c = x._events[n]
                if c[0] == "startTestRun":
                    ent.append("S")
                elif c[0] == "stopTestRun":
                    ent.append("T")
                else:
                    e = canon_event(c)
                    if (j, n) in at_call:
                        e["tags"] = at_call[(j, n)]
                    ent.append(e)
            new.append(ent)
        steps.append([raised, new, snap])
        before = lens
    return {"steps": steps}


# ---------------- Gallina ----------------
def t_onat(x):
    return q.option(x, q.nat)


def t_nats(l):
    return q.lst([q.nat(v) for v in l])


def t_olist(x):
    return q.option(x, t_nats)


def t_tree(t):
    k = t[0]
    if k == "K":
        return "Sink"
    if k == "F":
        return "FailFast"
    if k == "C":
        return "(Copy %s)" % q.lst([t_tree(c) for c in t[1]])
    if k == "G":
        return "(Tagger %s %s %s)" % (t_nats(t[1]), t_nats(t[2]), q.lst([t_tree(c) for c in t[3]]))
    if k == "Z":
        return "(Stamp %s)" % t_tree(t[1])
    return "(ToQueue %s %s)" % ("None" if t[1] is None else "(Some %s)" % q.nat(t[1]), t_tree(t[2]))


def t_ts(t):
    if t is None:
        return "TsNone"
    if t == "filled":
        return "TsFilled"
    if isinstance(t, int):                      # GARBAGE from the canoniser, or an aware UTC day of an older replay
        return "(TsGiven (TOther %s))" % q.nat(t) if t == GARBAGE else "(TsGiven (TAware 0 %s))" % q.nat(t)
    if t[0] == "a":
        return "(TsGiven (TAware %s %s))" % (q.nat(t[1]), q.nat(t[2]))
    if t[0] == "n":
        return "(TsGiven (TNaive %s))" % q.nat(t[1])
    return "(TsGiven (TOther %s))" % q.nat(t[1])


def t_in_event(e):
    tg = e["tags"]
    tags = "TNone" if tg is None else ("(TFrozen %s)" % t_nats(tg[1]) if tg[0] == "f" else "(TLoc %s)" % q.nat(tg[1]))
    ts = t_ts(e["ts"])
    return "(Evt %s %s %s %s %s %s %s %s %s %s)" % (
        t_onat(e["id"]), t_onat(e["st"]), tags, q.boolean(e["run"]), t_onat(e["file"]), t_olist(e["bytes"]),
        q.boolean(e["eof"]), t_onat(e["mime"]), t_olist(e["route"]), ts)


def t_out_event(e):
    ts = t_ts(e["ts"])
    return "(Evt %s %s %s %s %s %s %s %s %s %s)" % (
        t_onat(e["id"]), t_onat(e["st"]), t_olist(e["tags"]), q.boolean(e["run"]), t_onat(e["file"]),
        t_olist(e["bytes"]), q.boolean(e["eof"]), t_onat(e["mime"]), t_olist(e["route"]), ts)


def t_op(op):
    if op[0] == "S":
        return "OStart"
    if op[0] == "T":
        return "OStop"
    if op[0] == "E":
        return "(OStatus %s)" % t_in_event(op[1])
    return "(OMutate %s %s)" % (q.nat(op[1]), t_nats(op[2]))


def t_entry(c):
    if c == "S":
        return "EStart"
    if c == "T":
        return "EStop"
    if c == "X":
        return "EFired"
    return "(ESt %s)" % t_out_event(c)


def term(case, o):
    i = q.record([("tree", t_tree(case["tree"])), ("caller", q.lst([t_nats(s) for s in case["caller"]])),
                  ("ops", q.lst([t_op(op) for op in case["ops"]]))])
    steps = q.lst(["(Build_step_obs %s %s %s)" % (
        q.boolean(r), q.lst([q.lst([t_entry(c) for c in ent]) for ent in new]), q.lst([t_nats(s) for s in snap]))
        for r, new, snap in o["steps"]])
    return q.pair(i, q.record([("o_steps", steps)]))


def perturb(case, o):
    return {"steps": list(o["steps"]) + [[False, [], []]]}


# ---------------- generation ----------------
TAG_PARAMS = [([1], []), ([], [2]), ([1, 3], [2]), ([], []), ([2], [2]), ([0], [1, 3]), ([4, 5], [0]), ([2], [])]


def small_trees():
    """every tree of depth <= 2 and fan-out <= 2 (a decorator at the root; tagger parameters filled in later)"""
    leafs = [["K"], ["F"]]

    def level(children):
        out = []
        for n in (1, 2):
            for kids in itertools.product(children, repeat=n):
                out.append(["C", list(kids)])
                out.append(["G", None, None, list(kids)])
        for c in children:
            out.append(["Z", c])
            out.append(["Q", None, c])
        return out
    d1 = level(leafs)
    d2 = level(leafs + d1)
    return d1 + [t for t in d2 if t not in d1]


def fill(t, rng):
    """choose tagger parameters and queue codes"""
    k = t[0]
    if k in "KF":
        return [k]
    if k == "C":
        return ["C", [fill(c, rng) for c in t[1]]]
    if k == "G":
        a, d = rng.choice(TAG_PARAMS)
        return ["G", list(a), list(d), [fill(c, rng) for c in t[3]]]
    if k == "Z":
        return ["Z", fill(t[1], rng)]
    return ["Q", rand_code(rng), fill(t[2], rng)]


def n_leaves(t):
    k = t[0]
    if k in "KF":
        return 1
    if k == "C":
        return sum(n_leaves(c) for c in t[1])
    if k == "G":
        return sum(n_leaves(c) for c in t[3])
    return n_leaves(t[-1])


def depth(t):
    k = t[0]
    if k in "KF":
        return 0
    kids = t[1] if k == "C" else t[3] if k == "G" else [t[-1]]
    return 1 + max([depth(c) for c in kids], default=0)


def rand_tree(rng, d, fan=3):
    if d == 0 or rng.random() < 0.15:
        return ["K"] if rng.random() < 0.8 else ["F"]
    x = rng.random()
    if x < 0.3:
        return ["C", [rand_tree(rng, d - 1, fan) for _ in range(rng.choice([1, 2, 2, 3][:fan + 1]))]]
    if x < 0.65:
        a, dd = rng.choice(TAG_PARAMS)
        if rng.random() < 0.3:
            a = sorted(rng.sample(range(NTAGS), rng.randint(0, 3)))
            dd = sorted(rng.sample(range(NTAGS), rng.randint(0, 2)))
        return ["G", list(a), list(dd), [rand_tree(rng, d - 1, fan) for _ in range(rng.choice([1, 2, 2, 3]))]]
    if x < 0.82:
        return ["Z", rand_tree(rng, d - 1, fan)]
    return ["Q", rand_code(rng), rand_tree(rng, d - 1, fan)]


def rand_event(rng, ncaller):
    x = rng.random()
    if x < 0.2 or ncaller == 0 and x < 0.6:
        tags = None
    elif x < 0.45 or ncaller == 0:
        tags = ["f", sorted(rng.sample(range(NTAGS), rng.choice([0, 1, 2, 3])))]
    else:
        tags = ["l", rng.randrange(ncaller)]
    e = {"id": rng.choice([0, 1, None, 2, 0, 1, 3, 4]), "st": rng.choice([None, 0, 1, 2, 3, 4, 5, 5, 3, 6, 7]),
         "tags": tags, "run": rng.random() < 0.8, "file": None, "bytes": None, "eof": False, "mime": None,
         "route": rand_route(rng), "ts": rand_ts(rng),
         "pos": rng.choice([0, 0, 1, 2]), "omit": rng.random() < 0.4}
    if rng.random() < 0.3:
        e["file"] = rng.randint(0, 3)
        e["bytes"] = [rng.randint(0, 255) for _ in range(rng.randint(0, 3))]
        e["eof"] = rng.random() < 0.5
        e["mime"] = rng.choice([None, 0, 1, 2])
    return e


ROUTES = [[1], [0, 3], [2, 2, 1],                                     # '1', '0/xyz', 'ab/ab/1'
          [SEG_EMPTY], [SEG_EMPTY, SEG_EMPTY], [2, SEG_EMPTY], [SEG_EMPTY, 1], [SEG_BLANK],   # '', '/', 'ab/', '/1', ' '
          [0, SEG_EMPTY, 3]]                                          # '0//xyz'


def rand_route(rng):
    """None, ordinary codes, and the awkward strings: '', '/', 'ab/', '/1', ' ', '0//xyz'"""
    x = rng.random()
    if x < 0.35:
        return None
    if x < 0.65:
        return list(rng.choice(ROUTES[:3]))
    return list(rng.choice(ROUTES[3:]))


def rand_ts(rng):
    """missing; timezone-aware (UTC or another zone); naive; not a datetime at all (falsy ones included)"""
    x = rng.random()
    if x < 0.35:
        return None
    day = rng.choice([0, 7, 7, 31])
    if x < 0.55:
        return ["a", 0, day]
    if x < 0.68:
        return ["a", rng.choice([1, 2]), day]
    if x < 0.85:
        return ["n", day]
    return ["o", rng.randrange(len(TS_OTHER))]


def rand_code(rng):
    """routing code of a StreamToQueue; now and then the empty string or a blank, or None (no routing code:
    ConcurrentStreamTestSuite passes a sub-suite's route code, documented as None or a string)"""
    x = rng.random()
    if x < 0.12:
        return None
    return rng.choice([0, 2, 5, 1]) if x < 0.9 else rng.choice([SEG_EMPTY, SEG_BLANK])


def rand_skeleton(rng):
    """startTestRun / stopTestRun calls of a history with slots ("E") for status calls: 0..3 runs through the
    same decorators, now and then a repeated or missing start / stop, slots inside, between and outside runs"""
    nr = rng.choice([0, 1, 1, 1, 2, 2, 3])
    sk = []
    if nr == 0 or rng.random() < 0.2:
        sk.append("E")                                   # status calls before any run
    for _ in range(nr):
        if rng.random() < 0.9:
            sk.append("S")
            if rng.random() < 0.12:
                sk.append("S")
        sk.append("E")
        if rng.random() < 0.9:
            sk.append("T")
            if rng.random() < 0.2:
                sk.append("T")                           # stopTestRun repeated
        if rng.random() < 0.2:
            sk.append("E")                               # status calls between / after runs
    return sk


def rand_history(rng, n_events):
    ncaller = rng.choice([1, 2, 2, 3, 4])
    caller = [sorted(rng.sample(range(NTAGS), rng.choice([0, 1, 2, 2, 3]))) for _ in range(ncaller)]
    cur = [list(c) for c in caller]

    def mutate(l):
        if rng.random() < 0.75:                          # add or discard one tag, as a runner tracking tags does
            t = rng.randrange(NTAGS)
            v = sorted(set(cur[l]) ^ {t})
        else:
            v = sorted(rng.sample(range(NTAGS), rng.choice([0, 1, 2, 3])))
        cur[l] = v
        return ["M", l, list(v)]

    sk = rand_skeleton(rng)
    slots = [k for k, x in enumerate(sk) if x == "E"]
    fill_ = {k: 0 for k in slots}
    for _ in range(n_events):
        fill_[rng.choice(slots)] += 1
    ops = []
    prev = None                                          # the tag argument of the previous status call
    for k, x in enumerate(sk):
        if x != "E":
            ops.append([x])
            if rng.random() < 0.08:
                ops.append(mutate(rng.randrange(ncaller)))
            continue
        for _ in range(fill_[k]):
            e = rand_event(rng, ncaller)
            if prev is not None and rng.random() < 0.5:
                # the same argument again: for a set the SAME object, changed by the caller in between or not
                e["tags"] = prev
                if prev is not None and prev[0] == "l" and rng.random() < 0.65:
                    ops.append(mutate(prev[1]))
            elif rng.random() < 0.12:
                ops.append(mutate(rng.randrange(ncaller)))
            elif e["tags"] is not None and e["tags"][0] == "l" and rng.random() < 0.3:
                # a different object holding what the previous call's argument held / holds
                src = None if prev is None else (cur[prev[1]] if prev[0] == "l" else prev[1])
                if src is not None and e["tags"] != prev:
                    cur[e["tags"][1]] = list(src)
                    ops.append(["M", e["tags"][1], list(src)])
            ops.append(["E", e])
            prev = e["tags"]
    return caller, ops


def ev(tags=None, **kw):
    e = {"id": 0, "st": 4, "tags": tags, "run": True, "file": None, "bytes": None, "eof": False, "mime": None,
         "route": None, "ts": None, "pos": 0, "omit": False}
    e.update(kw)
    return e


def fixed_cases():
    return [
        # F7: the tagger must work on a copy: caller's set untouched, the sibling sink sees the caller's tags
        {"tree": ["C", [["K"], ["G", [0], [], [["K"]]]]], "caller": [[1, 2]], "ops": [["E", ev(["l", 0])]]},
        {"tree": ["G", [0], [], [["K"]]], "caller": [], "ops": [["E", ev(["f", [1, 2]])]]},
        # a plain set the caller keeps, fanned out to sibling taggers and a plain sink
        {"tree": ["C", [["G", [0], [], [["K"]]], ["G", [3], [1], [["K"]]], ["K"]]], "caller": [[1, 2]],
         "ops": [["E", ev(["l", 0])], ["E", ev(["l", 0], st=5)]]},
        # "no timestamp" both ways: timestamp=None passed explicitly, and the keyword left out; also as replayed
        # from a StreamToQueue event dict (always an explicit None)
        {"tree": ["Z", ["K"]], "caller": [], "ops": [["E", ev(omit=False)], ["E", ev(omit=True)], ["E", ev(ts=2)]]},
        {"tree": ["Q", 0, ["Z", ["K"]]], "caller": [], "ops": [["E", ev(omit=False)], ["E", ev(omit=True)]]},
        # nested taggers and a sink between them
        {"tree": ["G", [1], [2], [["K"], ["G", [3], [1], [["K"]]], ["K"]]], "caller": [[2, 4]],
         "ops": [["S"], ["E", ev(["l", 0])], ["E", ev(["l", 0])], ["E", ev(None)], ["T"]]},
        # tags removed completely -> None; empty set/frozenset supplied
        {"tree": ["G", [], [1], [["K"]]], "caller": [[1], []],
         "ops": [["E", ev(["l", 0])], ["E", ev(["l", 1])], ["E", ev(["f", []])]]},
        # the caller re-uses its set for several calls
        {"tree": ["C", [["K"], ["G", [], [], [["K"]]]]], "caller": [[3]],
         "ops": [["E", ev(["l", 0])], ["E", ev(["l", 0], st=5)], ["E", ev(["l", 0], st=None)]]},
        # timestamps: supplied kept, missing filled, twice
        {"tree": ["Z", ["C", [["K"], ["Z", ["K"]]]]], "caller": [],
         "ops": [["E", ev(ts=3)], ["E", ev()], ["S"], ["T"]]},
        # route codes: nested queues, None and non-None
        {"tree": ["Q", 0, ["C", [["K"], ["Q", 5, ["K"]]]]], "caller": [],
         "ops": [["S"], ["E", ev()], ["E", ev(route=[1, 2])], ["T"]]},
        # fail fast: every status word and None
        {"tree": ["C", [["F"], ["K"], ["G", [1], [], [["F"]]]]], "caller": [],
         "ops": [["S"]] + [["E", ev(st=s)] for s in [None, 0, 1, 2, 3, 4, 5, 6, 7]] + [["T"]]},
        # no targets at all
        {"tree": ["C", []], "caller": [[1]], "ops": [["S"], ["E", ev(["l", 0])], ["T"]]},
        {"tree": ["G", [1], [], []], "caller": [[1]], "ops": [["E", ev(["l", 0])]]},
        {"tree": ["K"], "caller": [[1]], "ops": [["E", ev(["l", 0])]]},
        # supplied timestamps of every kind are handed on untouched: naive, aware in any zone, not a datetime
        # (falsy ones too), straight and through a queue (always an explicit timestamp= in the replayed dict)
        {"tree": ["C", [["Z", ["K"]], ["K"], ["Q", 0, ["Z", ["Z", ["K"]]]]]], "caller": [],
         "ops": [["E", ev(ts=t)] for t in (["n", 7], ["a", 0, 7], ["a", 1, 7], ["a", 2, 0], ["n", 0], None)]
                + [["E", ev(ts=["o", k])] for k in range(len(TS_OTHER))]},
        # route codes that are falsy or end in / : '', '/', 'ab/', '/1', ' ', through one and two queues, and a
        # queue whose own routing code is the empty string
        {"tree": ["C", [["Q", 0, ["K"]], ["Q", 2, ["Q", 5, ["K"]]], ["G", [1], [], [["Q", 1, ["K"]]]], ["K"],
                        ["Q", SEG_EMPTY, ["K"]]]], "caller": [],
         "ops": [["E", ev(route=r)] for r in [None] + ROUTES]},
        # F26: a queue with NO routing code (None) hands every route code on unchanged, None included; alone, under
        # and above queues that do have a code
        {"tree": ["C", [["Q", None, ["K"]], ["Q", 2, ["Q", None, ["K"]]], ["Q", None, ["Q", 5, ["Z", ["K"]]]],
                        ["Q", None, ["Q", None, ["K"]]]]], "caller": [],
         "ops": [["S"]] + [["E", ev(route=r)] for r in [None] + ROUTES] + [["T"]]},
        # a supplied timestamp far in the FUTURE (aware UTC, aware in another zone, naive) followed by missing ones, in
        # the same run and in a later run: the missing ones are filled with the current time, whatever went before
        {"tree": ["C", [["Z", ["K"]], ["Q", 0, ["Z", ["Z", ["K"]]]], ["K"]]], "caller": [],
         "ops": [["S"], ["E", ev(ts=["a", 0, 31])], ["E", ev()], ["E", ev(ts=["a", 1, 40])], ["E", ev(omit=True)],
                 ["E", ev(ts=["n", 49])], ["E", ev()], ["T"], ["S"], ["E", ev()], ["T"]]},
        # empty strings for id, file name, mime type, a tag; empty bytes
        {"tree": ["G", [5], [], [["K"], ["Q", 0, ["Z", ["K"]]], ["G", [], [5], [["K"]]]]], "caller": [[5], [1, 5]],
         "ops": [["E", ev(["l", 0], id=3, file=3, bytes=[], mime=2)], ["E", ev(["l", 1], id=4)],
                 ["E", ev(["f", [5]], id=3, pos=1)], ["E", ev(None, id=3, omit=True)]]},
        # several runs through the same decorators, stopTestRun repeated, status calls outside a run
        {"tree": ["C", [["K"], ["G", [1], [], [["Z", ["Q", 0, ["K"]]], ["K"]]], ["Q", 2, ["K"]]]], "caller": [],
         "ops": [["S"], ["E", ev()], ["T"], ["S"], ["E", ev(st=5)], ["T"], ["S"], ["T"]]},
        {"tree": ["Q", 0, ["K"]], "caller": [], "ops": [["S"], ["E", ev()], ["T"], ["T"]]},
        {"tree": ["Z", ["Q", 1, ["C", [["K"], ["F"]]]]], "caller": [],
         "ops": [["E", ev(st=5)], ["T"], ["S"], ["S"], ["E", ev(st=6)], ["T"], ["E", ev()], ["T"]]},
        # one running "current tags" set: the same object with every call, edited by the caller in between
        {"tree": ["C", [["K"], ["G", [0], [], [["K"], ["G", [], [1], [["Z", ["K"]]]]]], ["G", [2], [0], [["K"]]]]],
         "caller": [[]], "kwreuse": True,
         "ops": [["S"], ["E", ev(["l", 0], st=1)], ["M", 0, [1]], ["E", ev(["l", 0])], ["E", ev(["l", 0], st=1)],
                 ["M", 0, [1, 3]], ["E", ev(["l", 0], st=6)], ["M", 0, [3]], ["E", ev(["l", 0], st=1)], ["M", 0, []],
                 ["E", ev(["l", 0])], ["M", 0, [0]], ["E", ev(["l", 0], st=0)], ["T"]]},
        # equal values in different objects, the same object with different values, None and frozensets between
        {"tree": ["G", [4], [], [["K"], ["G", [], [4], [["K"]]]]], "caller": [[1], [1], [2]],
         "ops": [["E", ev(["l", 0])], ["E", ev(["l", 1])], ["M", 1, [2]], ["E", ev(["l", 1])], ["E", ev(["l", 2])],
                 ["E", ev(None)], ["M", 2, [1]], ["E", ev(["l", 2])], ["E", ev(["f", [1]])], ["M", 0, [5]],
                 ["E", ev(["l", 0])]]},
        # the caller empties / refills its set; a tagger whose result is empty
        {"tree": ["G", [], [1], [["K"]]], "caller": [[1]],
         "ops": [["E", ev(["l", 0])], ["M", 0, []], ["E", ev(["l", 0])], ["M", 0, [1, 2]], ["E", ev(["l", 0])],
                 ["M", 0, [1]], ["E", ev(["l", 0])]]},
    ]


def generate(rng, tier):
    cases = fixed_cases()
    shapes = small_trees()
    per_shape = 2 if tier == "quick" else 12
    for s in shapes:
        for j in range(per_shape):
            caller, ops = rand_history(rng, rng.choice([1, 2, 3, 4]) if tier == "quick" else rng.choice([2, 3, 5, 7]))
            cases.append({"tree": fill(s, rng), "caller": caller, "ops": ops, "variant": rng.randrange(6),
                          "kwreuse": rng.random() < 0.4})
    n_rand = 1300 if tier == "quick" else 40000
    k = 0
    while k < n_rand:
        t = rand_tree(rng, rng.choice([1, 2, 3, 3]))
        if t[0] in "KF" or n_leaves(t) > 12:
            continue
        k += 1
        caller, ops = rand_history(rng, rng.choice([1, 2, 3, 4, 6, 8]))
        cases.append({"tree": t, "caller": caller, "ops": ops, "variant": rng.randrange(6),
                      "kwreuse": rng.random() < 0.4})
    return cases


def nontrivial(case):
    t = case["tree"]
    return (n_leaves(t) >= 2 or depth(t) >= 2) and any(op[0] == "E" for op in case["ops"])


def _subtrees(t):
    """one-step reductions of a tree"""
    k = t[0]
    if k in "KF":
        if k == "F":
            yield ["K"]
        return
    if k in "CG":
        kids = t[1] if k == "C" else t[3]

        def re(ks):
            return ["C", ks] if k == "C" else ["G", t[1], t[2], ks]
        for c in kids:
            yield c
        for i in range(len(kids)):
            yield re(kids[:i] + kids[i + 1:])
        if k == "G":
            yield ["C", kids]
            for i in range(len(t[1])):
                yield ["G", t[1][:i] + t[1][i + 1:], t[2], kids]
            for i in range(len(t[2])):
                yield ["G", t[1], t[2][:i] + t[2][i + 1:], kids]
        for i, c in enumerate(kids):
            for s in _subtrees(c):
                yield re(kids[:i] + [s] + kids[i + 1:])
    else:
        yield t[-1]
        for s in _subtrees(t[-1]):
            yield t[:-1] + [s]


def shrink(case):
    ops = case["ops"]
    if len(ops) > 3:
        yield dict(case, ops=ops[:len(ops) // 2])
        yield dict(case, ops=ops[len(ops) // 2:])
    for i in range(len(ops)):
        yield dict(case, ops=ops[:i] + ops[i + 1:])
    for s in _subtrees(case["tree"]):
        yield dict(case, tree=s)
    for i, op in enumerate(ops):
        if op[0] != "E":
            continue
        e = op[1]
        base = ev(e["tags"])
        for f in ("id", "st", "run", "file", "bytes", "eof", "mime", "route", "ts", "pos", "omit"):
            if e[f] != base[f]:
                e2 = dict(e)
                e2[f] = base[f]
                if f == "file":
                    e2["bytes"] = None
                yield dict(case, ops=ops[:i] + [["E", e2]] + ops[i + 1:])
        if e["tags"] is not None:
            yield dict(case, ops=ops[:i] + [["E", dict(e, tags=None)]] + ops[i + 1:])
            if e["tags"][0] == "l":
                yield dict(case, ops=ops[:i] + [["E", dict(e, tags=["f", case["caller"][e["tags"][1]]])]] + ops[i + 1:])
    if case.get("variant"):
        yield dict(case, variant=0)
    if case.get("kwreuse"):
        yield dict(case, kwreuse=False)


def distribution(cases):
    d = {"depth": {}, "leaves": {}, "tag_arg": {"none": 0, "frozenset": 0, "set": 0}, "status_calls": 0,
         "caller_mutations": 0, "with_nested_taggers": 0, "with_failfast": 0, "with_queue": 0, "with_stamp": 0,
         "timestamp_supplied": 0, "timestamp_missing": 0, "stop_calls_per_history": {}, "start_calls_per_history": {},
         "status_outside_run": 0, "same_set_object_again": 0, "same_set_object_again_changed_between": 0,
         "equal_value_other_object": 0, "kwargs_dict_reused": 0,
         "timestamp_kind": {"missing": 0, "aware_utc": 0, "aware_other_zone": 0, "naive": 0, "not_a_datetime": 0},
         "route_kind": {"none": 0, "ordinary": 0, "empty_string": 0, "other_with_empty_segment": 0, "blank": 0},
         "empty_string_id_file_or_mime": 0, "queue_with_empty_or_blank_code": 0}
    import json
    for c in cases:
        t = c["tree"]
        d["depth"][depth(t)] = d["depth"].get(depth(t), 0) + 1
        n = min(n_leaves(t), 12)
        d["leaves"][n] = d["leaves"].get(n, 0) + 1
        s = json.dumps(t)
        d["with_nested_taggers"] += s.count('"G"') >= 2
        d["with_failfast"] += '"F"' in s
        d["with_queue"] += '"Q"' in s
        d["queue_with_empty_or_blank_code"] += ('["Q", %d,' % SEG_EMPTY in s) or ('["Q", %d,' % SEG_BLANK in s)
        d["with_stamp"] += '"Z"' in s
        ns = sum(op[0] == "S" for op in c["ops"])
        nt = sum(op[0] == "T" for op in c["ops"])
        d["start_calls_per_history"][ns] = d["start_calls_per_history"].get(ns, 0) + 1
        d["stop_calls_per_history"][nt] = d["stop_calls_per_history"].get(nt, 0) + 1
        d["kwargs_dict_reused"] += bool(c.get("kwreuse"))
        cur = [list(x) for x in c["caller"]]
        prev, prev_val, changed, inrun = None, None, False, False
        for op in c["ops"]:
            if op[0] == "S":
                inrun = True
            elif op[0] == "T":
                inrun = False
            elif op[0] == "M":
                cur[op[1]] = list(op[2])
                if prev is not None and prev[0] == "l" and prev[1] == op[1]:
                    changed = True
            if op[0] == "E":
                tg = op[1]["tags"]
                d["status_outside_run"] += not inrun
                if tg is not None and tg[0] == "l":
                    if prev == tg:
                        d["same_set_object_again"] += 1
                        d["same_set_object_again_changed_between"] += changed and cur[tg[1]] != prev_val
                    elif prev is not None and prev_val == cur[tg[1]]:
                        d["equal_value_other_object"] += 1
                prev, changed = tg, False
                prev_val = None if tg is None else (list(cur[tg[1]]) if tg[0] == "l" else list(tg[1]))
            if op[0] == "E":
                d["status_calls"] += 1
                tg = op[1]["tags"]
                d["tag_arg"]["none" if tg is None else "frozenset" if tg[0] == "f" else "set"] += 1
                d["timestamp_supplied" if op[1]["ts"] is not None else "timestamp_missing"] += 1
                t = op[1]["ts"]
                t = ["a", 0, t] if isinstance(t, int) else t
                d["timestamp_kind"]["missing" if t is None else "naive" if t[0] == "n" else "not_a_datetime"
                                    if t[0] == "o" else "aware_utc" if t[1] == 0 else "aware_other_zone"] += 1
                r = op[1]["route"]
                d["route_kind"]["none" if r is None else "empty_string" if r == [SEG_EMPTY] else
                                "other_with_empty_segment" if SEG_EMPTY in r else "blank" if SEG_BLANK in r
                                else "ordinary"] += 1
                d["empty_string_id_file_or_mime"] += (op[1]["id"] == 3 or op[1]["file"] == 3 or op[1]["mime"] == 2)
            elif op[0] == "M":
                d["caller_mutations"] += 1
    return d
