"""C20 - Deferred matchers classify fired/failed/unfired without firing anything
(twistedsupport/_matchers.py, _deferred.py, SynchronousDeferredRunTest._run_user).
Real twisted.internet.defer.Deferred objects, real matchers."""
import gc
import itertools

from .. import coqio as q

PROP = "C20"
CORR = "Corr.C20"
REQUIRES = ["Model.Deferred", "Model.DeferredMatchers", "Spec.C20"]
PROOF_FILES = ["Proof/C20.v"]
MANIFEST = {
    "text": "PARTIAL. Coq theorems, for every history (any length and order of match / callback / errback / addCallbacks / "
            "pause / unpause / firing of a chained Deferred / extract_result, any callbacks, nested inner matchers) on one "
            "Deferred, about a hand-written Gallina model of on_deferred_result, _NoResult/_Succeeded/_Failed, "
            "extract_result and SynchronousDeferredRunTest._run_user over a model of Twisted's Deferred: trichotomy, "
            "inner matcher, extract_result, nothing fired (no callback runs during a match, .called and the state "
            "unchanged), non-interference (after a match every later operation observes exactly what it would have "
            "without it; a history shows its callbacks the same values and ends in the same state as the history "
            "with its matches erased), a failure looked at by succeeded()/failed() is consumed by an errback and not "
            "on record as unhandled, a fired Deferred is reported like a direct return/raise. Tied to /repo on every "
            "run by executing the real matchers on real Deferreds and the model inside coqc on the same generated "
            "histories; the oracle for a failing input is the executable statement spec_okb, proved to imply the "
            "readable Spec.",
    "note": "PARTIAL: Twisted's Deferred (callback chain, pause, chaining, AlreadyCalledError) and its unhandled-error "
            "logging (DebugInfo.__del__, garbage collection, log publisher) are modelled, not verified; 'not logged as "
            "unhandled' is the model's DebugInfo flag, validated against the real GC/log path on every case. A Deferred "
            "that was fired but has no result available (paused chain, waiting on a chained Deferred) counts as "
            "'no result'. Re-entrant use (matching from inside a running callback) is not modelled. "
            "Trusted: Coq kernel + vm_compute; the harness. All theorems closed under the global context.",
    "technique": "Coq proof (invariant of reachable Deferred states, case analysis on the state, simulation between a "
                 "history and its erasure by induction on the history) + model/implementation correspondence in coqc "
                 "on real Deferreds",
    "ref": "6 C20",
}
RULE = ("histories of 1-20 operations (match with has_no_result/succeeded(m)/failed(m), m from Always/Never/Is k closed "
        "under Not/MatchesAll/MatchesAny; callback(v); errback(e), e an ordinary class, Twisted's AlreadyCalledError/CancelledError or the helpers' "
        "own DeferredNotFired/ImpossibleDeferredError or a non-Exception BaseException (KeyboardInterrupt, SystemExit, "
        "GeneratorExit, a custom subclass); addCallbacks with pass/constant/raise/recording "
        "functions or one returning an unfired Deferred; pause/unpause; firing or failing the Deferred the chain waits "
        "for; extract_result) on one fresh real Deferred, each followed by dropping the Deferred and gc.collect() "
        "under a log observer: fixed corners, each Deferred state with 0-3 callbacks x all matchers, all histories to "
        "length 4 with a match over a reduced alphabet (subsampled; a fire appended when there is none; a recording "
        "callback appended), random ones built as callbacks-before + body + callbacks-after and repaired to contain "
        "a match, a fire/fail and a callback; plus SynchronousDeferredRunTest on every stage position x "
        "return/raise of every exception class incl. DeferredNotFired (also out of extract_result on an unfired "
        "Deferred) and ImpossibleDeferredError, an exception escaping run() being an event; non-trivial = at least one match and one fire/fail and one callback (or a sync case); "
        "distinct = distinct JSON")
TRUSTED = ["PARTIAL: Twisted's Deferred, DebugInfo.__del__/GC and the log publisher are modelled, not verified",
           "the state of a Deferred is observed by inspecting .called/.paused/.result of the real object",
           "the reference (match-free) history is replayed by the harness; which history it must be is checked by "
           "spec_okb (erase_obs)"]
ASSUMPTIONS = ["a callback returns at most a fresh unfired Deferred (one level of chaining); unpause() is only "
               "called after a pause() of the same history; no re-entrant calls from inside callbacks",
               "values and exceptions are drawn from small pools and compared by token",
               "fired-but-no-result-yet (paused / waiting on a chained Deferred) is classified as 'no result'"]
EXPLANATION = ("Theorems in coq/Props/C20.v; correspondence: real matchers on real Deferreds (verdicts, inspected states, "
               "recording callbacks run per operation and values seen, unhandled-error log after gc.collect()) "
               "against coq/Model/DeferredMatchers.v, each history also replayed with its matches erased on a second "
               "Deferred; SynchronousDeferredRunTest against plain RunTest, _run_user and whole tests.")
MAXTASKS = 400

N_EXC = 4
NOTFIRED, IMPOSSIBLE = 90, 91        # Model.DeferredMatchers.notfired_tok / impossible_tok
# exception class tokens: 0-3 ordinary classes, 4/5 Twisted's own AlreadyCalledError / CancelledError, and the two
# classes the helpers under test raise themselves (a failure or a test may carry them just as well)
# 6-9: BaseException classes that are NOT Exceptions (KeyboardInterrupt, SystemExit, GeneratorExit, a custom
# BaseException subclass): Deferred.errback / a raising callback / maybeDeferred capture them into a Failure like
# any other class (Model.DeferredMatchers.kbint_tok ...)
KBINT, SYSEXIT, GENEXIT, DBASE = 6, 7, 8, 9
BASE_TOKS = [KBINT, SYSEXIT, GENEXIT, DBASE]
EXC_TOKS = [0, 1, 2, 3, 4, 5] + BASE_TOKS + [NOTFIRED, IMPOSSIBLE]
CAUGHT = 4999


def _pools():
    vals = [None, 0, "x", [1, [2]], (None,), {"a": 1}, 42]
    excs = [type("DExc%d" % k, (Exception,), {}) for k in range(N_EXC)]
    return vals, excs


class _Ctx:
    def __init__(self):
        from twisted.python.failure import Failure
        self.Failure = Failure
        self.vals, self.excs = _pools()
        from twisted.internet import defer
        from testtools.twistedsupport._deferred import DeferredNotFired, ImpossibleDeferredError
        self.special = {4: defer.AlreadyCalledError, 5: defer.CancelledError, NOTFIRED: DeferredNotFired,
                        IMPOSSIBLE: ImpossibleDeferredError, KBINT: KeyboardInterrupt, SYSEXIT: SystemExit,
                        GENEXIT: GeneratorExit, DBASE: type("DBase", (BaseException,), {})}
        self.unknown = object()        # a value outside the pool (token 98)

    def mkexc(self, t):
        """an exception instance of the class with token t"""
        from twisted.internet import defer
        if t == NOTFIRED:
            return self.special[t](defer.Deferred())
        if t == IMPOSSIBLE:
            return self.special[t](defer.Deferred(), [], [])
        if t in self.special:
            return self.special[t]()
        return self.excs[t]()

    def exctok(self, e):
        """class token of an exception instance (99: outside the pools)"""
        for t, cls in self.special.items():
            if type(e) is cls:
                return t
        return self.excs.index(type(e)) if type(e) in self.excs else 99

    def tok(self, x):
        if isinstance(x, self.Failure):
            return ["err", self.exctok(x.value)]
        for k, v in enumerate(self.vals):
            if x is v:
                return ["val", k]
        for k, v in enumerate(self.vals):
            if type(x) is type(v) and x == v:
                return ["val", k]
        return ["val", 98]

    def state(self, d):
        if not d.called:
            return ["unfired"]
        if d.paused:
            return ["waiting"]         # fired, but the chain is paused or waits for another Deferred
        return self.tok(d.result)

    def cb(self, spec, log, auxs=None):
        kind = spec[0]
        if kind == "wait":
            def w(x):
                from twisted.internet import defer
                a = defer.Deferred()
                auxs.append(a)
                return a
            return w
        if kind == "pass":
            return lambda x: x
        if kind == "const":
            return lambda x: self.vals[spec[1]] if spec[1] < len(self.vals) else self.unknown
        if kind == "raise":
            def f(x):
                raise self.mkexc(spec[1])
            return f
        if kind == "rec":
            def g(x):
                log.append([spec[1], self.tok(x)])
                return x
            return g
        if kind == "recnone":
            def h(x):
                log.append([spec[1], self.tok(x)])
                return None
            return h
        raise ValueError(spec)

    def matcher(self, m):
        from testtools.matchers import Always, MatchesAll, MatchesAny, Mismatch, Never, Not
        from testtools.twistedsupport import failed, has_no_result, succeeded
        ctx = self

        class Is:
            def __init__(self, k):
                self.k = k

            def __str__(self):
                return "Is(%d)" % self.k

            def match(self, x):
                return None if ctx.tok(x)[1] == self.k else Mismatch("token differs")

        def inner(i):
            if i[0] == "not":
                return Not(inner(i[1]))
            if i[0] == "both":
                return MatchesAll(inner(i[1]), inner(i[2]))
            if i[0] == "either":
                return MatchesAny(inner(i[1]), inner(i[2]))
            return Always() if i[0] == "always" else Never() if i[0] == "never" else Is(i[1])
        if m[0] == "noresult":
            return has_no_result()
        if m[0] == "succeeded":
            return succeeded(inner(m[1]))
        return failed(inner(m[1]))


_EVENTS = []
_BEGUN = []


def _begin():
    """once per worker: send Twisted's log to our list instead of stderr; freeze the heap so that the
    gc.collect() calls around every history only look at what the history allocated"""
    if not _BEGUN:
        from twisted.logger import globalLogBeginner
        import testtools.twistedsupport  # noqa: F401
        globalLogBeginner.beginLoggingTo([_EVENTS.append], redirectStandardIO=False, discardBuffer=True)
        gc.collect()
        gc.freeze()
        _BEGUN.append(True)


def _run_history(ctx, ops, want_erased):
    """-> (per-op observations, log, unhandled logged at collection, erased ops)"""
    from twisted.internet import defer
    from testtools.twistedsupport._deferred import DeferredNotFired, extract_result
    _begin()
    gc.collect()
    del _EVENTS[:]
    events = _EVENTS
    try:
        d = defer.Deferred()
        log = []
        per = []
        erased = []
        auxs = []          # unfired Deferreds returned by "wait" callbacks (at most one outstanding)
        pauses = 0         # pause() calls of this history still in force
        for op in ops:
            before, cbefore, nlog = ctx.state(d), bool(d.called), len(log)
            k = op[0]
            keep = True
            if k == "match":
                mm = ctx.matcher(op[1]).match(d)
                out = ["match", mm is None]
                keep = False
                # the reference history (Spec.C20.erase_obs, checked there): the match disappears; where
                # succeeded()/failed() looked at a failure, an errback returning what the Deferred holds now
                after = ctx.state(d)
                if before[0] == "err" and op[1][0] in ("succeeded", "failed") and after[0] == "val":
                    erased.append(["add", ["pass"], ["const", after[1]]])
            elif k in ("fire", "fail"):
                try:
                    if k == "fire":
                        d.callback(ctx.vals[op[1]])
                    else:
                        d.errback(ctx.mkexc(op[1]))
                    out = ["done"]
                except defer.AlreadyCalledError:
                    out = ["already"]
            elif k == "add":
                d.addCallbacks(ctx.cb(op[1], log, auxs), ctx.cb(op[2], log, auxs))
                out = ["done"]
            elif k == "pause":
                d.pause()
                pauses += 1
                out = ["done"]
            elif k == "unpause":
                if pauses:
                    pauses -= 1
                    d.unpause()
                out = ["done"]
            elif k == "resume":
                if auxs:
                    a = auxs.pop(0)
                    if op[1] == "val":
                        a.callback(ctx.vals[op[2]])
                    else:
                        a.errback(ctx.mkexc(op[2]))
                    a = None
                out = ["done"]
            elif k == "extract":
                try:
                    out = ["extract", ["ok", ctx.tok(extract_result(d))[1]]]
                except BaseException as e:
                    # by class only: DeferredNotFired is token 90 whether extract_result raised it because there
                    # is no result or because the failure carries one
                    t = ctx.exctok(e)
                    out = ["extract", ["raised", t if t != 99 else "other"]]
            else:
                raise ValueError(op)
            if keep:
                erased.append(op)
            per.append({"before": before, "cbefore": cbefore, "out": out, "after": ctx.state(d),
                        "cafter": bool(d.called), "ran": len(log) - nlog})
        final, called = ctx.state(d), bool(d.called)
        del d
        del auxs[:]
        mm = None
        gc.collect()
        unhandled = any(e.get("isError") or e.get("log_failure") is not None for e in events)
        return per, log, unhandled, erased, final, called
    finally:
        del _EVENTS[:]


def drive(case):
    ctx = _Ctx()
    if case["kind"] == "hist":
        per, log, unhandled, erased, _, _ = _run_history(ctx, case["ops"], True)
        _, elog, eunhandled, _, efinal, ecalled = _run_history(ctx, erased, False)
        return {"ops": per, "log": log, "unhandled": unhandled, "eops": erased, "elog": elog, "efinal": efinal,
                "ecalled": ecalled, "eunhandled": eunhandled}
    return _drive_sync(ctx, case)


# ---------------- SynchronousDeferredRunTest ----------------
EVENT = {"startTest": 1, "stopTest": 2, "addSuccess": 3, "addError": 4, "addFailure": 5, "addSkip": 6,
         "addExpectedFailure": 7, "addUnexpectedSuccess": 8}


def _drive_sync(ctx, case):
    import testtools
    from testtools.runtest import RunTest
    from testtools.testresult.doubles import ExtendedTestResult
    from testtools.twistedsupport import SynchronousDeferredRunTest
    from testtools.twistedsupport._deferred import DeferredNotFired
    from twisted.internet import defer
    from testtools.twistedsupport._deferred import ImpossibleDeferredError, extract_result
    kind, x, pos = case["what"][0], case["what"][1], case["pos"]
    via_extract = len(case["what"]) > 2      # the DeferredNotFired comes out of extract_result(<unfired Deferred>)

    def exc_for(tc):
        if x < 4:
            return [ValueError("v"), tc.failureException("f"), tc.skipException("s"), ctx.excs[3]()][x]
        return ctx.mkexc(x)

    def exc_tok(e):
        if type(e) in ctx.special.values():
            return ctx.exctok(e)
        if isinstance(e, ctx.excs[3]):
            return 3
        if isinstance(e, testtools.TestCase.skipException):
            return 2
        if isinstance(e, AssertionError):
            return 1
        if isinstance(e, ValueError):
            return 0
        return 99

    class Plain(testtools.TestCase):
        def test_x(self):
            pass

    def behave(tc, mode):
        if mode == "direct":
            if kind == "ok":
                return ctx.vals[x]
            if via_extract:
                return extract_result(defer.Deferred())
            raise exc_for(tc)
        if mode == "fired":
            if kind == "ok":
                return defer.succeed(ctx.vals[x])
            if via_extract:
                return defer.maybeDeferred(extract_result, defer.Deferred())
            return defer.fail(exc_for(tc))
        return defer.Deferred()

    def user(runner_cls, mode):
        tc = Plain("test_x")
        rt = runner_cls(tc)
        try:
            ret = rt._run_user(lambda: behave(tc, mode))
        except DeferredNotFired:
            return ["raised", "notfired"]
        except BaseException:
            return ["raised", "other"]
        if ret is rt.exception_caught:
            return ["caught", exc_tok(rt._exceptions[-1])]
        return ["ret", ctx.tok(ret)[1]]

    def whole(runner_cls, mode):
        class T(testtools.TestCase):
            run_tests_with = runner_cls

            def setUp(self):
                super().setUp()
                self.addCleanup(self._cleanup)
                if pos == 0:
                    return behave(self, mode)

            def _cleanup(self):
                if pos == 3:
                    return behave(self, mode)

            def test_x(self):
                if pos == 1:
                    return behave(self, mode)

            def tearDown(self):
                super().tearDown()
                if pos == 2:
                    return behave(self, mode)
        res = ExtendedTestResult()
        escaped = False
        try:
            T("test_x").run(res)
        except BaseException:
            escaped = True               # an exception came out of run(): an event of its own (99x)
        out = []
        for ev in res._events:
            code = EVENT.get(ev[0], 9)
            nd = 0
            if len(ev) > 2 and isinstance(ev[2], dict):
                nd = min(len(ev[2]), 9)
            out.append(code * 10 + nd)
        if escaped:
            out.append(990)
        return out

    return {"direct": user(RunTest, "direct"), "fired": user(SynchronousDeferredRunTest, "fired"),
            "ev_direct": whole(RunTest, "direct"), "ev_fired": whole(SynchronousDeferredRunTest, "fired")}


# ---------------- Gallina ----------------
def t_cb(c):
    return {"pass": "CPass", "const": "(CConst %s)", "raise": "(CRaise %s)", "rec": "(CRec %s)",
            "recnone": "(CRecNone %s)", "wait": "CWait"}[c[0]] % tuple(q.nat(a) for a in c[1:])


def t_inner(i):
    if i[0] in ("not", "both", "either"):
        return "(%s %s)" % ({"not": "INot", "both": "IBoth", "either": "IEither"}[i[0]],
                            " ".join(t_inner(a) for a in i[1:]))
    return {"always": "IAlways", "never": "INever", "is": "(IIs %s)"}[i[0]] % tuple(q.nat(a) for a in i[1:])


def t_matcher(m):
    if m[0] == "noresult":
        return "MNoResult"
    return "(%s %s)" % ("MSucceeded" if m[0] == "succeeded" else "MFailed", t_inner(m[1]))


def t_op(op):
    k = op[0]
    if k == "match":
        return "(OMatch %s)" % t_matcher(op[1])
    if k == "fire":
        return "(OFire %s)" % q.nat(op[1])
    if k == "fail":
        return "(OFail %s)" % q.nat(op[1])
    if k == "add":
        return "(OAdd %s %s)" % (t_cb(op[1]), t_cb(op[2]))
    if k == "pause":
        return "OPause"
    if k == "unpause":
        return "OUnpause"
    if k == "resume":
        return "(OResume %s)" % t_dres(op[1:])
    return "OExtract"


def t_state(s):
    if s[0] in ("unfired", "waiting"):
        return "SUnfired" if s[0] == "unfired" else "SWaiting"
    return "(%s %s)" % ("SVal" if s[0] == "val" else "SErr", q.nat(s[1]))


def t_dres(s):
    return "(%s %s)" % ("RVal" if s[0] == "val" else "RErr", q.nat(s[1]))


def t_x(r):
    if r[0] == "ok":
        return "(Ok %s)" % q.nat(r[1])
    return "(Raised %s)" % ("XOther" if r[1] == "other" else "(XUser %s)" % q.nat(r[1]))


def t_out(o):
    if o[0] == "match":
        return "(OutMatch %s)" % q.boolean(o[1])
    if o[0] == "extract":
        return "(OutExtract %s)" % t_x(o[1])
    return "OutDone" if o[0] == "done" else "OutAlready"


def t_log(log):
    return q.lst([q.pair(q.nat(t), t_dres(s)) for t, s in log])


def t_uret(u):
    if u[0] == "ret":
        return "(URet %s)" % q.nat(u[1])
    if u[0] == "caught":
        return "(UCaught %s)" % q.nat(u[1])
    return "(URaised %s)" % ("(XUser %d)" % NOTFIRED if u[1] == "notfired" else "XOther")


def term(case, o):
    if case["kind"] == "hist":
        i = "(IHist %s)" % q.lst([t_op(op) for op in case["ops"]])
        per = q.lst(["(mkO %s %s %s %s %s %s)" % (t_state(p["before"]), q.boolean(p["cbefore"]), t_out(p["out"]),
                                                  t_state(p["after"]), q.boolean(p["cafter"]), q.nat(p["ran"]))
                     for p in o["ops"]])
        ob = "(OHist (mkH %s %s %s %s %s %s %s %s))" % (per, t_log(o["log"]), q.boolean(o["unhandled"]),
                                                        q.lst([t_op(e) for e in o["eops"]]), t_log(o["elog"]),
                                                        t_state(o["efinal"]), q.boolean(o["ecalled"]),
                                                        q.boolean(o["eunhandled"]))
        return q.pair(i, ob)
    w = case["what"]
    i = "(ISync %s (%s %s))" % (q.nat(case["pos"]), "inl" if w[0] == "ok" else "inr", q.nat(w[1]))
    ob = "(OSync (mkS %s %s %s %s))" % (t_uret(o["direct"]), t_uret(o["fired"]),
                                        q.lst([q.nat(e) for e in o["ev_direct"]]),
                                        q.lst([q.nat(e) for e in o["ev_fired"]]))
    return q.pair(i, ob)


def perturb(case, o):
    o = dict(o)
    if case["kind"] == "hist":
        # in the first operation's before-fields: alpha (Corr.C20.cut) never forgets those
        ops = [dict(x) for x in o["ops"]]
        if ops:
            ops[0]["cbefore"] = not ops[0]["cbefore"]
            o["ops"] = ops
        else:
            o["ecalled"] = not o["ecalled"]
    else:
        o["fired"] = ["ret", 97]
    return o


# ---------------- generation ----------------
MATCHERS = [["noresult"], ["succeeded", ["always"]], ["failed", ["always"]], ["succeeded", ["never"]],
            ["failed", ["never"]], ["succeeded", ["is", 3]], ["succeeded", ["is", 0]], ["failed", ["is", 1]],
            ["failed", ["is", 2]], ["failed", ["is", NOTFIRED]], ["failed", ["not", ["is", NOTFIRED]]],
            ["failed", ["either", ["is", IMPOSSIBLE], ["is", 4]]], ["failed", ["is", KBINT]],
            ["failed", ["not", ["either", ["is", SYSEXIT], ["is", DBASE]]]],
            # nested inner matchers
            ["succeeded", ["not", ["is", 3]]], ["failed", ["not", ["is", 1]]],
            ["succeeded", ["either", ["is", 0], ["is", 3]]], ["failed", ["both", ["not", ["is", 2]], ["always"]]],
            ["succeeded", ["both", ["is", 3], ["not", ["never"]]]], ["failed", ["either", ["never"], ["is", 2]]]]
CBS = [["pass"], ["const", 0], ["const", 3], ["raise", 1], ["rec", 1], ["rec", 2], ["recnone", 3], ["wait"],
       ["raise", NOTFIRED], ["raise", KBINT], ["raise", GENEXIT]]
RECS = [["rec", 1], ["rec", 2], ["recnone", 3]]


def rand_inner(rng, depth=2):
    r = rng.random()
    if depth == 0 or r < 0.55:
        return rng.choice([["always"], ["never"], ["is", rng.choice([0, 1, 2, 3, 3, NOTFIRED, NOTFIRED, IMPOSSIBLE, 4, KBINT, SYSEXIT, GENEXIT, DBASE])]])
    if r < 0.7:
        return ["not", rand_inner(rng, depth - 1)]
    return [rng.choice(["both", "either"]), rand_inner(rng, depth - 1), rand_inner(rng, depth - 1)]


def rand_matcher(rng):
    r = rng.random()
    if r < 0.5:
        return rng.choice(MATCHERS)
    if r < 0.6:
        return ["noresult"]
    return [rng.choice(["succeeded", "failed"]), rand_inner(rng)]


def rand_exc(rng):
    # a third of the failures carry the exception classes the helpers raise themselves
    r = rng.random()
    if r < 0.22:
        return NOTFIRED
    if r < 0.30:
        return IMPOSSIBLE
    if r < 0.55:
        return rng.choice(BASE_TOKS)     # not an Exception
    return rng.choice([0, 1, 2, 3, 4, 5])


def rand_add(rng):
    # mostly a recorder on at least one side: what later/earlier callbacks see is the point
    r = rng.random()
    if r < 0.45:
        return ["add", rng.choice(RECS), rng.choice(RECS)]
    if r < 0.75:
        return ["add", rng.choice(CBS), rng.choice(CBS)]
    return rng.choice([["add", ["raise", rand_exc(rng)], ["pass"]], ["add", ["pass"], ["const", rng.choice([0, 3, 5])]],
                       ["add", ["wait"], ["wait"]], ["add", ["const", 3], ["raise", 2]], ["add", ["wait"], ["pass"]],
                       ["add", ["pass"], ["wait"]]])


def rand_fire(rng):
    if rng.random() < 0.5:
        return ["fire", rng.choice([0, 0, 1, 2, 3, 3, 4, 5, 6])]
    return ["fail", rand_exc(rng)]


def rand_op(rng):
    r = rng.random()
    if r < 0.36:
        return ["match", rand_matcher(rng)]
    if r < 0.50:
        return rand_fire(rng)
    if r < 0.78:
        return rand_add(rng)
    if r < 0.84:
        return ["pause"]
    if r < 0.90:
        return ["unpause"]
    if r < 0.97:
        return ["resume", "val", rng.choice([0, 3, 6])] if rng.random() < 0.6 else ["resume", "err", rand_exc(rng)]
    return ["extract"]


def rand_history(rng, maxbody=8):
    """callbacks before, a body in which the Deferred is matched and fired in some order (possibly behind a
    pause or a chained Deferred), callbacks after; always at least one match, one fire/fail, one callback"""
    ops = [rand_add(rng) for _ in range(rng.choice([0, 0, 1, 1, 2, 3]))]
    if rng.random() < 0.2:
        ops.append(["pause"])
    body = [rand_op(rng) for _ in range(rng.randint(2, maxbody))]
    kinds = [o[0] for o in body]
    if "match" not in kinds:
        body.insert(rng.randint(0, len(body)), ["match", rand_matcher(rng)])
    if "fire" not in kinds and "fail" not in kinds:
        body.insert(rng.randint(0, len(body)), rand_fire(rng))
    ops += body
    r = rng.random()
    if r < 0.55:
        ops.append(["add", rng.choice(RECS), rng.choice(RECS)])
    elif r < 0.75:
        ops += [["match", rand_matcher(rng)], ["add", rng.choice(RECS), rng.choice(RECS)]]
    elif r < 0.85:
        ops += [["unpause"], ["resume", "val", 6], ["add", ["rec", 2], ["rec", 2]]]
    if not any(o[0] == "add" for o in ops):
        ops.append(["add", ["rec", 1], ["rec", 1]])
    return ops


def generate(rng, tier):
    cases = []

    def hist(ops):
        cases.append({"kind": "hist", "ops": [list(o) for o in ops]})
    # SynchronousDeferredRunTest (first: the coverage sample of the evidence always contains case 0)
    for pos in range(4):
        for w in [["ok", 0], ["ok", 3], ["ok", 6], ["err", 0], ["err", 1], ["err", 2], ["err", 3], ["err", 4],
                  ["err", 5], ["err", NOTFIRED], ["err", NOTFIRED, "via_extract"], ["err", IMPOSSIBLE],
                  ["err", KBINT], ["err", SYSEXIT], ["err", GENEXIT], ["err", DBASE]]:
            cases.append({"kind": "sync", "pos": pos, "what": w})
    rec = lambda t: ["add", ["rec", t], ["rec", t]]          # noqa: E731
    tri = [["match", MATCHERS[0]], ["match", MATCHERS[1]], ["match", MATCHERS[2]]]
    # fixed corners: trichotomy in each state, then what later callbacks see
    hist(tri + [rec(1)])
    hist([["fire", 0]] + tri + [rec(1)])
    hist([["fire", 3]] + tri + [rec(1)])
    hist([["fail", 1]] + tri + [rec(1)])
    hist([["fail", 1], ["match", ["noresult"]]])                       # stays unhandled: logged
    hist([["match", ["noresult"]], ["fire", 3], rec(1)])               # match unfired, then fire
    hist([["match", ["succeeded", ["always"]]], ["fail", 2], rec(1)])
    hist([["extract"], ["fire", 3], rec(1)])
    hist([["fire", 3], ["extract"], rec(1)])
    hist([["fail", 0], ["extract"], rec(1)])
    hist([["fire", 3], ["fire", 4]])
    # exception identity is not state: a Deferred failed WITH DeferredNotFired / ImpossibleDeferredError
    for t in BASE_TOKS:
        # a failure of a non-Exception class is inspected and the Deferred dropped: handled like any other
        hist([rec(1), ["fail", t], ["match", ["failed", ["always"]]]])
        hist([["fail", t], ["match", ["succeeded", ["always"]]], rec(1)])
        hist([["add", ["raise", t], ["raise", t]], ["fire", 3], ["match", ["failed", ["is", t]]], rec(2)])
        hist([["add", ["wait"], ["wait"]], ["fire", 0], ["resume", "err", t], ["match", ["failed", ["never"]]]])
        hist([["fail", t], ["match", ["noresult"]]])
    for t in (NOTFIRED, IMPOSSIBLE, 4) + tuple(BASE_TOKS):
        hist([["fail", t]] + tri + [rec(1)])
        hist([["fail", t], ["extract"], rec(1)])
        hist([["fail", t], ["match", ["failed", ["is", t]]], ["match", ["failed", ["is", 1]]], rec(1)])
        hist([["add", ["raise", t], ["pass"]], ["fire", 3], ["match", ["noresult"]], ["extract"], rec(1)])
        hist([["pause"], ["fail", t], ["extract"], ["match", ["noresult"]], ["unpause"], ["extract"]])
        hist([["add", ["wait"], ["wait"]], ["fire", 0], ["extract"], ["resume", "err", t]] + tri + [["extract"]])
    # a failure is inspected and the Deferred dropped: nothing may be logged; not inspected: logged
    for m in MATCHERS[1:]:
        hist([rec(1), ["fail", 1], ["match", m]])
        hist([["fail", 2], ["match", m], ["add", ["raise", 3], ["pass"]], ["match", m]])
        hist([["fail", 2], ["match", m], ["add", ["raise", 3], ["pass"]], ["match", ["noresult"]]])
        hist([["add", ["raise", 0], ["pass"]], ["match", m], ["fire", 3], ["match", m], rec(2)])
    # fired, but no result yet: paused chain / waiting for a Deferred returned by a callback
    wait = ["add", ["wait"], ["wait"]]
    for fi in (["fire", 3], ["fail", 1]):
        hist([["pause"], fi] + tri + [rec(1), ["unpause"], rec(2)])
        hist([wait, fi] + tri + [rec(1), ["resume", "val", 6], rec(2)])
        hist([wait, fi] + tri + [rec(1), ["resume", "err", 2]] + tri + [rec(2)])
        hist([fi, ["pause"]] + tri + [["unpause"]] + tri)
        hist([fi, wait] + tri + [["pause"], ["resume", "val", 0]] + tri + [["unpause"]] + tri)
        hist([["pause"], fi, ["extract"], ["unpause"], rec(1)])
        hist([rec(1), wait, rec(2), wait, fi] + tri + [["resume", "err", 3]] + tri + [["resume", "val", 3]] + tri)
        hist([["pause"], ["pause"], fi, ["match", MATCHERS[0]], ["unpause"]] + tri + [["unpause"]] + tri + [rec(1)])
    hist([["fail", 1], ["pause"]])                                    # a failure behind a pause is still logged
    hist([["pause"], ["fail", 1]])                                    # ... but not one that never reached the chain
    # every Deferred state with 0-3 callbacks attached x every matcher, then a recording callback
    pres = [[], [["add", ["const", 3], ["pass"]]], [["add", ["pass"], ["const", 0]], ["add", ["raise", 1], ["pass"]]],
            [rec(1), ["add", ["raise", 2], ["raise", 0]], ["add", ["recnone", 2], ["rec", 2]]]]
    fires = [[], [["fire", 0]], [["fire", 3]], [["fail", 1]], [["fail", 2]]]
    for pre, fi, m in itertools.product(pres, fires, MATCHERS):
        if fi:
            hist(pre + fi + [["match", m], rec(3)])
            hist(fi + pre + [["match", m], rec(3)])
        else:
            hist(pre + [["match", m], rec(3)])
            hist(pre + [["match", m], ["fire", 3], rec(3)])
            hist(pre + [["match", m], ["fail", 1], rec(3)])
    # all orders of match / fire / fail / add-callback / pause / chain up to length 4 over a reduced alphabet;
    # only those with a match (the rest says nothing about matchers); a history that never fires gets a fire
    alpha = [["match", ["noresult"]], ["match", ["succeeded", ["is", 3]]], ["match", ["failed", ["never"]]],
             ["fire", 3], ["fail", 1], ["add", ["rec", 1], ["rec", 1]], ["add", ["raise", 2], ["const", 0]],
             ["add", ["wait"], ["pass"]], ["pause"], ["unpause"], ["resume", "val", 6]]
    allh = [h for n in range(1, 5) for h in itertools.product(alpha, repeat=n) if any(o[0] == "match" for o in h)]
    want = 1500 if tier == "quick" else 12000
    stride = max(1, len(allh) // want)
    off = rng.randrange(stride)
    for k, h in enumerate(allh):
        if k % stride == off or len(h) <= 2:
            h = list(h)
            if not any(o[0] in ("fire", "fail") for o in h):
                h.append([["fire", 3], ["fail", 1], ["fire", 0]][k % 3])
            hist(h + [rec(3)])
    n_rand = 2400 if tier == "quick" else 46000
    for _ in range(n_rand):
        hist(rand_history(rng, 8 if tier == "quick" else 14))
    return cases


def nontrivial(case):
    if case["kind"] != "hist":
        return True
    ks = [o[0] for o in case["ops"]]
    return "match" in ks and ("fire" in ks or "fail" in ks) and "add" in ks


def shrink(case):
    if case["kind"] != "hist":
        return
    ops = case["ops"]
    for k in range(len(ops)):
        yield {"kind": "hist", "ops": ops[:k] + ops[k + 1:]}
    for k, o in enumerate(ops):
        if o[0] == "add" and (o[1] != ["pass"] or o[2] != ["pass"]):
            yield {"kind": "hist", "ops": ops[:k] + [["add", ["pass"], o[2]]] + ops[k + 1:]}
            yield {"kind": "hist", "ops": ops[:k] + [["add", o[1], ["pass"]]] + ops[k + 1:]}
        if o[0] == "match" and o[1][0] != "noresult" and o[1][1] != ["always"]:
            yield {"kind": "hist", "ops": ops[:k] + [["match", [o[1][0], ["always"]]]] + ops[k + 1:]}


def distribution(cases):
    d = {"kind": {}, "length": {}, "ops": {}, "match_on_state": {}, "sync_positions": {}, "with_pause_or_wait": 0,
         "nested_inner_matcher": 0, "callbacks_before_and_after_a_match": 0, "matches_per_history": {}}
    for c in cases:
        d["kind"][c["kind"]] = d["kind"].get(c["kind"], 0) + 1
        if c["kind"] != "hist":
            d["sync_positions"][c["pos"]] = d["sync_positions"].get(c["pos"], 0) + 1
            continue
        n = len(c["ops"])
        d["length"][n] = d["length"].get(n, 0) + 1
        fired = "unfired"
        d["with_pause_or_wait"] += any(o[0] == "pause" or (o[0] == "add" and ["wait"] in o[1:]) for o in c["ops"])
        d["nested_inner_matcher"] += any(o[0] == "match" and len(o[1]) > 1 and o[1][1][0] in ("not", "both", "either")
                                         for o in c["ops"])
        ks = [o[0] for o in c["ops"]]
        if "match" in ks:
            first, last = ks.index("match"), len(ks) - 1 - ks[::-1].index("match")
            d["callbacks_before_and_after_a_match"] += ("add" in ks[:last] and "add" in ks[first + 1:])
        nm = min(ks.count("match"), 6)
        d["matches_per_history"][nm] = d["matches_per_history"].get(nm, 0) + 1
        for o in c["ops"]:
            d["ops"][o[0]] = d["ops"].get(o[0], 0) + 1
            if o[0] == "match":
                k = "%s/%s" % (o[1][0], fired)
                d["match_on_state"][k] = d["match_on_state"].get(k, 0) + 1
            if o[0] in ("fire", "fail") and fired == "unfired":
                fired = "fired-or-failed"
    return d
