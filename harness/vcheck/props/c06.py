"""C06 - matcher verdicts obey their declared semantics compositionally (testtools/matchers)."""
import itertools
import json
import os
import random
import re
import sys
import types
import zlib

from .. import coqio as q

PROP = "C06"
CORR = "Corr.C06"
REQUIRES = ["Model.Matchers", "Spec.C06"]
PROOF_FILES = ["Proof/C06.v", "Proof/C06Setwise.v", "Proof/C06Leaves.v", "Lib/Sort.v"]
MANIFEST = {
    "text": "Coq theorems over all matcher expressions (structural induction on the nested expression tree with a "
            "custom induction principle; Permutation argument for MatchesSetwise) about a hand-written Gallina model "
            "of the matcher combinators and of the leaf matchers on a modelled value universe: match() returns None "
            "iff the documented predicate holds, for every leaf semantics of the abstract leaves and every "
            "set-iteration order; tied to /repo on every run by differential execution of model and implementation "
            "inside coqc, the oracle for a failing input being the executable statement spec_okb.",
    "note": "Full for the combinators and the concretely modelled leaves; leaves that depend on re, doctest and the "
            "filesystem are abstract in the theorem (their verdict is a parameter) and validated by sampling against "
            "an independent Python predicate. Known finding F13 (greedy MatchesSetwise) delimited by finding_F13. "
            "Trusted: Coq kernel + vm_compute, the harness, Python's ==, <, in, len, isinstance on built-in values.",
    "technique": "Coq proof (structural induction over matcher expressions, Permutation) + model/implementation "
                 "correspondence in coqc",
    "ref": "6 C06",
}
RULE = ("matcher expressions over a modelled value universe (ints, bools, floats, str, bytes, None, frozensets, lists, dicts, "
        "attribute objects, exc_info tuples, callables, paths in a scratch directory; falsy values 0 False 0.0 '' b'' "
        "None [] {} and values equal across types 1 True 1.0 occur as matchees, list elements, attribute values, dict "
        "values and dict keys): typed exhaustive enumeration to depth 2 over "
        "small leaf sets and about 6 values per family, then seeded random domain-directed expressions to depth 4; "
        "every MatchesSetwise case is rebuilt under all (at most 24) permutations of matcher creation order; "
        "non-trivial = at least one combinator; distinct = distinct JSON")
TRUSTED = ["Python's ==, <, in, len, isinstance, startswith/endswith on built-in values are taken as modelled in "
           "Model/Matchers.v (validated by the correspondence)",
           "abstract leaves (MatchesRegex, DocTestMatches, PathExists, FileExists, DirExists, DirContains, SamePath): "
           "verdict supplied to the model from an independent Python oracle (re.compile().match, os.path.*, fnmatch-"
           "style ELLIPSIS regex); validated by sampling only"]
ASSUMPTIONS = ["set(self.matchers) built from the same tuple of live objects iterates in the same order every time "
               "(the harness reads that order from the constructed matcher and passes it to the model)",
               "values are restricted to the domain predicate Spec.C06.dom (no TypeError/AttributeError from Python "
               "operators); a generated case outside it is reported as a disagreement, not skipped"]
EXPLANATION = ("Theorems in coq/Props/C06.v over all matcher expressions; correspondence: match() of the working tree "
               "against coq/Model/Matchers.v on enumerated and random expressions, with before/after snapshots of "
               "matcher and matchee and a repeated verdict.")
CASE_TIMEOUT = 30

ROOT = os.path.dirname(os.path.dirname(os.path.dirname(os.path.dirname(os.path.abspath(__file__)))))
SCRATCH = os.path.join(ROOT, ".work", "c06-scratch")


# ---------------------------------------------------------------------------
# scratch directory for the filesystem leaves (fixed content, never modified by matching)
# ---------------------------------------------------------------------------
def ensure_scratch():
    os.makedirs(os.path.join(SCRATCH, "d1"), exist_ok=True)
    for rel, text in (("f1", "hello"), ("d1/g", "a\nb\n")):
        p = os.path.join(SCRATCH, rel)
        if not os.path.exists(p):
            tmp = p + ".%d" % os.getpid()
            with open(tmp, "w") as f:
                f.write(text)
            os.replace(tmp, p)
    return SCRATCH


# ---------------------------------------------------------------------------
# abstract leaves: the real matcher and an independent oracle
# ---------------------------------------------------------------------------
def leaf_matcher(d):
    import doctest
    from testtools import matchers as M
    k = d[0]
    if k == "regex":
        return M.MatchesRegex(d[1])
    if k == "doctest":
        return M.DocTestMatches(d[1], doctest.ELLIPSIS)
    if k == "pathexists":
        return M.PathExists()
    if k == "fileexists":
        return M.FileExists()
    if k == "direxists":
        return M.DirExists()
    if k == "dircontains":
        return M.DirContains(d[1])
    if k == "samepath":
        return M.SamePath(d[1])
    raise ValueError(d)


def leaf_oracle(d, s):
    """independent predicate: does leaf d accept the string s (paths relative to the scratch dir)"""
    k = d[0]
    p = os.path.join(SCRATCH, s) if s else ""       # the empty path names nothing
    if k == "regex":
        return re.compile(d[1]).match(s) is not None
    if k == "doctest":
        want = d[1] if d[1].endswith("\n") else d[1] + "\n"
        got = s if s.endswith("\n") else s + "\n"
        rx = ".*".join(re.escape(part) for part in want.split("..."))
        return re.fullmatch(rx, got, re.S) is not None
    if k == "pathexists":
        return os.path.lexists(p) and os.path.exists(p)
    if k == "fileexists":
        return os.path.isfile(p)
    if k == "direxists":
        return os.path.isdir(p)
    if k == "dircontains":
        return os.path.isdir(p) and sorted(os.listdir(p)) == sorted(d[1])
    if k == "samepath":
        return os.path.realpath(os.path.join(SCRATCH, s)) == os.path.realpath(os.path.join(SCRATCH, d[1]))
    raise ValueError(d)


LEAFDEFS = [["regex", "a"], ["regex", "a.c"], ["regex", ".*b$"], ["regex", "[df]1"], ["doctest", "a...c"],
            ["doctest", "f1"], ["pathexists"], ["fileexists"], ["direxists"], ["dircontains", ["g"]],
            ["samepath", "d1/../f1"], ["samepath", "nope"]]


# ---------------------------------------------------------------------------
# values: JSON form -> Python objects
# ---------------------------------------------------------------------------
class UserVE(ValueError):
    pass


class UserBE(BaseException):
    pass


EXC = [BaseException, Exception, ValueError, LookupError, KeyError, KeyboardInterrupt, SystemExit, UserVE, UserBE]


class Obj:
    pass


def attr_name(a):
    return "a%02d" % a


class Ctx:
    """per construction: object identity table, creation permutations, observed set orders"""

    def __init__(self, perms=None, leafdefs=()):
        self.recs = {}
        self.perms = perms or {}
        self.orders = {}
        self.leafdefs = leafdefs


def mk_val(v, ctx):
    k = v[0]
    if k == "i":
        return v[1]
    if k == "t":                    # bool
        return bool(v[1])
    if k == "f":                    # float, stored as twice its value (0.0, 0.5, 1.0, ...)
        return v[1] / 2.0
    if k == "s":
        return v[1]
    if k == "b":
        return bytes(v[1])
    if k == "n":
        return None
    if k == "z":                    # frozenset of ints
        return frozenset(v[1])
    if k == "l":
        return [mk_val(x, ctx) for x in v[1]]
    if k == "d":
        return {mk_val(kk, ctx): mk_val(x, ctx) for kk, x in v[1]}
    if k == "r":
        if v[1] not in ctx.recs:
            o = Obj()
            ctx.recs[v[1]] = o
            for a, x in v[2]:
                setattr(o, attr_name(a), mk_val(x, ctx))
        return ctx.recs[v[1]]
    if k == "x":
        try:
            raise EXC[v[1]](*[mk_val(x, ctx) for x in v[2]])
        except BaseException:
            return sys.exc_info()
    if k == "ret":
        r = mk_val(v[1], ctx)
        return lambda: r
    if k == "raise":
        args = [mk_val(x, ctx) for x in v[2]]
        c = EXC[v[1]]

        def thrower():
            raise c(*args)
        return thrower
    raise ValueError(v)


PP = {0: lambda x: x, 1: len, 2: lambda e: list(e.args), 3: lambda x: [x], 4: lambda x: x + 1,
      5: lambda l: l[::-1], 6: lambda d: list(d.values())}
NOTES = ["note", "café ☃", "a'b\"c\\", "line1\nline2"]


def mk_ty(t):
    if isinstance(t, list):
        return EXC[t[1]]
    return {"int": int, "bool": bool, "float": float, "set": frozenset, "str": str, "bytes": bytes, "none": type(None), "list": list, "dict": dict, "rec": Obj,
            "object": object, "tuple": tuple, "func": types.FunctionType}[t]


def mk_matcher(m, ctx):
    from testtools import matchers as M
    k = m[0]
    if k in ("Equals", "NotEquals", "Is", "LessThan", "GreaterThan", "Contains", "StartsWith", "EndsWith"):
        return getattr(M, k)(mk_val(m[1], ctx))
    if k == "HasLength":
        return M.HasLength(m[1])
    if k == "IsInstance":
        return M.IsInstance(*[mk_ty(t) for t in m[1]])
    if k == "SameMembers":
        return M.SameMembers([mk_val(x, ctx) for x in m[1]])
    if k == "KeysEqual":
        return M.KeysEqual(*[mk_val(x, ctx) for x in m[1]])
    if k == "Always":
        return M.Always()
    if k == "Never":
        return M.Never()
    if k == "Leaf":
        return leaf_matcher(ctx.leafdefs[m[1]])
    if k == "MatchesException":
        inst, cs, args, vm = m[1], m[2], m[3], m[4]
        if inst:
            return M.MatchesException(EXC[cs[0]](*[mk_val(x, ctx) for x in args]))
        exp = EXC[cs[0]] if len(cs) == 1 else tuple(EXC[c] for c in cs)
        return M.MatchesException(exp, mk_matcher(vm, ctx) if vm is not None else None)
    if k == "Raises":
        return M.Raises(mk_matcher(m[1], ctx) if m[1] is not None else None)
    if k == "Not":
        return M.Not(mk_matcher(m[1], ctx))
    if k == "MatchesAll":
        return M.MatchesAll(*[mk_matcher(x, ctx) for x in m[2]], first_only=m[1])
    if k == "MatchesAny":
        return M.MatchesAny(*[mk_matcher(x, ctx) for x in m[1]])
    if k == "AllMatch":
        return M.AllMatch(mk_matcher(m[1], ctx))
    if k == "AnyMatch":
        return M.AnyMatch(mk_matcher(m[1], ctx))
    if k == "MatchesListwise":
        return M.MatchesListwise([mk_matcher(x, ctx) for x in m[2]], first_only=m[1])
    if k == "MatchesSetwise":
        sid, kids = m[1], m[2]
        perm = ctx.perms.get(sid) or list(range(len(kids)))
        objs = [None] * len(kids)
        for i in perm:                      # creation order; argument order stays the written one
            objs[i] = mk_matcher(kids[i], ctx)
        r = M.MatchesSetwise(*objs)
        order = [[j for j, o in enumerate(r.matchers) if o is x][0] for x in set(r.matchers)]
        ranks = [0] * len(kids)
        for pos, j in enumerate(order):
            ranks[j] = pos
        ctx.orders[sid] = ranks
        return r
    if k in ("MatchesDict", "ContainsDict", "ContainedByDict"):
        return getattr(M, k)({mk_val(kk, ctx): mk_matcher(x, ctx) for kk, x in m[1]})
    if k == "MatchesStructure":
        return M.MatchesStructure(**{attr_name(a): mk_matcher(x, ctx) for a, x in m[1]})
    if k == "AfterPreprocessing":
        return M.AfterPreprocessing(PP[m[1]], mk_matcher(m[3], ctx), annotate=m[2])
    if k == "Annotate":
        return M.Annotate(NOTES[m[1] % len(NOTES)], mk_matcher(m[2], ctx))
    raise ValueError(m)


def kids_of(m):
    """direct sub-matchers of a matcher in JSON form"""
    k = m[0]
    if k in ("Not", "AllMatch", "AnyMatch"):
        return [m[1]]
    if k == "Raises":
        return [m[1]] if m[1] is not None else []
    if k == "MatchesException":
        return [m[4]] if m[4] is not None else []
    if k in ("MatchesAll", "MatchesListwise", "MatchesSetwise"):
        return list(m[2])
    if k == "MatchesAny":
        return list(m[1])
    if k in ("MatchesDict", "ContainsDict", "ContainedByDict", "MatchesStructure"):
        return [x for _, x in m[1]]
    if k == "AfterPreprocessing":
        return [m[3]]
    if k == "Annotate":
        return [m[2]]
    return []


def walk(m):
    yield m
    for c in kids_of(m):
        yield from walk(c)


def depth(m):
    return 1 + max([depth(c) for c in kids_of(m)], default=-1)


def setwise_nodes(m):
    return [(x[1], len(x[2])) for x in walk(m) if x[0] == "MatchesSetwise"]


# ---------------------------------------------------------------------------
# snapshots (matching must not modify matcher or matchee)
# ---------------------------------------------------------------------------
def snap(x, seen=None):
    seen = set() if seen is None else seen
    if isinstance(x, (int, str, bytes, float, type(None))):
        return repr(x)
    if id(x) in seen:
        return "<cycle>"
    seen = seen | {id(x)}
    if isinstance(x, (list, tuple)):
        return [type(x).__name__] + [snap(e, seen) for e in x]
    if isinstance(x, dict):
        return ["dict"] + [[snap(kk, seen), snap(v, seen)] for kk, v in x.items()]
    if isinstance(x, (set, frozenset)):
        return ["set", len(x)]
    if isinstance(x, type):
        return x.__name__
    if isinstance(x, BaseException):
        return [type(x).__name__, snap(x.args, seen)]
    if isinstance(x, types.TracebackType):
        return "tb"
    if isinstance(x, (types.FunctionType, types.BuiltinFunctionType, types.MethodType)):
        cells = [c.cell_contents for c in (getattr(x, "__closure__", None) or ())]
        return ["fn", getattr(x, "__qualname__", "?")] + [snap(c, seen) for c in cells]
    if hasattr(x, "__dict__"):
        return [type(x).__name__] + [[kk, snap(v, seen)] for kk, v in vars(x).items()]
    return "<%s>" % type(x).__name__


def runs_for(case):
    """creation permutations of the children of every MatchesSetwise node: all joint permutations when there are
    at most 24, otherwise 24 drawn from a generator seeded by the case"""
    nodes = setwise_nodes(case["m"])
    if not nodes:
        return [{}]
    total = 1
    for _, n in nodes:
        for f in range(2, n + 1):
            total *= f
    if total <= 24:
        out = []
        for combo in itertools.product(*[list(itertools.permutations(range(n))) for _, n in nodes]):
            out.append({sid: list(p) for (sid, _), p in zip(nodes, combo)})
        return out
    rng = random.Random(zlib.crc32(json.dumps(case, sort_keys=True).encode()))
    out = [{sid: list(range(n)) for sid, n in nodes}, {sid: list(range(n))[::-1] for sid, n in nodes}]
    while len(out) < 24:
        out.append({sid: rng.sample(range(n), n) for sid, n in nodes})
    return out


def drive(case):
    ensure_scratch()
    cwd = os.getcwd()
    os.chdir(SCRATCH)
    try:
        runs, verdicts = [], []
        stable = True
        # MatchesSetwise iterates a set of matcher objects, i.e. in an order that follows their addresses.  Besides
        # every creation permutation, small cases are rebuilt (earlier constructions kept alive, so that the new
        # objects land elsewhere) until every iteration order has been observed or 16 extra attempts were made.
        nodes = setwise_nodes(case["m"])
        want = 1
        for _, n in nodes:
            for f in range(2, n + 1):
                want *= f
        queue = runs_for(case)
        rng = random.Random(zlib.crc32(json.dumps(case, sort_keys=True).encode()) ^ 0x5bd1e995) if nodes else None
        seen_orders, keep, extra = set(), [], 0
        while queue:
            perms = queue.pop(0)
            ctx = Ctx(perms, case.get("leafdefs", ()))
            m = mk_matcher(case["m"], ctx)
            v = mk_val(case["v"], ctx)
            keep.append((m, v))
            before = (snap(m), snap(v))
            res = []
            for _ in range(2):
                try:
                    r = m.match(v)
                    res.append("M" if r is None else "X")
                except BaseException as e:     # noqa - Raises lets non-Exception errors through
                    if type(e) in EXC and not isinstance(e, Exception) and case["m"][0] == "Raises":
                        res.append(["P", EXC.index(type(e))])
                    else:
                        raise
            after = (snap(m), snap(v))
            stable = stable and res[0] == res[1] and before == after
            order = sorted([sid, ranks] for sid, ranks in ctx.orders.items())
            key = json.dumps(order)
            if extra == 0 or key not in seen_orders:
                verdicts.append(res[0])
                runs.append(order)
            seen_orders.add(key)
            if not queue and 1 < want <= 6 and len(seen_orders) < want and extra < 16:
                extra += 1
                queue.append({sid: rng.sample(range(n), n) for sid, n in nodes})
        return {"runs": runs, "verdicts": verdicts, "stable": stable}
    finally:
        os.chdir(cwd)


# ---------------------------------------------------------------------------
# Gallina
# ---------------------------------------------------------------------------
def t_str(cps):
    cps = list(cps)
    if all(c < 5000 for c in cps):
        return "(sn %s)" % q.lst([str(c) for c in cps])
    return q.lst([q.N(c) for c in cps])


def key_norm(k):
    """the dict key a JSON key denotes: 1, True and 1.0 are one key (they are == and hash alike)"""
    if k[0] == "s":
        return ("s", k[1])
    if k[0] == "i":
        return ("i", k[1])
    if k[0] == "t":
        return ("i", 1 if k[1] else 0)
    if k[0] == "f" and k[1] % 2 == 0:
        return ("i", k[1] // 2)
    raise ValueError("not a modelled dict key: %r" % (k,))


def dict_items(pairs):
    """what a Python dict built from these (key, x) pairs holds: one entry per key, at the position of the key's
    first occurrence, with the last x given for it"""
    pos, out = {}, []
    for kk, x in pairs:
        n = key_norm(kk)
        if n in pos:
            out[pos[n]] = (n, x)
        else:
            pos[n] = len(out)
            out.append((n, x))
    return out


def t_nkey(n):
    return "(KInt %s)" % q.Z(n[1]) if n[0] == "i" else "(KStr %s)" % t_str(map(ord, n[1]))


def t_key(k):
    return t_nkey(key_norm(k))


def t_val(v):
    k = v[0]
    if k == "i":
        return "(VInt %s)" % q.Z(v[1])
    if k == "t":
        return "(VBool %s)" % q.boolean(bool(v[1]))
    if k == "f":
        return "(VFloat %s)" % q.Z(v[1])
    if k == "s":
        return "(VStr %s)" % t_str(map(ord, v[1]))
    if k == "b":
        return "(VBytes %s)" % t_str(v[1])
    if k == "n":
        return "VNone"
    if k == "z":
        return "(VSet %s)" % q.lst([q.Z(x) for x in sorted(set(v[1]))])
    if k == "l":
        return "(VList %s)" % q.lst([t_val(x) for x in v[1]])
    if k == "d":
        return "(VDict %s)" % q.lst([q.pair(t_nkey(n), t_val(x)) for n, x in dict_items(v[1])])
    if k == "r":
        return "(VRec %s %s)" % (q.nat(v[1]), q.lst([q.pair(q.nat(a), t_val(x)) for a, x in v[2]]))
    if k == "x":
        return "(VExc %s %s)" % (q.nat(v[1]), q.lst([t_val(x) for x in v[2]]))
    if k == "ret":
        return "(VRet %s)" % t_val(v[1])
    if k == "raise":
        return "(VRaise %s %s)" % (q.nat(v[1]), q.lst([t_val(x) for x in v[2]]))
    raise ValueError(v)


def t_ty(t):
    if isinstance(t, list):
        return "(TExc %s)" % q.nat(t[1])
    return {"int": "TInt", "bool": "TBool", "float": "TFloat", "set": "TSet", "str": "TStr", "bytes": "TBytes", "none": "TNone", "list": "TList", "dict": "TDict",
            "rec": "TRec", "object": "TObject", "tuple": "TTuple", "func": "TFunc"}[t]


def t_m(m):
    k = m[0]
    if k in ("Equals", "NotEquals", "Is", "LessThan", "GreaterThan", "Contains", "StartsWith", "EndsWith"):
        return "(%s %s)" % (k, t_val(m[1]))
    if k == "HasLength":
        return "(HasLength %s)" % q.Z(m[1])
    if k == "IsInstance":
        return "(IsInstance %s)" % q.lst([t_ty(t) for t in m[1]])
    if k == "SameMembers":
        return "(SameMembers %s)" % q.lst([t_val(x) for x in m[1]])
    if k == "KeysEqual":
        return "(KeysEqual %s)" % q.lst([t_key(x) for x in m[1]])
    if k in ("Always", "Never"):
        return k
    if k == "Leaf":
        return "(Leaf %s)" % q.nat(m[1])
    if k == "MatchesException":
        return "(MatchesException %s %s %s %s)" % (q.boolean(m[1]), q.lst([q.nat(c) for c in m[2]]),
                                                   q.lst([t_val(x) for x in m[3]]), q.option(m[4], t_m))
    if k == "Raises":
        return "(Raises %s)" % q.option(m[1], t_m)
    if k in ("Not", "AllMatch", "AnyMatch"):
        return "(%s %s)" % (k, t_m(m[1]))
    if k in ("MatchesAll", "MatchesListwise"):
        return "(%s %s %s)" % (k, q.boolean(m[1]), q.lst([t_m(x) for x in m[2]]))
    if k == "MatchesAny":
        return "(MatchesAny %s)" % q.lst([t_m(x) for x in m[1]])
    if k == "MatchesSetwise":
        return "(MatchesSetwise %s %s)" % (q.nat(m[1]), q.lst([t_m(x) for x in m[2]]))
    if k in ("MatchesDict", "ContainsDict", "ContainedByDict"):
        return "(%s %s)" % (k, q.lst([q.pair(t_nkey(n), t_m(x)) for n, x in dict_items(m[1])]))
    if k == "MatchesStructure":
        return "(MatchesStructure %s)" % q.lst([q.pair(q.nat(a), t_m(x)) for a, x in m[1]])
    if k == "AfterPreprocessing":
        return "(AfterPreprocessing %s %s %s)" % (q.nat(m[1]), q.boolean(m[2]), t_m(m[3]))
    if k == "Annotate":
        return "(Annotate %s %s)" % (q.nat(m[1]), t_m(m[2]))
    raise ValueError(m)


def t_ov(x):
    if x == "M":
        return "Matched"
    if x == "X":
        return "Mismatched"
    return "(Propagated %s)" % q.nat(x[1])


def term(case, o):
    i = q.record([("i_m", t_m(case["m"])), ("i_v", t_val(case["v"])),
                  ("i_accept", q.lst([q.lst([t_str(map(ord, s)) for s in acc]) for acc in case.get("accept", [])])),
                  ("i_runs", q.lst([q.lst([q.pair(q.nat(sid), q.lst([q.nat(r) for r in ranks]))
                                           for sid, ranks in run]) for run in o["runs"]]))])
    ob = q.record([("verdicts", q.lst([t_ov(x) for x in o["verdicts"]])), ("stable", q.boolean(o["stable"]))])
    return q.pair(i, ob)


def perturb(case, o):
    # an observation no run of the model can produce (no generated callable raises class 99), so the canary is
    # flagged even when the implementation's own verdict on this case is already the wrong one
    o = dict(o)
    v = list(o["verdicts"])
    v[0] = ["P", 99]
    o["verdicts"] = v
    return o


def nontrivial(case):
    return depth(case["m"]) >= 1


from .gen_c06 import generate, shrink, distribution   # noqa: E402  (generators live in their own file)
