"""C19 - suite utilities preserve the test set (testsuite.py, run.py)."""
import itertools
import os
import subprocess
import sys
import tempfile
import unittest

from .. import coqio as q

PROP = "C19"
CORR = "Corr.C19"
REQUIRES = ["Model.Suites", "Spec.C19"]
PROOF_FILES = ["Proof/C19.v", "Lib/Sort.v"]
MANIFEST = {
    "text": "Coq theorems over all suite trees (structural induction on the nested tree; Permutation/Sorted for the "
            "sort; ValueError iff duplicate ids) about a hand-written Gallina model of iterate_tests/filter_by_ids/"
            "sorted_tests/list_test, tied to /repo on every run by differential execution of model and implementation "
            "inside coqc; the oracle for a failing input is the executable statement spec_okb, proved to imply the "
            "readable Spec.",
    "note": "Trusted: Coq kernel + vm_compute; the harness (generators, drivers, Gallina printer); unittest.TestSuite "
            "iteration; ids mapped to numbers order-preservingly. All theorems closed under the global context.",
    "technique": "Coq proof (structural induction, Permutation/Sorted) + model/implementation correspondence in coqc",
    "ref": "6 C19",
}
RULE = ("suite trees over Case/Plain/Custom(sort?,filter?) with ids from a small pool: exhaustive for small "
        "shapes, random to depth 4 / fan-out 4; each with a keep-set (incl. absent ids) and unpack_outer flag; "
        "non-trivial = at least one custom or nested suite and at least two leaves; distinct = distinct JSON")
TRUSTED = ["unittest.TestSuite iteration and __eq__, PlaceHolder/TestCase.id() are used as they are (not modelled "
           "beyond 'iteration yields the members in order')"]
ASSUMPTIONS = ["test ids are mapped to numbers by zero-padded names so that string order equals numeric order",
               "custom suites' own sort_tests/filter_by_ids follow the documented protocol (FixtureSuite's sort_tests; "
               "a filter_by_ids that rebuilds the suite from the filtered members)"]
EXPLANATION = ("Theorems in coq/Props/C19.v over all suite trees; correspondence: iterate_tests, filter_by_ids, "
               "sorted_tests, list_test of the working tree against coq/Model/Suites.v on generated trees, plus "
               "python -m testtools.run --list/--load-list samples.")


def name(i):
    return "t%03d" % i


# ---------------- building real suites ----------------
def _classes():
    import testtools
    from testtools.testsuite import filter_by_ids, sorted_tests

    class Custom(unittest.TestSuite):
        pass

    class SortS(unittest.TestSuite):
        def sort_tests(self):
            self._tests = sorted_tests(self, True)

    class FiltS(unittest.TestSuite):
        def filter_by_ids(self, ids):
            return type(self)([filter_by_ids(t, ids) for t in self])

    class SortFiltS(SortS, FiltS):
        pass

    class T(testtools.TestCase):
        def __init__(self, i):
            super().__init__("test_x")
            self._i = i

        def id(self):
            return self._i

        def test_x(self):
            pass

    return {(False, False): Custom, (True, False): SortS, (False, True): FiltS, (True, True): SortFiltS}, T


def build(tree, classes, T):
    import testtools
    k = tree[0]
    if k == "C":
        i = tree[1]
        return testtools.PlaceHolder(name(i)) if i % 2 == 0 else T(name(i))
    if k == "P":
        return unittest.TestSuite([build(c, classes, T) for c in tree[1]])
    return classes[(tree[1], tree[2])]([build(c, classes, T) for c in tree[3]])


def walk(x, pre=()):
    """(path, id) of every leaf, by position; the harness's own traversal."""
    try:
        it = iter(x)
    except TypeError:
        return [(list(pre), int(x.id()[1:]))]
    out = []
    for k, c in enumerate(it):
        out += walk(c, pre + (k,))
    return out


def drive(case):
    from testtools.testsuite import filter_by_ids, iterate_tests, sorted_tests
    from testtools.run import list_test
    classes, T = _classes()
    tree = case["tree"]
    o = {}
    o["iter"] = [int(t.id()[1:]) for t in iterate_tests(build(tree, classes, T))]
    r = filter_by_ids(build(tree, classes, T), set(name(i) for i in case["keep"]))
    o["filter"] = walk(r)
    try:
        r = sorted_tests(build(tree, classes, T), case["unpack"])
        members = []
        for m in r:
            is_case = False
            try:
                iter(m)
            except TypeError:
                is_case = True
            members.append([is_case, [i for _, i in walk(m)]])
        o["sorted"] = {"ok": members}
    except ValueError:
        o["sorted"] = {"raised": "ValueError"}
    except TypeError:
        o["sorted"] = {"raised": "TypeError"}
    o["list"] = [int(i[1:]) for i in list_test(build(tree, classes, T))[0]]
    return o


# ---------------- Gallina ----------------
def t_tree(t):
    if t[0] == "C":
        return "(Case %s)" % q.nat(t[1])
    if t[0] == "P":
        return "(Plain %s)" % q.lst([t_tree(c) for c in t[1]])
    return "(Custom %s %s %s)" % (q.boolean(t[1]), q.boolean(t[2]), q.lst([t_tree(c) for c in t[3]]))


def term(case, o):
    i = q.record([("tree", t_tree(case["tree"])), ("keep", q.lst([q.nat(k) for k in case["keep"]])),
                  ("unpack", q.boolean(case["unpack"]))])
    if "ok" in o["sorted"]:
        s = "(Ok %s)" % q.lst([q.pair(q.boolean(m[0]), q.lst([q.nat(x) for x in m[1]])) for m in o["sorted"]["ok"]])
    else:
        s = "(Raised %s)" % o["sorted"]["raised"]
    ob = q.record([("o_iter", q.lst([q.nat(x) for x in o["iter"]])),
                   ("o_filter", q.lst([q.pair(q.lst([q.nat(p) for p in path]), q.nat(i)) for path, i in o["filter"]])),
                   ("o_sorted", s),
                   ("o_list", q.lst([q.nat(x) for x in o["list"]]))])
    return q.pair(i, ob)


def perturb(case, o):
    o = dict(o)
    o["iter"] = list(o["iter"]) + [77]
    return o


# ---------------- generation ----------------
def leaves(t):
    if t[0] == "C":
        return [t[1]]
    return [x for c in (t[1] if t[0] == "P" else t[3]) for x in leaves(c)]


def depth(t):
    if t[0] == "C":
        return 0
    kids = t[1] if t[0] == "P" else t[3]
    return 1 + max([depth(c) for c in kids], default=0)


def nontrivial(case):
    t = case["tree"]
    return depth(t) >= 2 and len(leaves(t)) >= 2 or ('"U"' in __import__("json").dumps(t) and len(leaves(t)) >= 2)


def rand_tree(rng, d, pool, fan=4):
    if d == 0 or rng.random() < 0.35:
        return ["C", pool.pop() if pool and rng.random() < 0.9 else rng.randint(1, 9)]
    n = rng.choice([0, 1, 2, 2, 3, 3, fan])
    kids = [rand_tree(rng, d - 1, pool, fan) for _ in range(n)]
    if rng.random() < 0.5:
        return ["P", kids]
    return ["U", rng.random() < 0.5, rng.random() < 0.3, kids]


def small_trees():
    """every tree with root suite, depth <= 2, fan-out <= 2 over distinct ids handed out left to right, plus
    variants with one duplicated id"""
    kinds = [("P",), ("U", False, False), ("U", True, False)]

    def mk(kind, kids):
        return ["P", kids] if kind[0] == "P" else ["U", kind[1], kind[2], kids]
    level1 = [["C", 0]]
    for kind in kinds:
        for n in range(0, 3):
            level1.append(mk(kind, [["C", 0]] * n))
    out = []
    for kind in kinds:
        for n in range(0, 3):
            for kids in itertools.product(level1, repeat=n):
                out.append(mk(kind, [list(k) if k[0] == "C" else k for k in kids]))
    return out


def relabel(t, ids):
    """hand out ids from the iterator to the leaves, left to right"""
    if t[0] == "C":
        return ["C", next(ids)]
    if t[0] == "P":
        return ["P", [relabel(c, ids) for c in t[1]]]
    return ["U", t[1], t[2], [relabel(c, ids) for c in t[3]]]


def generate(rng, tier):
    cases = []
    # corner cases that matter (F8 region, duplicates deep in the tree, root is a case)
    fixed = [
        {"tree": ["C", 3], "keep": [3], "unpack": False},
        {"tree": ["C", 3], "keep": [], "unpack": True},
        {"tree": ["P", [["C", 2], ["U", False, False, []]]], "keep": [2], "unpack": False},
        {"tree": ["P", [["U", False, False, []], ["C", 2], ["U", True, False, []]]], "keep": [2], "unpack": False},
        {"tree": ["P", [["C", 5], ["P", [["U", False, False, [["C", 4], ["C", 5]]]]]]], "keep": [5], "unpack": False},
        {"tree": ["U", True, False, [["C", 9], ["U", False, False, [["C", 7], ["C", 1]]], ["P", [["C", 3]]]]],
         "keep": [1, 3], "unpack": True},
    ]
    cases += fixed
    shapes = small_trees()
    perms = [[1, 2, 3, 4, 5, 6], [6, 5, 4, 3, 2, 1], [3, 1, 4, 2, 6, 5], [2, 2, 1, 3, 3, 4], [5, 1, 1, 1, 2, 2]]
    want = 1500 if tier == "quick" else 12000
    stride = max(1, len(shapes) * len(perms) // want)
    k = 0
    for s in shapes:
        for p in perms:
            k += 1
            if k % stride:
                continue
            t = relabel(s, iter(p + [7, 8, 9] * 3))
            ls = leaves(t)
            keep = sorted(set(x for x in ls if rng.random() < 0.5) | ({0} if rng.random() < 0.3 else set()))
            cases.append({"tree": t, "keep": keep, "unpack": rng.random() < 0.25})
    n_rand = 1500 if tier == "quick" else 30000
    for _ in range(n_rand):
        pool = list(range(1, 13))
        rng.shuffle(pool)
        if rng.random() < 0.2:
            pool = pool[:4] * 3    # duplicates likely
            rng.shuffle(pool)
        t = rand_tree(rng, rng.choice([1, 2, 3, 4]), pool)
        ls = leaves(t)
        keep = sorted(set(x for x in ls if rng.random() < 0.5) | ({0} if rng.random() < 0.3 else set()))
        cases.append({"tree": t, "keep": keep, "unpack": rng.random() < 0.25})
    return cases


def shrink(case):
    t = case["tree"]

    def subs(t):
        """one-step reductions of a tree"""
        if t[0] == "C":
            if t[1] > 1:
                yield ["C", t[1] - 1]
            return
        kids = t[1] if t[0] == "P" else t[3]

        def re(k):
            return ["P", k] if t[0] == "P" else ["U", t[1], t[2], k]
        for c in kids:
            yield c
        for i in range(len(kids)):
            yield re(kids[:i] + kids[i + 1:])
        if t[0] == "U":
            yield ["P", kids]
            if t[1]:
                yield ["U", False, t[2], kids]
            if t[2]:
                yield ["U", t[1], False, kids]
        for i, c in enumerate(kids):
            for s in subs(c):
                yield re(kids[:i] + [s] + kids[i + 1:])
    for s in subs(t):
        yield {"tree": s, "keep": [k for k in case["keep"] if k in leaves(s) or k == 0], "unpack": case["unpack"]}
    for i in range(len(case["keep"])):
        yield {"tree": t, "keep": case["keep"][:i] + case["keep"][i + 1:], "unpack": case["unpack"]}
    if case["unpack"]:
        yield {"tree": t, "keep": case["keep"], "unpack": False}


def distribution(cases):
    d = {"depth": {}, "leaves": {}, "with_duplicates": 0, "with_custom": 0, "with_empty_custom": 0, "unpack_outer": 0}
    import json
    for c in cases:
        t = c["tree"]
        ls = leaves(t)
        d["depth"][depth(t)] = d["depth"].get(depth(t), 0) + 1
        b = min(len(ls), 8)
        d["leaves"][b] = d["leaves"].get(b, 0) + 1
        d["with_duplicates"] += len(set(ls)) != len(ls)
        s = json.dumps(t)
        d["with_custom"] += '"U"' in s
        d["with_empty_custom"] += ', []]' in s and '"U"' in s
        d["unpack_outer"] += c["unpack"]
    return d


# ---------------- command-line glue samples ----------------
MODULE = '''
import os, unittest, testtools
LOG = os.environ.get("VCHECK_LOG")
def mk(i):
    class T(testtools.TestCase):
        def id(self): return "t%%03d" %% i
        def test_x(self):
            if LOG: open(LOG, "a").write("t%%03d\\n" %% i)
    return T("test_x")
class Custom(unittest.TestSuite): pass
def build(t):
    if t[0] == "C": return mk(t[1])
    if t[0] == "P": return unittest.TestSuite([build(c) for c in t[1]])
    return Custom([build(c) for c in t[3]])
TREE = %r
def test_suite(): return build(TREE)
'''


def extra_checks(tier, rng):
    n = 4 if tier == "quick" else 40
    out = []
    repo = os.environ.get("VERIF_REPO", "/repo")
    root = os.path.dirname(os.path.dirname(os.path.dirname(os.path.dirname(os.path.abspath(__file__)))))
    for k in range(n):
        pool = list(range(1, 13))
        rng.shuffle(pool)
        t = ["P", [rand_tree(rng, 3, pool) for _ in range(rng.randint(1, 3))]]
        # no custom sort/filter flags here: Custom is a plain subclass in the generated module
        ls = leaves(t)
        if len(set(ls)) != len(ls):
            continue
        keep = [x for x in ls if rng.random() < 0.5]
        d = tempfile.mkdtemp(prefix="c19cli", dir=os.path.join(root, ".work"))
        try:
            with open(os.path.join(d, "vc19mod.py"), "w") as f:
                f.write(MODULE % (t,))
            env = dict(os.environ, PYTHONPATH=repo + os.pathsep + d)
            p = subprocess.run([sys.executable, "-m", "testtools.run", "--list", "vc19mod.test_suite"],
                               capture_output=True, text=True, env=env, cwd=d, timeout=120)
            listed = p.stdout.split()
            ok1 = listed == [name(i) for i in ls] and p.returncode == 0
            lst = os.path.join(d, "ids.txt")
            with open(lst, "w") as f:
                f.write("".join(name(i) + "\n" for i in sorted(keep)) + "absent\n")
            log = os.path.join(d, "ran.txt")
            env["VCHECK_LOG"] = log
            p2 = subprocess.run([sys.executable, "-m", "testtools.run", "--load-list", lst, "vc19mod.test_suite"],
                                capture_output=True, text=True, env=env, cwd=d, timeout=120)
            ran = open(log).read().split() if os.path.exists(log) else []
            ok2 = sorted(ran) == sorted(name(i) for i in keep) and len(ran) == len(keep) and p2.returncode == 0
            out.append({"ok": ok1 and ok2, "tree": t, "keep": keep, "listed": listed, "ran": ran,
                        "rc": [p.returncode, p2.returncode], "stderr": (p.stderr + p2.stderr)[-300:]})
        finally:
            import shutil
            shutil.rmtree(d, ignore_errors=True)
    return out
