"""C19 - suite utilities preserve the test set (testsuite.py, run.py)."""
import io
import itertools
import json
import os
import subprocess
import sys
import tempfile
import types
import unittest

from .. import coqio as q

PROP = "C19"
CORR = "Corr.C19"
REQUIRES = ["Model.Suites", "Spec.C19"]
PROOF_FILES = ["Proof/C19.v", "Lib/Sort.v"]
MANIFEST = {
    "text": "Coq theorems over all suite trees (structural induction on the nested tree; Permutation/Sorted for the "
            "sort; ValueError iff duplicate ids) about a hand-written Gallina model of iterate_tests/filter_by_ids/"
            "sorted_tests/list_test and of the --load-list file reader (binary readlines + strip: one id per line, blanks "
            "inside an id separate nothing; induction over the file's bytes), tied to /repo on every run by differential execution of model and implementation "
            "inside coqc; the oracle for a failing input is the executable statement spec_okb, proved to imply the "
            "readable Spec.",
    "note": "Trusted: Coq kernel + vm_compute; the harness (generators, drivers, Gallina printer); unittest.TestSuite "
            "iteration; ids mapped to numbers order-preservingly through a per-case table of names (UTF-8 bytes in the "
            "model); argparse/unittest loader glue of testtools.run. All theorems closed under the global context.",
    "technique": "Coq proof (structural induction, Permutation/Sorted) + model/implementation correspondence in coqc",
    "ref": "6 C19",
}
RULE = ("suite trees over Case/Plain/Custom(sort?,filter?) with ids from a small pool: exhaustive for small "
        "shapes, random to depth 4 / fan-out 4; each with a keep-set (incl. absent ids) and unpack_outer flag; "
        "test ids are drawn from alphabets with spaces, tabs, parentheses, brackets, dots, non-ASCII text and ids "
        "that are first tokens / prefixes of other ids; each case has a --load-list file (listed, absent and "
        "two-ids-on-a-line lines, blank lines, surrounding blanks, LF/CRLF, with/without final newline) that goes "
        "through testtools.run --list / --load-list / both, in-process for every case and in a subprocess for a sample; "
        "non-trivial = at least one custom or nested suite and at least two leaves; distinct = distinct JSON")
TRUSTED = ["unittest.TestSuite iteration and __eq__, PlaceHolder/TestCase.id() are used as they are (not modelled "
           "beyond 'iteration yields the members in order')"]
ASSUMPTIONS = ["test ids are mapped to numbers through a per-case table of names sorted by code point, so that string "
               "order equals numeric order; names are non-empty, contain no line feed and have no ASCII whitespace at "
               "either end (such an id cannot be written on a line of a list file); list files are valid UTF-8",
               "custom suites' own sort_tests/filter_by_ids follow the documented protocol (FixtureSuite's sort_tests; "
               "a filter_by_ids that rebuilds the suite from the filtered members - the rebuilt suite stands for the "
               "original one and inherits its label)",
               "grouping after filter_by_ids is observed as the chain of suite objects of the input tree that enclose "
               "each surviving test (every suite object built from the input carries a label; unlabelled suites such "
               "as placeholders for removed tests, and the index of a test's slot, are not looked at)"]
EXPLANATION = ("Theorems in coq/Props/C19.v over all suite trees; correspondence: iterate_tests, filter_by_ids, "
               "sorted_tests, list_test and testtools.run.main --list/--load-list (with a generated list file) of the "
               "working tree against coq/Model/Suites.v on generated trees, a sample of them through "
               "python -m testtools.run in a subprocess, plus --list | --load-list round trips.")


PLAIN = ["t%03d" % i for i in range(13)]
# id alphabets: testscenarios-like ids, ids that are the first token / a fragment / a prefix of another id,
# blanks and tabs inside, brackets, quotes, non-ASCII (NFC and NFD spellings, no-break space, CJK, astral)
POOLS = {
    "scenario": ["m.C.test_io", "m.C.test_io (fast disk)", "m.C.test_io (slow disk)", "(slow", "(fast", "disk)",
                 "m.C.test_io(fast", "m.C.test_net", "m.C.test_net(ipv6 only)", "m.C.test_net(ipv6", "only)",
                 "m.D.test_a", "m.D.test_a[0]", "m.D.test_a[0 1]", "m.D.test_a [x, y]", "[x,", "y]", "m.D.test_b\tq",
                 "m.D.test_b", "q", "m.C.test_io (fast disk) (again)", "(again)", "m.C.test_io  (fast disk)"],
    "short": ["a", "b", "c", "a b", "a  b", "a b c", "b c", "a\tb", "a.b", "a (b)", "(b)", "a[b]", "a:b", "a,b",
              '"a b"', '"a', 'b"', "'a'", "a-b", "a/b", "a\\b", "#a", "a #b", "b a", "a b.c", "a."],
    "unicode": ["m.\u00c9.t\u00e9st", "m.E\u0301.te\u0301st", "m.C.t\u00a0x", "m.C.t", "x", "m.C.t\u00a0(y)",
                "\u65e5\u672c\u8a9e.\u30c6\u30b9\u30c8", "\u65e5\u672c\u8a9e.\u30c6\u30b9\u30c8 (\u305d\u306e 1)",
                "(\u305d\u306e", "1)", "t\U0001f4a5", "t\U0001f4a5 x", "na\u00efve caf\u00e9", "na\u00efve", "caf\u00e9",
                "a\u2003b", "a\u3000b", "\u00e9", "e\u0301", "\u0394 \u03b4", "\u0394"],
}
POOLS["mixed"] = sorted(set(POOLS["scenario"] + POOLS["short"] + POOLS["unicode"]))
WS = " \t\n\r\x0b\x0c"


def norm(case):
    """cases recorded before the list-file extension have no names/file: plain ids, empty file"""
    if "names" in case and "file" in case:
        return case
    return dict(case, names=case.get("names", list(PLAIN)), file=case.get("file", ""))


def name_ok(n):
    return bool(n) and "\n" not in n and n[0] not in WS and n[-1] not in WS


def pick_names(rng):
    """13 names in code-point order (test number i has id names[i])"""
    k = rng.random()
    if k < 0.2:
        return list(PLAIN)
    pool = POOLS["scenario" if k < 0.45 else "short" if k < 0.65 else "unicode" if k < 0.8 else "mixed"]
    return sorted(rng.sample(pool, 13))


def make_file(rng, names, ls):
    """text of a --load-list file for a suite whose leaves are numbered ls"""
    present = sorted(set(ls))
    p = rng.choice([0.0, 0.3, 0.5, 0.5, 0.8, 1.0])
    lines = [names[i] for i in present if rng.random() < p]
    for i in range(len(names)):
        if i not in present and rng.random() < 0.12:
            lines.append(names[i])                                  # an id that is not in the suite
    if len(present) >= 2 and rng.random() < 0.35:                   # two ids on one line: lists neither
        a, b = rng.sample(present, 2)
        lines.append(names[a] + rng.choice([" ", "\t", "  ", " , "]) + names[b])
    if lines and rng.random() < 0.3:                                # a fragment of a listed line
        toks = rng.choice(lines).split()
        lines.append(rng.choice(toks))
    if present and rng.random() < 0.2:                              # a proper prefix / extension of an id
        n = names[rng.choice(present)]
        lines.append(n[:max(1, len(n) // 2)].rstrip(WS) or n if rng.random() < 0.5 else n + rng.choice(["x", " x", "."]))
    if lines and rng.random() < 0.2:
        lines.append(rng.choice(lines))                             # a duplicate line
    for _ in range(rng.choice([0, 0, 0, 1, 2])):
        lines.append(rng.choice(["", "", " ", "\t", "  \t "]))       # blank lines
    rng.shuffle(lines)
    crlf = rng.random() < 0.2
    deco = rng.random() < 0.4
    out = []
    for ln in lines:
        if deco and ln.strip(WS):
            ln = rng.choice(["", "", " ", "\t", "   "]) + ln + rng.choice(["", "", " ", "\t", " \t"])
        out.append(ln + ("\r\n" if crlf or rng.random() < 0.05 else "\n"))
    text = "".join(out)
    if text and rng.random() < 0.3:
        text = text[:-2] if text.endswith("\r\n") else text[:-1]    # no final newline
    return text


# ---------------- building real suites ----------------
def _classes():
    import testtools
    from testtools.testsuite import filter_by_ids, sorted_tests

    class Custom(unittest.TestSuite):
        pass

    class SortS(unittest.TestSuite):
        def sort_tests(self):
            self._tests = sorted_tests(self, True)

    class FiltS(unittest.TestSuite):
        def filter_by_ids(self, ids):
            r = type(self)([filter_by_ids(t, ids) for t in self])
            if hasattr(self, LABEL):
                setattr(r, LABEL, getattr(self, LABEL))     # the rebuilt suite stands for this one
            return r

    class SortFiltS(SortS, FiltS):
        pass

    class T(testtools.TestCase):
        """a test case with a free-form id (as testscenarios / parameterised tests produce)"""
        def __init__(self, i, log=None):
            super().__init__("test_x")
            self._i = i
            self._log = log

        def id(self):
            return self._i

        def test_x(self):
            if self._log is not None:
                self._log(self._i)

    class P(testtools.PlaceHolder):
        def __init__(self, i, log=None):
            super().__init__(i)
            self._log = log

        def run(self, result=None):
            if self._log is not None:
                self._log(self.id())
            return super().run(result)

    return {(False, False): Custom, (True, False): SortS, (False, True): FiltS, (True, True): SortFiltS,
            "P": P}, T


LABEL = "_vc19_label"     # every suite object built from the input tree carries its position path in that tree


def build(tree, classes, T, names, log=None, pre=()):
    k = tree[0]
    if k == "C":
        i = tree[1]
        return classes["P"](names[i], log) if i % 2 == 0 else T(names[i], log)
    kids = tree[1] if k == "P" else tree[3]
    members = [build(c, classes, T, names, log, pre + (j,)) for j, c in enumerate(kids)]
    s = unittest.TestSuite(members) if k == "P" else classes[(tree[1], tree[2])](members)
    setattr(s, LABEL, list(pre))
    return s


UNKNOWN = 999     # an id that is not in the case's table of names


def number(names, s):
    return names.index(s) if s in names else UNKNOWN


def walk(x, names, chain=()):
    """(labels of the enclosing suites of the input tree, outermost first; id) of every leaf in iteration order;
    the harness's own traversal.  Suites without a label (placeholders made by filtering, wrappers) enclose
    nothing by themselves; a suite without any leaf beneath it contributes nothing; the index of a leaf's slot
    is not looked at."""
    try:
        it = iter(x)
    except TypeError:
        return [([list(c) for c in chain], number(names, x.id()))]
    lab = getattr(x, LABEL, None)
    if lab is not None:
        chain = chain + (tuple(lab),)
    out = []
    for c in it:
        out += walk(c, names, chain)
    return out


# ---------------- the command line: testtools.run --list / --load-list ----------------
def cli_suite(case, log):
    """what the generated module's test_suite() returns (the loader insists on a TestSuite/TestCase)"""
    classes, T = _classes()
    t = build(case["tree"], classes, T, case["names"], log)
    return unittest.TestSuite([t]) if case["tree"][0] == "C" else t


def _lines(text):
    ls = text.split("\n")
    assert ls[-1] == "", "output does not end with a newline: %r" % text[-40:]
    return ls[:-1]


def cli_inproc(case):
    from testtools import run
    names = case["names"]
    ran = []
    mod = types.ModuleType("vc19mod")
    mod.test_suite = lambda: cli_suite(case, ran.append)
    sys.modules["vc19mod"] = mod
    fd, path = tempfile.mkstemp(prefix="c19list")
    try:
        with os.fdopen(fd, "wb") as f:
            f.write(case["file"].encode("utf-8"))
        res = []
        for args in (["--list"], ["--load-list", path], ["--list", "--load-list", path]):
            out = io.StringIO()
            del ran[:]
            try:
                run.main(["prog"] + args + ["vc19mod.test_suite"], out)
                rc = 0
            except SystemExit as e:
                rc = int(e.code or 0)
            if rc != 0:
                raise RuntimeError("testtools.run %s exits with %r: %s" % (args[:-1], rc, out.getvalue()[-200:]))
            res.append((out.getvalue(), list(ran)))
    finally:
        os.unlink(path)
        sys.modules.pop("vc19mod", None)
    assert res[0][1] == [] and res[2][1] == [], "--list executed tests"
    return {"cli_list": [number(names, s) for s in _lines(res[0][0])],
            "cli_run": [number(names, s) for s in res[1][1]],
            "cli_both": [number(names, s) for s in _lines(res[2][0])]}


SUBMODULE = '''# generated by vcheck.props.c19
import json, os
from vcheck.props import c19
CASE = json.loads(%r)
def _log(i):
    with open(os.environ["VCHECK_LOG"], "ab") as f:
        f.write(i.encode("utf-8") + b"\\n")
def test_suite():
    return c19.cli_suite(CASE, _log if os.environ.get("VCHECK_LOG") else None)
'''


def cli_subprocess(case):
    names = case["names"]
    repo = os.environ.get("VERIF_REPO", "/repo")
    harness = os.path.dirname(os.path.dirname(os.path.dirname(os.path.abspath(__file__))))
    d = tempfile.mkdtemp(prefix="c19cli")
    try:
        with open(os.path.join(d, "vc19sub.py"), "w", encoding="utf-8") as f:
            f.write(SUBMODULE % json.dumps({"tree": case["tree"], "names": names}))
        lst = os.path.join(d, "ids.txt")
        with open(lst, "wb") as f:
            f.write(case["file"].encode("utf-8"))
        log = os.path.join(d, "ran.txt")
        env = dict(os.environ, PYTHONPATH=os.pathsep.join([repo, d, harness]), PYTHONIOENCODING="utf-8",
                   PYTHONDONTWRITEBYTECODE="1")
        env.pop("VCHECK_LOG", None)
        res = []
        for args in (["--list"], ["--load-list", lst], ["--list", "--load-list", lst]):
            e = dict(env)
            if args[0] != "--list":
                e["VCHECK_LOG"] = log
                open(log, "wb").close()
            p = subprocess.run([sys.executable, "-m", "testtools.run"] + args + ["vc19sub.test_suite"],
                               capture_output=True, env=e, cwd=d, timeout=120)
            if p.returncode != 0:
                raise RuntimeError("python -m testtools.run %s exits with %r: %s"
                                   % (args[0], p.returncode, p.stderr.decode("utf-8", "replace")[-300:]))
            res.append(p.stdout.decode("utf-8"))
        ran = _lines(open(log, "rb").read().decode("utf-8"))
    finally:
        import shutil
        shutil.rmtree(d, ignore_errors=True)
    return {"cli_list": [number(names, s) for s in _lines(res[0])],
            "cli_run": [number(names, s) for s in ran],
            "cli_both": [number(names, s) for s in _lines(res[2])]}


def drive(case):
    case = norm(case)
    from testtools.testsuite import filter_by_ids, iterate_tests, sorted_tests
    from testtools.run import list_test
    classes, T = _classes()
    tree = case["tree"]
    names = case["names"]
    g = globals()

    def build(t, c, T_):
        return g["build"](t, c, T_, names)

    def walk(x):
        return g["walk"](x, names)
    o = {}
    o["iter"] = [number(names, t.id()) for t in iterate_tests(build(tree, classes, T))]
    r = filter_by_ids(build(tree, classes, T), set(names[i] for i in case["keep"]))
    o["filter"] = walk(r)
    try:
        r = sorted_tests(build(tree, classes, T), case["unpack"])
        members = []
        for m in r:
            is_case = False
            try:
                iter(m)
            except TypeError:
                is_case = True
            members.append([is_case, [i for _, i in walk(m)]])
        o["sorted"] = {"ok": members}
    except ValueError:
        o["sorted"] = {"raised": "ValueError"}
    except TypeError:
        o["sorted"] = {"raised": "TypeError"}
    o["list"] = [number(names, i) for i in list_test(build(tree, classes, T))[0]]
    o.update(cli_subprocess(case) if case.get("cli") == "sub" else cli_inproc(case))
    return o


# ---------------- Gallina ----------------
def t_tree(t):
    if t[0] == "C":
        return "(Case %s)" % q.nat(t[1])
    if t[0] == "P":
        return "(Plain %s)" % q.lst([t_tree(c) for c in t[1]])
    return "(Custom %s %s %s)" % (q.boolean(t[1]), q.boolean(t[2]), q.lst([t_tree(c) for c in t[3]]))


def t_bytes(text):
    return q.lst([str(b) for b in text.encode("utf-8")]) + "%N"


def term(case, o):
    case = norm(case)
    i = q.record([("tree", t_tree(case["tree"])), ("keep", q.lst([q.nat(k) for k in case["keep"]])),
                  ("unpack", q.boolean(case["unpack"])),
                  ("names", q.lst([t_bytes(n) for n in case["names"]])), ("file", t_bytes(case["file"]))])
    if "ok" in o["sorted"]:
        s = "(Ok %s)" % q.lst([q.pair(q.boolean(m[0]), q.lst([q.nat(x) for x in m[1]])) for m in o["sorted"]["ok"]])
    else:
        s = "(Raised %s)" % o["sorted"]["raised"]
    ob = q.record([("o_iter", q.lst([q.nat(x) for x in o["iter"]])),
                   ("o_filter", q.lst([q.pair(q.lst([q.lst([q.nat(p) for p in lab]) for lab in chain]), q.nat(i))
                                       for chain, i in o["filter"]])),
                   ("o_sorted", s),
                   ("o_list", q.lst([q.nat(x) for x in o["list"]])),
                   ("o_cli_list", q.lst([q.nat(x) for x in o["cli_list"]])),
                   ("o_cli_run", q.lst([q.nat(x) for x in o["cli_run"]])),
                   ("o_cli_both", q.lst([q.nat(x) for x in o["cli_both"]]))])
    return q.pair(i, ob)


def perturb(case, o):
    o = dict(o)
    o["iter"] = list(o["iter"]) + [77]
    return o


# ---------------- generation ----------------
def leaves(t):
    if t[0] == "C":
        return [t[1]]
    return [x for c in (t[1] if t[0] == "P" else t[3]) for x in leaves(c)]


def depth(t):
    if t[0] == "C":
        return 0
    kids = t[1] if t[0] == "P" else t[3]
    return 1 + max([depth(c) for c in kids], default=0)


def nontrivial(case):
    t = case["tree"]
    return depth(t) >= 2 and len(leaves(t)) >= 2 or ('"U"' in __import__("json").dumps(t) and len(leaves(t)) >= 2)


def rand_tree(rng, d, pool, fan=4):
    if d == 0 or rng.random() < 0.35:
        return ["C", pool.pop() if pool and rng.random() < 0.9 else rng.randint(1, 9)]
    n = rng.choice([0, 1, 2, 2, 3, 3, fan])
    kids = [rand_tree(rng, d - 1, pool, fan) for _ in range(n)]
    if rng.random() < 0.5:
        return ["P", kids]
    return ["U", rng.random() < 0.5, rng.random() < 0.3, kids]


def small_trees():
    """every tree with root suite, depth <= 2, fan-out <= 2 over distinct ids handed out left to right, plus
    variants with one duplicated id"""
    kinds = [("P",), ("U", False, False), ("U", True, False)]

    def mk(kind, kids):
        return ["P", kids] if kind[0] == "P" else ["U", kind[1], kind[2], kids]
    level1 = [["C", 0]]
    for kind in kinds:
        for n in range(0, 3):
            level1.append(mk(kind, [["C", 0]] * n))
    out = []
    for kind in kinds:
        for n in range(0, 3):
            for kids in itertools.product(level1, repeat=n):
                out.append(mk(kind, [list(k) if k[0] == "C" else k for k in kids]))
    return out


def relabel(t, ids):
    """hand out ids from the iterator to the leaves, left to right"""
    if t[0] == "C":
        return ["C", next(ids)]
    if t[0] == "P":
        return ["P", [relabel(c, ids) for c in t[1]]]
    return ["U", t[1], t[2], [relabel(c, ids) for c in t[3]]]


def generate(rng, tier):
    cases = []
    # corner cases that matter (F8 region, duplicates deep in the tree, root is a case)
    fixed = [
        {"tree": ["C", 3], "keep": [3], "unpack": False},
        {"tree": ["C", 3], "keep": [], "unpack": True},
        {"tree": ["P", [["C", 2], ["U", False, False, []]]], "keep": [2], "unpack": False},
        {"tree": ["P", [["U", False, False, []], ["C", 2], ["U", True, False, []]]], "keep": [2], "unpack": False},
        {"tree": ["P", [["C", 5], ["P", [["U", False, False, [["C", 4], ["C", 5]]]]]]], "keep": [5], "unpack": False},
        {"tree": ["U", True, False, [["C", 9], ["U", False, False, [["C", 7], ["C", 1]]], ["P", [["C", 3]]]]],
         "keep": [1, 3], "unpack": True},
    ]
    for c in fixed:
        c["names"] = list(PLAIN)
        c["file"] = "".join(PLAIN[k] + "\n" for k in c["keep"])
    cases += fixed
    # list-file corner cases over an alphabet where ids are tokens / prefixes of each other
    ab = ["-", "a", "a b", "a b c", "a\tb", "a  b", "a (b)", "a(b)", "b", "b c", "c", "m.t [x y]", "\u00e9 \u00e8"]
    ab = sorted(ab)
    flat = ["P", [["C", k] for k in range(1, 13)]]
    nest = ["P", [["C", 1], ["U", False, False, [["C", 2], ["C", 3]]], ["P", [["C", 4], ["U", True, True, [["C", 9], ["C", 8]]]]],
                  ["C", 12], ["C", 11]]]
    files = ["", "\n", "\n\n", "a", "a\n", "a\r\n", " a \n", "\ta\t\r\n", "a b", "a b\n", "a b\nb\n", "b\na b", "a\nb\nc\n",
             "a b c\n", "a\tb\n", "a  b\n", "a   b\n", "a (b)\n", "a(b)\n", "a (b)\r\na(b)", "\n\na\n\n", " \n\t\nb c\n \n",
             "b\nb\nb\n", "m.t [x y]\n", "m.t\n[x\ny]\n", "\u00e9 \u00e8\n", "\u00e9\n\u00e8\n", "a\n\n\nc", "a \t \nb", "c\n-\n",
             "a b\r\na b c\r\nb c\r\n", "a\x0b\n", "\x0cb\n", "a\r\r\n", "a,b\n", "zzz\n", "A\n", "a b \n c\n"]
    for f in files:
        for t in (flat, nest):
            cases.append({"tree": t, "keep": [1, 8], "unpack": False, "names": list(ab), "file": f})
    shapes = small_trees()
    perms = [[1, 2, 3, 4, 5, 6], [6, 5, 4, 3, 2, 1], [3, 1, 4, 2, 6, 5], [2, 2, 1, 3, 3, 4], [5, 1, 1, 1, 2, 2]]
    want = 1500 if tier == "quick" else 12000
    stride = max(1, len(shapes) * len(perms) // want)
    k = 0
    for s in shapes:
        for p in perms:
            k += 1
            if k % stride:
                continue
            t = relabel(s, iter(p + [7, 8, 9] * 3))
            ls = leaves(t)
            keep = sorted(set(x for x in ls if rng.random() < 0.5) | ({0} if rng.random() < 0.3 else set()))
            nm = pick_names(rng)
            cases.append({"tree": t, "keep": keep, "unpack": rng.random() < 0.25, "names": nm,
                          "file": make_file(rng, nm, ls)})
    n_rand = 1500 if tier == "quick" else 30000
    for _ in range(n_rand):
        pool = list(range(1, 13))
        rng.shuffle(pool)
        if rng.random() < 0.2:
            pool = pool[:4] * 3    # duplicates likely
            rng.shuffle(pool)
        t = rand_tree(rng, rng.choice([1, 2, 3, 4]), pool)
        ls = leaves(t)
        keep = sorted(set(x for x in ls if rng.random() < 0.5) | ({0} if rng.random() < 0.3 else set()))
        nm = pick_names(rng)
        cases.append({"tree": t, "keep": keep, "unpack": rng.random() < 0.25, "names": nm,
                      "file": make_file(rng, nm, ls)})
    # a sample goes through `python -m testtools.run` in a subprocess instead of run.main() in-process
    n_sub = 20 if tier == "quick" else 200
    def rich_case(c):
        used = set(c["names"][i] for i in leaves(c["tree"]))
        listed = set(x.strip(WS) for x in c["file"].split("\n")) & used
        return len(used) >= 3 and any(" " in x or "\t" in x for x in listed) and listed != used
    rich = [c for c in cases if rich_case(c)]
    for c in rng.sample(rich, min(n_sub, len(rich))):
        cases.append(dict(c, cli="sub"))
    for c in cases:
        assert all(name_ok(n) for n in c["names"]) and c["names"] == sorted(c["names"]) and len(set(c["names"])) == 13
    return cases


def shrink(case):
    case = norm(case)
    t = case["tree"]

    def subs(t):
        """one-step reductions of a tree"""
        if t[0] == "C":
            if t[1] > 1:
                yield ["C", t[1] - 1]
            return
        kids = t[1] if t[0] == "P" else t[3]

        def re(k):
            return ["P", k] if t[0] == "P" else ["U", t[1], t[2], k]
        for c in kids:
            yield c
        for i in range(len(kids)):
            yield re(kids[:i] + kids[i + 1:])
        if t[0] == "U":
            yield ["P", kids]
            if t[1]:
                yield ["U", False, t[2], kids]
            if t[2]:
                yield ["U", t[1], False, kids]
        for i, c in enumerate(kids):
            for s in subs(c):
                yield re(kids[:i] + [s] + kids[i + 1:])
    rest = {k: case[k] for k in ("names", "file", "cli") if k in case}
    for s in subs(t):
        yield dict(rest, tree=s, keep=[k for k in case["keep"] if k in leaves(s) or k == 0], unpack=case["unpack"])
    for i in range(len(case["keep"])):
        yield dict(rest, tree=t, keep=case["keep"][:i] + case["keep"][i + 1:], unpack=case["unpack"])
    if case["unpack"]:
        yield dict(rest, tree=t, keep=case["keep"], unpack=False)
    # the list file: fewer lines, no decoration
    f = case["file"]
    if f:
        ls = f.split("\n")
        for i in range(len(ls)):
            yield dict(case, file="\n".join(ls[:i] + ls[i + 1:]))
        for g in ("\n".join(x.strip(WS) for x in ls), f.replace("\r", ""), f.rstrip("\n")):
            if g != f:
                yield dict(case, file=g)
    if case.get("cli") == "sub":
        yield {k: v for k, v in case.items() if k != "cli"}


def distribution(cases):
    d = {"depth": {}, "leaves": {}, "with_duplicates": 0, "with_custom": 0, "with_empty_custom": 0, "unpack_outer": 0,
         "plain_ids": 0, "ids_with_blank_inside": 0, "non_ascii_ids": 0, "file_empty": 0, "file_crlf": 0,
         "file_without_final_newline": 0, "file_blank_lines": 0, "file_padded_lines": 0,
         "file_lists_id_with_blank": 0, "file_line_with_two_ids": 0, "cli_subprocess": 0}
    for c in cases:
        c = norm(c)
        t = c["tree"]
        ls = leaves(t)
        d["depth"][depth(t)] = d["depth"].get(depth(t), 0) + 1
        b = min(len(ls), 8)
        d["leaves"][b] = d["leaves"].get(b, 0) + 1
        d["with_duplicates"] += len(set(ls)) != len(ls)
        s = json.dumps(t)
        d["with_custom"] += '"U"' in s
        d["with_empty_custom"] += ', []]' in s and '"U"' in s
        d["unpack_outer"] += c["unpack"]
        nm, f = c["names"], c["file"]
        used = [nm[i] for i in set(ls)]
        d["plain_ids"] += nm == PLAIN
        d["ids_with_blank_inside"] += any(" " in n or "\t" in n for n in used)
        d["non_ascii_ids"] += any(not n.isascii() for n in used)
        d["file_empty"] += not f
        d["file_crlf"] += "\r\n" in f
        d["file_without_final_newline"] += bool(f) and not f.endswith("\n")
        fl = f.split("\n")[:-1] if f.endswith("\n") else f.split("\n")
        d["file_blank_lines"] += any(not x.strip(WS) for x in fl)
        d["file_padded_lines"] += any(x.strip(WS) and x.rstrip("\r") != x.strip(WS) for x in fl)
        d["file_lists_id_with_blank"] += any(x.strip(WS) in used and (" " in x.strip(WS) or "\t" in x.strip(WS)) for x in fl)
        d["file_line_with_two_ids"] += any(x.strip(WS) not in nm and len(x.split()) > 1 and x.split()[0] in nm for x in fl)
        d["cli_subprocess"] += c.get("cli") == "sub"
    return d


# ---------------- command-line glue samples ----------------
def extra_checks(tier, rng):
    """round trip through the shell: the output of `python -m testtools.run --list` saved to a file and given to
    `--load-list` must run every test, whatever the ids look like (ids are distinct here)"""
    n = 3 if tier == "quick" else 30
    out = []
    repo = os.environ.get("VERIF_REPO", "/repo")
    harness = os.path.dirname(os.path.dirname(os.path.dirname(os.path.abspath(__file__))))
    tries = 0
    while len(out) < n and tries < 20 * n:
        tries += 1
        pool = list(range(1, 13))
        rng.shuffle(pool)
        t = ["P", [rand_tree(rng, 3, pool) for _ in range(rng.randint(1, 3))]]
        ls = leaves(t)
        if len(set(ls)) != len(ls) or len(ls) < 2:
            continue
        names = pick_names(rng)
        d = tempfile.mkdtemp(prefix="c19rt")
        try:
            with open(os.path.join(d, "vc19sub.py"), "w", encoding="utf-8") as f:
                f.write(SUBMODULE % json.dumps({"tree": t, "names": names}))
            env = dict(os.environ, PYTHONPATH=os.pathsep.join([repo, d, harness]), PYTHONIOENCODING="utf-8",
                       PYTHONDONTWRITEBYTECODE="1")
            env.pop("VCHECK_LOG", None)
            p = subprocess.run([sys.executable, "-m", "testtools.run", "--list", "vc19sub.test_suite"],
                               capture_output=True, env=env, cwd=d, timeout=120)
            lst = os.path.join(d, "ids.txt")
            with open(lst, "wb") as f:
                f.write(p.stdout)
            log = os.path.join(d, "ran.txt")
            env["VCHECK_LOG"] = log
            p2 = subprocess.run([sys.executable, "-m", "testtools.run", "--load-list", lst, "vc19sub.test_suite"],
                                capture_output=True, env=env, cwd=d, timeout=120)
            ran = open(log, "rb").read().decode("utf-8").split("\n")[:-1] if os.path.exists(log) else []
            want = [names[i] for i in ls]
            listed = p.stdout.decode("utf-8", "replace").split("\n")[:-1]
            out.append({"ok": listed == want and ran == want and p.returncode == 0 and p2.returncode == 0,
                        "tree": t, "names": names, "listed": listed, "ran": ran,
                        "rc": [p.returncode, p2.returncode],
                        "stderr": (p.stderr + p2.stderr).decode("utf-8", "replace")[-300:]})
        finally:
            import shutil
            shutil.rmtree(d, ignore_errors=True)
    return out
