"""C15 - Spinner returns the function's own result within the timeout and restores
process state (twistedsupport/_spinner.py).  The REAL Spinner is driven over the
deterministic virtual-time reactor of vcheck.vreactor; a small fixed sample also
runs on the real global reactor (extra_checks)."""
import itertools
import os
import signal
import subprocess
import sys

from .. import coqio as q

PROP = "C15"
CORR = "Corr.C15"
REQUIRES = ["Model.Reactor", "Model.Spinner", "Spec.C15"]
PROOF_FILES = ["Proof/C15Spec.v", "Proof/C15.v"]
MANIFEST = {
    "text": "PARTIAL. Coq theorems over all histories of runs on one Spinner (all function shapes, all delays relative "
            "to the timeout, all stop-request instants, all tie-break oracles, all pre-installed handlers) about a "
            "hand-written Gallina model of Spinner.run/_timed_out/_stop_reactor/_get_result/_clean/not_reentrant over "
            "a discrete-event reactor model: the result is the one the earliest of Deferred/timeout/stop dictates, "
            "the two refusals, reactor stopped and empty with everything removed in junk, reactor.stop and the "
            "preserved signal handlers (read from the live Spinner._PRESERVED_SIGNALS) restored on every path, the "
            "same for the n-th run after clear_junk. Tied to /repo on every run by executing the real Spinner over "
            "a virtual-time reactor and the model inside coqc on the same generated histories; the oracle for a "
            "failing input is the executable statement spec_okb, proved to imply the readable Spec.",
    "note": "PARTIAL: the reactor (delayed-call queue, crash/stop, callWhenRunning, one call at a time, tie-break "
            "oracle), Twisted's Deferred/maybeDeferred and real signal delivery are modelled / replaced by "
            "harness/vcheck/vreactor.py, not verified; the real global reactor is only sampled (timings 0 or never "
            "against a 0.5 s timeout). Trusted: Coq kernel + vm_compute; the harness (generators, drivers, virtual "
            "reactor, Gallina printer). All theorems closed under the global context.",
    "technique": "Coq proof (discrete-event simulation, invariant over the event loop, induction over histories) + "
                 "model/implementation correspondence in coqc over a virtual-time reactor",
    "ref": "6 C15",
}
RULE = ("histories of 1-3 runs on one Spinner over one virtual reactor; each run: function shape (return/raise, "
        "already-fired Deferred, Deferred firing/failing at t in {<,=,>} timeout, never) x 0-3 extra delayed calls x "
        "0-2 selectables x stop request (none / synchronous / at an instant <,=,> the others) x 0-3 re-entrant calls "
        "made by the function itself, each swallowed by the caller (each through the same or another Spinner on the "
        "same reactor) x delayed calls that try a re-entrant run when they run (any instant, incl. the instant the "
        "run ends, before and after the ending event) x handler installed by the function x "
        "pre-installed handler per signal (SIG_DFL, SIG_IGN, default_int_handler, callables, getsignal()=None) x "
        "start-up hooks registered with reactor.callWhenRunning before the call (0-3: call reactor.stop() directly "
        "while the reactor starts up / schedule a delayed call / do nothing; they fire in registration order before "
        "the function is called) x "
        "reactor.stop before the call (stock / instance-level override installed before the first run or between "
        "runs / override removed) x clear_junk or not x tie-break oracle x reactor running one call or one instant "
        "per iteration; "
        "non-trivial = an asynchronous shape with a competing stop request or tie, or a history of >= 2 runs; "
        "distinct = distinct JSON")
TRUSTED = ["PARTIAL: the reactor, Twisted's Deferred and real signal delivery are modelled, not verified "
           "(harness/vcheck/vreactor.py is a deterministic stand-in for the reactor with the documented interface; "
           "it is validated against the real reactor only by the extra_checks sample)",
           "signal.signal/getsignal of CPython are used as they are; the state 'getsignal() returns None' (a handler "
           "not installed from Python) cannot be produced from Python and is supplied by a thin layer in the driver "
           "(_Signals) that Spinner and the virtual reactor see as their signal module"]
ASSUMPTIONS = ["the reactor runs either one delayed call per iteration (crash() takes effect immediately) or, like "
               "the real reactor, every call due at the same instant in one iteration; simultaneous calls are "
               "ordered by an explicit oracle; the theorems quantify over both modes and all oracles",
               "the function's leftovers do nothing when they run; Deferreds fire only from reactor callbacks",
               "every 'after startup' trigger fires, in registration order, even when one of them stops the reactor, and "
               "the main loop then does not run (as the real reactor does: checked by the real-reactor sample, which "
               "records the firing order); a refused run (stale junk) never starts the reactor, the harness then takes "
               "its start-up hooks back",
               "Spinner._OBLIGATORY_REACTOR_ITERATIONS = 0 and _PRESERVED_SIGNALS covers SIGINT/SIGTERM/SIGCHLD: "
               "read from the live code into coq/Gen/Spinnertabs.v and re-proved on every run "
               "(C15_table_iterations, C15_table_preserved)",
               "each run starts from a reactor at rest (not running, nothing pending, never really stopped): "
               "established for the first run, proved to be re-established by every run (invariant Idle)"]
EXPLANATION = ("Theorems in coq/Props/C15.v over all histories; correspondence: the real Spinner over "
               "vcheck.vreactor.VReactor against coq/Model/Spinner.v on generated histories, plus a sample on the real "
               "global reactor in a subprocess.")
MAXTASKS = 200

SIGNAMES = ("SIGINT", "SIGTERM", "SIGCHLD")
N_USER_EXC = 4


# ---------------- handlers ----------------
def _h3(signum, frame):
    pass


def _h4(signum, frame):
    pass


def _h8(signum, frame):
    pass


def _handlers():
    return {0: signal.SIG_DFL, 1: signal.SIG_IGN, 2: signal.default_int_handler, 3: _h3, 4: _h4, 8: _h8}


H_NONE = 5     # the disposition signal.getsignal() reports as None (a handler not installed from Python)


class _Signals:
    """The signal module as Spinner and the reactor see it, with one addition: a signal can be put into the state
    CPython is in when a handler was installed by non-Python code (getsignal() -> None; that state cannot be produced
    from Python itself, hence this thin layer).  Everything else goes to the real signal module: getsignal/signal of
    CPython are used as they are, signal(sig, None) raises CPython's own TypeError, installing any handler ends the
    state."""

    def __init__(self, real):
        self._real = real
        self.native = set()
        for k in dir(real):
            if not k.startswith("__") and k not in ("signal", "getsignal"):
                setattr(self, k, getattr(real, k))

    def getsignal(self, s):
        return None if s in self.native else self._real.getsignal(s)

    def signal(self, s, h):
        if h is None:
            return self._real.signal(s, h)          # TypeError, as in CPython
        old = self.getsignal(s)
        self._real.signal(s, h)
        self.native.discard(s)
        return old

    def make_native(self, s):
        self._real.signal(s, self._real.SIG_DFL)
        self.native.add(s)


def _handler_id(h, reactor):
    if h is None:
        return H_NONE
    for k, v in _handlers().items():
        if h is v or h == v:
            return k
    if h == reactor._handler:
        return 9
    return 7


# ---------------- driving the real Spinner ----------------
def drive(case):
    from twisted.internet import defer
    from testtools.twistedsupport import _spinner
    from vcheck import vreactor as vreactor_mod
    from vcheck.vreactor import VReactor, Hang

    sigmod = _Signals(signal)
    patched = (_spinner.signal, vreactor_mod.signal)
    _spinner.signal = vreactor_mod.signal = sigmod
    sigs = [getattr(signal, n) for n in SIGNAMES]
    saved = [signal.getsignal(s) for s in sigs]
    # cases must not see each other: not_reentrant keeps a process-global table of "inside a call" flags (its
    # default argument), workers run many cases.  Within a case nothing is reset: a flag left set by one run of
    # the history makes the next run fail, and that is reported with a self-contained input.
    try:
        for dflt in (_spinner.not_reentrant.__defaults__ or ()):
            if isinstance(dflt, dict):
                dflt.clear()
    except AttributeError:
        pass
    excs = [type("UserExc%d" % k, (Exception,), {}) for k in range(N_USER_EXC)]
    try:
        reactor = VReactor(case["oracle"], batch=case.get("batch", False))
        orig_stop = reactor.stop

        def _override(k):
            # an instance-level override of reactor.stop (a shutdown hook / logging wrapper): goes on to the stock stop
            def stop_override(*a, **kw):
                return orig_stop(*a, **kw)
            stop_override.k = k
            return stop_override
        overrides = {k: _override(k) for k in (1, 2, 3)}

        def stop_id():
            cur = reactor.stop
            if cur == orig_stop:
                return 0
            for k, v in overrides.items():
                if cur is v:
                    return k
            return 99
        spinner = _spinner.Spinner(reactor)
        out = []
        toks = {}              # id(object) -> token, for everything the functions leave with the reactor
        keep = []
        for run in case["runs"]:
            if run["clear"]:
                spinner.clear_junk()
            for s, h in zip(sigs, run["pre"]):
                if h == H_NONE:
                    sigmod.make_native(s)
                else:
                    sigmod.signal(s, _handlers()[h])
            if run.get("rstop") is not None:
                if run["rstop"] == 0:
                    reactor.__dict__.pop("stop", None)        # the stock method shows again
                else:
                    reactor.stop = overrides[run["rstop"]]
            ran = []
            # start-up hooks registered by somebody else before run() is entered
            for j, h in enumerate(run.get("hooks") or []):
                if h[0] == "stop":
                    reactor.callWhenRunning(lambda: reactor.stop())
                elif h[0] == "sched":
                    def hook(j=j, d=h[1], ran=ran):
                        c = reactor.callLater(d, ran.append, 200 + j)
                        toks[id(c)] = 200 + j
                        keep.append(c)
                    reactor.callWhenRunning(hook)
                else:
                    reactor.callWhenRunning(lambda: None)
            reentry = []           # one entry per re-entrant attempt, in order: refused and nothing changed
            order_from = len(reactor.order)

            def mark(obj, tok):
                toks[id(obj)] = tok
                keep.append(obj)

            def attempt(other, reentry=reentry):
                """Somebody calls run() while this run is in progress - through the same Spinner, or through ANOTHER
                Spinner on the same reactor - and swallows whatever comes out (a retry loop, an independent helper)."""
                inner = _spinner.Spinner(reactor) if other else spinner
                nested_ran = []

                def snap():
                    return (len(reactor.getDelayedCalls()), len(reactor.getReaders()), list(spinner.get_junk()),
                            list(inner.get_junk()), [sigmod.getsignal(s) for s in sigs], reactor.running,
                            reactor.stop, reactor.really_stopped)
                before = snap()
                try:
                    inner.run(5, lambda: nested_ran.append(1) or 7)
                    reentry.append(False)
                except _spinner.ReentryError:
                    # refused: its function did not run, nothing was scheduled, saved or changed
                    reentry.append(before == snap() and not nested_ran)
                except BaseException:
                    reentry.append(False)

            def function(run=run, ran=ran, mark=mark, attempt=attempt):
                xre = run.get("xre") or [None] * len(run["extras"])
                for i, d in enumerate(run["extras"]):
                    if xre[i] is None:
                        mark(reactor.callLater(d, ran.append, 10 + i), 10 + i)
                    else:
                        mark(reactor.callLater(d, lambda i=i, o=xre[i]: (ran.append(10 + i), attempt(o))), 10 + i)
                for j in range(run["sels"]):
                    sel = object()
                    mark(sel, 100 + j)
                    reactor.addReader(sel)
                if run["stop"] is not None:
                    mark(reactor.callLater(run["stop"], lambda: (ran.append(2), reactor.stop())), 2)
                if run["setsig"] is not None:
                    sigmod.signal(sigs[run["setsig"][0]], _handlers()[run["setsig"][1]])
                for other in run["reenter"]:
                    attempt(other)
                if run["stop_now"]:
                    reactor.stop()
                sh = run["shape"]
                if sh[0] == "sync":
                    _, how, kind, x = sh
                    if how == 0:
                        if kind == "ok":
                            return x
                        raise excs[x]()
                    return defer.succeed(x) if kind == "ok" else defer.fail(excs[x]())
                d = defer.Deferred()
                keep.append(d)
                if sh[0] == "later":
                    _, t, kind, x = sh

                    def fire():
                        ran.append(1)
                        if kind == "ok":
                            d.callback(x)
                        else:
                            d.errback(excs[x]())
                    mark(reactor.callLater(t, fire), 1)
                return d

            try:
                v = spinner.run(run["timeout"], function)
                res = ["ok", v if isinstance(v, int) and 0 <= v < 1000 else 999]
            except _spinner.TimeoutError:
                res = ["raised", "timeout"]
            except _spinner.NoResultError:
                res = ["raised", "noresult"]
            except _spinner.ReentryError:
                res = ["raised", "reentry"]
            except _spinner.StaleJunkError:
                res = ["raised", "stalejunk"]
            except Hang:
                res = ["raised", "other"]
            except TypeError:                 # e.g. signal.signal(sig, None) out of run()'s finally
                res = ["raised", "other"]
            except Exception as e:
                res = ["raised", excs.index(type(e))] if type(e) in excs else ["raised", "other"]
            o = {"res": res, "reentry": list(reentry), "ran": sorted(ran),
                 "order": [toks.get(id(c), 0) for c in reactor.order[order_from:]],
                 "junk": sorted(toks.get(id(x), 0) for x in spinner.get_junk()),
                 "running": bool(reactor.running), "pending": len(reactor.getDelayedCalls()),
                 "readers": len(reactor.getReaders()),
                 "stop": stop_id(), "stopped": bool(reactor.really_stopped),
                 "sigs": [_handler_id(sigmod.getsignal(s), reactor) for s in sigs]}
            out.append(o)
            del reactor._hooks[:]      # a refused run never started the reactor: take the hooks back
        return out
    finally:
        _spinner.signal, vreactor_mod.signal = patched
        for s, h in zip(sigs, saved):
            signal.signal(s, h if h is not None else signal.SIG_DFL)


# ---------------- Gallina ----------------
def t_outcome(kind, x):
    return "(Succeed %s)" % q.nat(x) if kind == "ok" else "(Fail %s)" % q.nat(x)


def t_shape(sh):
    if sh[0] == "sync":
        return "(Sync %s %s)" % (q.nat(sh[1]), t_outcome(sh[2], sh[3]))
    if sh[0] == "later":
        return "(Later %s %s)" % (q.nat(sh[1]), t_outcome(sh[2], sh[3]))
    return "Never"


def t_run(r):
    fn = "(mkFn %s %s %s %s %s %s %s)" % (
        t_shape(r["shape"]),
        q.lst([q.pair(q.nat(d), q.option(x, q.boolean))
               for d, x in zip(r["extras"], r.get("xre") or [None] * len(r["extras"]))]),
        q.nat(r["sels"]),
        q.option(r["stop"], q.nat), q.boolean(r["stop_now"]), q.lst([q.boolean(o) for o in r["reenter"]]),
        q.option(r["setsig"], lambda p: q.pair("(nth %d reactor_signals 0)" % p[0], q.nat(p[1]))))
    def t_hook(h):
        return "HStop" if h[0] == "stop" else "(HSched %s)" % q.nat(h[1]) if h[0] == "sched" else "HNoop"
    return "(mkRun %s %s %s %s %s %s)" % (q.boolean(r["clear"]),
                                         q.lst([q.nat(h) for h in r["pre"]]),
                                         q.lst([t_hook(h) for h in r.get("hooks") or []]),
                                         q.option(r.get("rstop"), q.nat),
                                         q.nat(r["timeout"]), fn)


EXC = {"timeout": "ETimeout", "noresult": "ENoResult", "reentry": "EReentry", "stalejunk": "EStaleJunk",
       "other": "EOther"}


def t_res(res):
    if res[0] == "ok":
        return "(Ok %s)" % q.nat(res[1])
    if isinstance(res[1], int):
        return "(Raised (EUser %s))" % q.nat(res[1])
    return "(Raised %s)" % EXC[res[1]]


def t_obs(o):
    return "(mkObs %s %s %s %s %s %s %s %s %s %s %s)" % (
        t_res(o["res"]), q.lst([q.boolean(b) for b in o["reentry"]]), q.lst([q.nat(x) for x in o["ran"]]),
        q.lst([q.nat(x) for x in o["order"]]), q.lst([q.nat(x) for x in o["junk"]]), q.boolean(o["running"]), q.nat(o["pending"]), q.nat(o["readers"]),
        q.nat(o["stop"]), q.boolean(o["stopped"]), q.lst([q.nat(x) for x in o["sigs"]]))


def term(case, obs):
    i = "(mkInput %s %s %s)" % (q.lst([q.nat(k) for k in case["oracle"]]), q.boolean(case.get("batch", False)),
                                q.lst([t_run(r) for r in case["runs"]]))
    return q.pair(i, q.lst([t_obs(o) for o in obs]))


def perturb(case, obs):
    obs = [dict(o) for o in obs]
    obs[0]["pending"] = obs[0]["pending"] + 1
    return obs


# ---------------- generation ----------------
T = 5      # the timeout used by most cases
# handlers that can be installed before a call, per signal: SIG_DFL, SIG_IGN, default_int_handler, two callables
PRE_VALUES = [0, 1, 2, 3, 4]
# ... and the disposition getsignal() reports as None (H_NONE; before 030b4f9 run() raised TypeError there, F24)
NONE_HANDLERS = True


def mkrun(shape, extras=(), sels=0, stop=None, stop_now=False, reenter=False, setsig=None, pre=(0, 0, 0),
          clear=True, timeout=T, other=False, rstop=None, hooks=()):
    # reenter: False / True (one attempt, through another Spinner if other) / a list of attempts (True = other Spinner);
    # extras: delays, or (delay, x) with x None (does nothing) / False / True (tries a re-entrant run when it runs)
    if reenter is True:
        reenter = [bool(other)]
    elif reenter is False:
        reenter = []
    ex = [e if isinstance(e, (tuple, list)) else (e, None) for e in extras]
    return {"clear": clear, "pre": list(pre), "timeout": timeout, "shape": list(shape),
            "extras": [e[0] for e in ex], "xre": [e[1] for e in ex],
            "sels": sels, "stop": stop, "stop_now": stop_now, "reenter": [bool(o) for o in reenter], "setsig": setsig,
            "rstop": rstop, "hooks": [list(h) for h in hooks]}


def shapes():
    out = [["sync", 0, "ok", 3], ["sync", 0, "err", 1], ["sync", 1, "ok", 4], ["sync", 1, "err", 2], ["never"]]
    for t in (0, T - 2, T, T + 2):
        out.append(["later", t, "ok", 6])
        out.append(["later", t, "err", 0])
    return out


def rand_run(rng, simple=False):
    sh = rng.choice(shapes())
    if sh[0] == "later" and rng.random() < 0.3:
        sh = ["later", rng.randint(0, 9), sh[2], rng.randint(0, 3)]
    timeout = T if rng.random() < 0.8 else rng.randint(0, 8)
    times = [0, 1, timeout - 1 if timeout else 0, timeout, timeout + 1, timeout + 3]
    if sh[0] == "later":
        times += [sh[1], sh[1], max(0, sh[1] - 1), sh[1] + 1]
    extras = [rng.choice(times) for _ in range(rng.choice([0, 0, 1, 1, 2, 3]))]
    if not simple:
        # some of the delayed calls try a re-entrant run when they run
        extras = [(d, rng.choice([False, True]) if rng.random() < 0.2 else None) for d in extras]
    stop = rng.choice(times) if rng.random() < 0.4 else None
    pre = [rng.choice(PRE_VALUES) for _ in range(3)] if rng.random() < 0.6 else [0, 0, 0]
    # who reactor.stop is before the call: mostly left as the previous run left it, else (re)installed / removed
    rstop = rng.choice([None, None, None, 0, 1, 2, 3])
    # start-up hooks registered before the call: mostly none; stop requests issued while the reactor starts, hooks that
    # only schedule something, hooks that do nothing, in any order
    hooks = []
    if rng.random() < 0.25:
        for _ in range(rng.choice([1, 1, 2, 3])):
            k = rng.choice(["stop", "sched", "sched", "noop"])
            hooks.append(["sched", rng.choice(times)] if k == "sched" else [k])
    if simple:
        return mkrun(sh, extras, rng.choice([0, 0, 1]), stop, False, False, None, pre, True, timeout, rstop=rstop,
                     hooks=hooks)
    # re-entrant attempts made by the function itself: none, one, or several (each through the same / another Spinner)
    n_re = rng.choice([0, 0, 0, 0, 0, 0, 1, 1, 2, 3])
    return mkrun(sh, extras, rng.choice([0, 0, 0, 1, 2]), stop, rng.random() < 0.1,
                 [rng.random() < 0.5 for _ in range(n_re)],
                 [rng.randrange(3), 8] if rng.random() < 0.15 else None, pre,
                 rng.random() < 0.75, timeout, rstop=rstop, hooks=hooks)


def generate(rng, tier):
    cases = []
    # fixed corner cases: the F10 region first (a later run must not see an earlier run's result)
    ok, err, never = ["sync", 0, "ok", 3], ["sync", 0, "err", 1], ["never"]
    fixed = [
        [mkrun(err), mkrun(["sync", 0, "ok", 4])],
        [mkrun(ok), mkrun(never, stop=2)],
        [mkrun(ok), mkrun(never)],
        [mkrun(never), mkrun(ok)],
        [mkrun(["later", 3, "err", 2]), mkrun(["later", 3, "ok", 5]), mkrun(never, stop=1)],
        [mkrun(never, extras=[1, 9], sels=2), mkrun(ok, clear=False), mkrun(ok)],
        [mkrun(["later", T, "ok", 6])],
        [mkrun(["later", T, "ok", 6], stop=T, extras=[T, T])],
        [mkrun(ok, reenter=True, setsig=[0, 8], pre=(3, 1, 4))],
        [mkrun(["later", 2, "ok", 1], stop_now=True)],
    ]
    fixed += [
        # a nested run through another Spinner on the same reactor is refused as well
        [mkrun(ok, reenter=True, other=True)],
        [mkrun(["later", 2, "ok", 5], reenter=True, other=True, extras=[1]), mkrun(ok)],
        [mkrun(never, reenter=True, other=True), mkrun(ok, clear=False)],
    ]
    fixed += [
        # exception paths with handlers pre-installed and a handler installed by the function: restored all the same
        [mkrun(err, pre=(3, 1, 4), setsig=[1, 8]), mkrun(["later", 3, "err", 2], pre=(2, 4, 0), extras=[1], setsig=[0, 8])],
        [mkrun(never, pre=(2, 3, 4), setsig=[2, 8]), mkrun(never, stop=1, pre=(4, 0, 1), setsig=[0, 8]),
         mkrun(["later", T + 1, "err", 3], pre=(1, 1, 1))],
        # a run that succeeds and leaves nothing must not make the next one (without clear_junk) be refused
        [mkrun(ok), mkrun(["later", 2, "ok", 5], clear=False), mkrun(err, clear=False), mkrun(ok, clear=False)],
    ]
    # the process state run() must put back, for every initial value: reactor.stop overridden on the instance before
    # the first run / between runs / removed again, on the success, exception, timeout, no-result and refusal paths
    fixed += [
        [mkrun(ok, rstop=1)],
        [mkrun(err, rstop=2)],
        [mkrun(never, rstop=3)],
        [mkrun(never, stop=2, rstop=1, extras=[9])],
        [mkrun(["later", 3, "ok", 5], rstop=1), mkrun(["later", 3, "err", 1]), mkrun(ok, rstop=0)],
        [mkrun(ok), mkrun(err, rstop=2), mkrun(ok, rstop=3)],
        [mkrun(never, extras=[9], rstop=1), mkrun(ok, clear=False, rstop=2), mkrun(ok)],
        [mkrun(ok, reenter=True, rstop=2), mkrun(ok, reenter=True, other=True)],
        [mkrun(["later", 2, "ok", 1], stop_now=True, rstop=3)],
    ]
    # ... and every kind of pre-installed handler for each of the three signals, on a returning and a raising path
    for k in range(3):
        for h in PRE_VALUES:
            pre = [0, 0, 0]
            pre[k] = h
            fixed.append([mkrun(ok, pre=pre), mkrun(never, pre=pre, stop=1)])
            fixed.append([mkrun(err, pre=pre, rstop=1)])
    # interrupt point "while the reactor starts up, before the function has been called": start-up hooks registered
    # before run() that call reactor.stop() directly, only schedule something, or do nothing - x every function shape
    for sh in shapes():
        fixed.append([mkrun(sh, hooks=[["stop"]])])
        fixed.append([mkrun(sh, hooks=[["noop"], ["sched", 1], ["stop"], ["sched", T + 2]], extras=[1], sels=1),
                      mkrun(ok, clear=False), mkrun(ok)])
        fixed.append([mkrun(sh, hooks=[["sched", 0], ["sched", T], ["noop"]], stop=T)])
    fixed += [
        [mkrun(ok, hooks=[["stop"]]), mkrun(never, hooks=[["stop"], ["stop"]], pre=(3, 1, 4), rstop=1), mkrun(ok)],
        [mkrun(never, extras=[9]), mkrun(ok, clear=False, hooks=[["stop"], ["sched", 1]]), mkrun(["later", 2, "ok", 5])],
        [mkrun(["later", 0, "ok", 5], hooks=[["stop"]], reenter=[False, True], extras=[(0, True)])],
        [mkrun(["later", 2, "err", 1], hooks=[["sched", 2], ["sched", 2]], stop_now=True)],
    ]
    # re-entrant use is refused EVERY time: several attempts inside one run (the caller swallows the refusal and tries
    # again / two independent helpers), through the same and through another Spinner, synchronously and from delayed
    # calls at any instant of the run (before, at and - same reactor iteration - after the event that ends it)
    fixed += [
        [mkrun(ok, reenter=[False, False])],
        [mkrun(ok, reenter=[True, True])],
        [mkrun(ok, reenter=[False, True, False])],
        [mkrun(err, reenter=[True, False, True]), mkrun(ok, reenter=[False])],
        [mkrun(["later", 2, "ok", 5], reenter=[False, False], extras=[(1, False), (1, True), (9, False)])],
        [mkrun(["later", 2, "err", 1], reenter=[True], extras=[(0, True), (1, True)], pre=(3, 1, 4), rstop=1)],
        [mkrun(never, extras=[(1, False), (2, False), (T, True)], sels=1), mkrun(ok, reenter=[False, False])],
        [mkrun(never, stop=2, extras=[(1, True), (2, False), (2, True)], reenter=[False])],
    ]
    if NONE_HANDLERS:
        for k in range(3):
            pre = [2, 3, 0]
            pre[k] = H_NONE
            fixed.append([mkrun(ok, pre=pre, extras=[9])])
            fixed.append([mkrun(ok, rstop=1), mkrun(err, pre=pre, setsig=[(k + 1) % 3, 8])])
            fixed.append([mkrun(never, extras=[1], clear=True), mkrun(never, pre=pre, stop=1, clear=False)])
        fixed.append([mkrun(["later", 2, "ok", 6], pre=[H_NONE, H_NONE, H_NONE], sels=1)])
        fixed.append([mkrun(err, pre=[H_NONE, 1, 3]), mkrun(ok, pre=[4, H_NONE, 0], clear=False), mkrun(never, pre=[3, 1, H_NONE])])
    for runs in fixed:
        cases.append({"oracle": [], "batch": False, "runs": runs})
    cases.append({"oracle": [1], "batch": False, "runs": fixed[6]})
    cases.append({"oracle": [2, 1, 0], "batch": False, "runs": fixed[7]})
    # the Deferred fires after the timeout call has run, at the same instant, in the same reactor iteration
    for orc in ([], [1], [0, 1], [2, 1], [1, 1], [2, 0]):
        for kind, x in (("ok", 6), ("err", 2)):
            cases.append({"oracle": orc, "batch": True, "runs": [mkrun(["later", T, kind, x]), mkrun(ok)]})
            cases.append({"oracle": orc, "batch": True,
                          "runs": [mkrun(["later", T, kind, x], stop=T, extras=[T]), mkrun(never, stop=2)]})
    # re-entrant attempts from delayed calls due at the very instant the run ends, in every order with the ending event
    for orc in ([], [1], [2], [3], [0, 1], [2, 0], [1, 1, 1], [3, 2, 1]):
        for b in (False, True):
            cases.append({"oracle": orc, "batch": b,
                          "runs": [mkrun(["later", T, "ok", 6], extras=[(T, False), (T, True)], reenter=[False]),
                                   mkrun(ok, reenter=[True, False])]})
            cases.append({"oracle": orc, "batch": b,
                          "runs": [mkrun(never, stop=3, extras=[(3, True), (3, False)])]})
    # bounded-exhaustive core: single runs, shape x stop x one extra x oracle
    stops = [None, 0, T - 2, T, T + 2]
    for sh, stop, extra, orc in itertools.product(shapes(), stops, [None, 0, T, T + 4], [[], [1], [2, 1]]):
        if orc and not (stop == T or (sh[0] == "later" and sh[1] in (T, stop)) or extra == T):
            continue
        cases.append({"oracle": orc, "batch": False, "runs": [mkrun(sh, [] if extra is None else [extra], 0, stop)]})
        if stop == T or (sh[0] == "later" and sh[1] in (T, stop)) or extra == T:
            cases.append({"oracle": orc, "batch": True,
                          "runs": [mkrun(sh, [] if extra is None else [extra], 0, stop)]})
    # all pairs of shapes on one spinner (with and without a stop in the second run)
    for a, b in itertools.product(shapes(), repeat=2):
        for stop in (None, 1):
            cases.append({"oracle": [], "batch": False, "runs": [mkrun(a), mkrun(b, stop=stop)]})
    n_rand = 2500 if tier == "quick" else 45000
    for _ in range(n_rand):
        n = rng.choice([1, 2, 2, 3, 3])
        runs = [rand_run(rng, simple=rng.random() < 0.3) for _ in range(n)]
        for r in runs:
            if NONE_HANDLERS and rng.random() < 0.04:
                r["pre"][rng.randrange(3)] = H_NONE
        orc = [rng.randrange(4) for _ in range(rng.choice([0, 0, 1, 2, 4]))]
        cases.append({"oracle": orc, "batch": rng.random() < 0.4, "runs": runs})
    return cases


def nontrivial(case):
    if len(case["runs"]) >= 2:
        return True
    r = case["runs"][0]
    return r["shape"][0] != "sync" and (r["stop"] is not None or bool(r["extras"]))


def shrink(case):
    runs = case["runs"]
    b = case.get("batch", False)
    if case["oracle"]:
        yield {"oracle": case["oracle"][:-1], "batch": b, "runs": runs}
        yield {"oracle": [], "batch": b, "runs": runs}
    if b:
        yield {"oracle": case["oracle"], "batch": False, "runs": runs}
    for k in range(len(runs)):
        if len(runs) > 1:
            yield {"oracle": case["oracle"], "batch": b, "runs": runs[:k] + runs[k + 1:]}
    for k, r in enumerate(runs):
        def rep(**kw):
            r2 = dict(r)
            r2.update(kw)
            return {"oracle": case["oracle"], "batch": b, "runs": runs[:k] + [r2] + runs[k + 1:]}
        xre = r.get("xre") or [None] * len(r["extras"])
        for j in range(len(r["extras"])):
            yield rep(extras=r["extras"][:j] + r["extras"][j + 1:], xre=xre[:j] + xre[j + 1:])
        for j in range(len(xre)):
            if xre[j] is not None:
                yield rep(xre=xre[:j] + [None] + xre[j + 1:])
        if r["sels"]:
            yield rep(sels=r["sels"] - 1)
        if r["stop"] is not None:
            yield rep(stop=None)
        if r["stop_now"]:
            yield rep(stop_now=False)
        for j in range(len(r["reenter"])):
            yield rep(reenter=r["reenter"][:j] + r["reenter"][j + 1:])
        if any(r["reenter"]):
            yield rep(reenter=[False] * len(r["reenter"]))
        if r["setsig"] is not None:
            yield rep(setsig=None)
        if r["pre"] != [0, 0, 0]:
            yield rep(pre=[0, 0, 0])
        if r.get("rstop") is not None:
            yield rep(rstop=None)
        hk = r.get("hooks") or []
        for j in range(len(hk)):
            yield rep(hooks=hk[:j] + hk[j + 1:])
        if not r["clear"]:
            yield rep(clear=True)
        if r["shape"][0] == "later":
            yield rep(shape=["sync", 0, r["shape"][2], r["shape"][3]])
            yield rep(shape=["never"])
        if r["shape"][0] == "sync" and r["shape"][1] == 1:
            yield rep(shape=["sync", 0, r["shape"][2], r["shape"][3]])


def distribution(cases):
    d = {"runs_per_history": {}, "shape": {}, "with_stop_request": 0, "with_tie_at_timeout": 0, "with_oracle": 0,
         "batch_reactor": sum(1 for c in cases if c.get("batch")),
         "reentrant_through_other_spinner": sum(1 for c in cases for r in c["runs"] if any(r["reenter"])),
         "reentrant_attempts_per_run": {}, "runs_with_reentrant_delayed_call": 0,
         "with_extras": 0, "with_selectables": 0, "reentrant": 0, "stale_junk_not_cleared": 0,
         "nondefault_handlers": 0, "stop_override_installed": 0, "stop_override_removed": 0,
         "pre_handler_by_signal": {n: {} for n in SIGNAMES}}
    for c in cases:
        n = len(c["runs"])
        d["runs_per_history"][n] = d["runs_per_history"].get(n, 0) + 1
        d["with_oracle"] += bool(c["oracle"])
        for r in c["runs"]:
            k = r["shape"][0] if r["shape"][0] != "later" else (
                "later<" if r["shape"][1] < r["timeout"] else "later=" if r["shape"][1] == r["timeout"] else "later>")
            d["shape"][k] = d["shape"].get(k, 0) + 1
            d["with_stop_request"] += r["stop"] is not None or r["stop_now"]
            d["with_tie_at_timeout"] += (r["shape"][0] == "later" and r["shape"][1] == r["timeout"]) or \
                r["stop"] == r["timeout"]
            d["with_extras"] += bool(r["extras"])
            d["with_selectables"] += bool(r["sels"])
            d["reentrant"] += bool(r["reenter"])
            k = str(len(r["reenter"]))
            d["reentrant_attempts_per_run"][k] = d["reentrant_attempts_per_run"].get(k, 0) + 1
            d["runs_with_reentrant_delayed_call"] += any(x is not None for x in (r.get("xre") or []))
            d["stale_junk_not_cleared"] += not r["clear"]
            d["nondefault_handlers"] += r["pre"] != [0, 0, 0]
            d["stop_override_installed"] += bool(r.get("rstop"))
            hk = r.get("hooks") or []
            d["runs_with_startup_hooks"] = d.get("runs_with_startup_hooks", 0) + bool(hk)
            d["runs_stopped_during_startup"] = d.get("runs_stopped_during_startup", 0) + any(h[0] == "stop" for h in hk)
            d["stop_override_removed"] += r.get("rstop") == 0
            for n, h in zip(SIGNAMES, r["pre"]):
                d["pre_handler_by_signal"][n][str(h)] = d["pre_handler_by_signal"][n].get(str(h), 0) + 1
    return d


# ---------------- a small sample on the real global reactor ----------------
REAL = r'''
import json, os, signal, sys
from twisted.internet import defer, reactor
from testtools.twistedsupport import _spinner
cases = json.loads(sys.argv[1])
out = []
def h3(s, f): pass
H = {0: signal.SIG_DFL, 1: signal.SIG_IGN, 2: signal.default_int_handler, 3: h3}
sigs = [signal.SIGINT, signal.SIGTERM, signal.SIGCHLD]
spinner = _spinner.Spinner(reactor)
orig_stop = reactor.stop
def stop_override(*a, **kw):      # an instance-level override of reactor.stop installed before the call
    return orig_stop(*a, **kw)
for c in cases:
    spinner.clear_junk()
    for s, h in zip(sigs, c["pre"]):
        signal.signal(s, H[h])
    reactor.__dict__.pop("stop", None)
    if c.get("ovr"):
        reactor.stop = stop_override
    stop_before = reactor.stop
    before = [signal.getsignal(s) for s in sigs]
    keep = []
    fired = []
    # start-up hooks registered before run(): the real reactor fires all of them, in this order, before the function
    for j, h in enumerate(c.get("hooks") or []):
        if h == "stop":
            reactor.callWhenRunning(lambda j=j: (fired.append(j), reactor.stop()))
        elif h == "sched":
            reactor.callWhenRunning(lambda j=j: (fired.append(j), keep.append(reactor.callLater(30, lambda: None))))
        else:
            reactor.callWhenRunning(lambda j=j: fired.append(j))
    def function(c=c):
        fired.append("f")
        for i in range(c["extras"]):
            keep.append(reactor.callLater(30, lambda: None))
        if c["kill"]:
            reactor.callLater(0, os.kill, os.getpid(), signal.SIGINT)
        if c["stop"]:
            reactor.callLater(0, lambda: reactor.stop())
        k = c["shape"]
        if k == "ret": return 5
        if k == "raise": raise ValueError("x")
        d = defer.Deferred(); keep.append(d)
        if k == "later_ok": reactor.callLater(0, d.callback, 6)
        if k == "later_err": reactor.callLater(0, d.errback, KeyError("k"))
        return d
    try:
        res = ["ok", spinner.run(0.5, function)]
    except BaseException as e:
        res = ["raised", type(e).__name__]
    out.append({"res": res, "junk": len(spinner.get_junk()), "fired": fired, "running": bool(reactor.running),
                "pending": len(reactor.getDelayedCalls()),
                "stop_ok": (reactor.stop is stop_override) if c.get("ovr") else (reactor.stop == stop_before),
                "sigs_ok": [signal.getsignal(s) for s in sigs] == before})
print(json.dumps(out))
'''


# start-up hooks of the first ten real-reactor cases (shapes ret, raise, later_ok, later_err, never, twice)
_REAL_HOOKS = [[], ["stop"], ["stop"], [], ["noop", "stop", "sched"], ["sched", "stop"], [], ["sched", "noop"], ["stop", "stop"],
               ["stop"]]


def _real_expect(c):
    k = c["shape"]
    if k == "ret":
        res = ["ok", 5]
    elif k == "raise":
        res = ["raised", "ValueError"]
    elif "stop" in (c.get("hooks") or []):                  # stopped while starting up: the main loop never runs
        res = ["raised", "NoResultError"]
    elif c["stop"] or (c["kill"] and c["pre"][0] == 2):   # the reactor only takes SIGINT over from default_int_handler
        res = None            # raced with a 0-delay Deferred: either NoResultError or the Deferred's result
    elif k == "later_ok":
        res = ["ok", 6]
    elif k == "later_err":
        res = ["raised", "KeyError"]
    else:
        res = ["raised", "TimeoutError"]
    return res


def extra_checks(tier, rng):
    n = 15 if tier == "quick" else 200
    shapes_ = ["ret", "raise", "later_ok", "later_err", "never"]
    cases = []
    for k in range(n):
        sh = shapes_[k % 5] if k < 10 else rng.choice(shapes_)
        # "never" costs the full 0.5 s timeout: keep them few
        if sh == "never" and k >= 10 and rng.random() < 0.7:
            sh = "later_ok"
        stop = rng.random() < 0.25
        kill = (not stop) and rng.random() < 0.15
        cases.append({"shape": sh, "extras": rng.choice([0, 0, 1, 2]), "stop": stop, "kill": kill,
                      "ovr": rng.random() < 0.4,
                      "hooks": _REAL_HOOKS[k] if k < len(_REAL_HOOKS) else
                      [rng.choice(["stop", "sched", "noop"]) for _ in range(rng.choice([1, 2, 3]))]
                      if rng.random() < 0.3 else [],
                      # SIGINT at SIG_DFL only when no SIGINT is sent (it would end the process)
                      "pre": [rng.choice([2, 3, 1] if kill else [2, 3, 1, 0]), rng.choice([0, 1, 3]),
                              rng.choice([0, 1, 3])]})
    repo = os.environ.get("VERIF_REPO", "/repo")
    env = dict(os.environ, PYTHONPATH=repo)
    import json
    out = []
    for lo in range(0, len(cases), 25):
        chunk = cases[lo:lo + 25]
        # a SIGINT taken by the reactor is queued with callFromThread and may only be acted upon during the
        # NEXT run of the same reactor: keep at most one such case per process, as its last case
        kills = [c for c in chunk if c["kill"]]
        for c in kills[1:]:
            c["kill"] = False
        chunk = [c for c in chunk if not c["kill"]] + kills[:1]
        p = subprocess.run([sys.executable, "-c", REAL, json.dumps(chunk)], capture_output=True, text=True, env=env,
                           timeout=300)
        try:
            obs = json.loads(p.stdout.strip().splitlines()[-1])
        except Exception:
            out.append({"ok": False, "what": "real-reactor sample crashed", "rc": p.returncode,
                        "stderr": p.stderr[-500:]})
            continue
        for c, o in zip(chunk, obs):
            exp = _real_expect(c)
            if exp is None:
                k = c["shape"]
                alt = {"later_ok": ["ok", 6], "later_err": ["raised", "KeyError"]}.get(k)
                res_ok = o["res"] == ["raised", "NoResultError"] or (alt is not None and o["res"] == alt)
            else:
                res_ok = o["res"] == exp
            hooks = c.get("hooks") or []
            leftovers = c["extras"] + hooks.count("sched")
            ok = (res_ok and not o["running"] and o["pending"] == 0 and o["stop_ok"] and o["sigs_ok"]
                  and o["junk"] >= leftovers
                  # every start-up hook fired, in registration order, before the function - also after a stop
                  and o.get("fired") == list(range(len(hooks))) + ["f"])
            out.append({"ok": bool(ok), "case": c, "observed": o, "expected_result": exp})
    return out
