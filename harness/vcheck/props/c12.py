"""C12 - ThreadsafeForwardingResult: per-test atomicity under every interleaving (real.py)."""
import datetime
import itertools

from .. import coqio as q

PROP = "C12"
CORR = "Corr.C12"
REQUIRES = ["Model.Tfr", "Spec.C12"]
PROOF_FILES = ["Proof/C12.v"]
MANIFEST = {
    "text": "PARTIAL (scheduler granularity). Coq theorems over every number of threads, every script of calls, every "
            "per-thread fault plan and EVERY schedule (induction over the schedule) about a hand-written small-step "
            "interleaving model of ThreadsafeForwardingResult (Model/Tfr.v: semaphore, target log, per-thread "
            "forwarder state, program counters carrying the two `finally` edges): mutual exclusion, the log is a "
            "concatenation of single-owner acquire..release sections, each thread's part of the log is what that "
            "thread alone would have produced (its tests in order, own start time, tags, outcome once, cut at a "
            "fault exactly as the finally clauses dictate), semaphore free afterwards, no reachable deadlock. Tied "
            "to /repo on every run by driving the REAL class with REAL threads under a deterministic scheduler "
            "(semaphore and target are harness objects whose operations are yield points) and comparing with the "
            "model inside coqc; the oracle is the executable statement spec_okb.",
    "note": "Partial: the theorems cover every interleaving at the granularity of operations on the shared objects "
            "(semaphore.acquire/release, each target method); preemption inside the bytecode between two such "
            "operations cannot be exhibited by the harness scheduler and is not in the model - the argument that "
            "this granularity suffices is that forwarder state is confined to its thread (one forwarder per thread) "
            "and rests on CPython's memory model. Trusted: Coq kernel + vm_compute; harness scheduler, target/"
            "semaphore doubles, Gallina printer; ExtendedToOriginalDecorator passing each call through unchanged "
            "to a target that implements the whole extended API. All theorems closed under the global context.",
    "technique": "Coq proof (invariant over all schedules and fault plans of a small-step interleaving semantics) + "
                 "model/implementation correspondence with real threads under a deterministic scheduler",
    "ref": "6 C12",
}
RULE = ("2-4 real threads, each with its own ThreadsafeForwardingResult over one shared target and one semaphore, "
        "each making a script of calls (well-formed tests with explicit times, run-level and test-level tags, all six "
        "outcomes, guarded startTestRun/stopTestRun between the thread's own tests and stop/done/shouldStop anywhere; "
        "some malformed scripts - compared with the model only through Corr.C12.alpha, i.e. not in the contents of the "
        "malformed thread's blocks, and never with startTestRun/stopTestRun inside the thread's own bracket); per-thread fault "
        "plans (each single target call raising; random pairs/triples; Exception- and BaseException-derived); "
        "schedules: every schedule with <= 2 preemptions for fixed 2-thread (quick) and 3-thread (thorough) "
        "programs and for a reporter next to a controller making only guarded calls (stop/shouldStop/stopTestRun/done "
        "attempted while the reporter is inside a block), seeded random otherwise; non-trivial = >= 2 threads with >= 1 reported test each; distinct = distinct JSON")
TRUSTED = ["harness/vcheck/sched.py: deterministic scheduler for real threads (yield points at semaphore.acquire/"
           "release and at every target method; the semaphore double implements threading.Semaphore.acquire fully: a "
           "non-blocking acquire or one with a timeout is always enabled and fails when the counter is 0, so code that "
           "stops waiting for the semaphore runs its real path); preemption between yield points is not explored (PARTIAL)",
           "the shared target double implements the full extended TestResult API so that ExtendedToOriginalDecorator "
           "forwards each call 1:1; failfast is off"]
ASSUMPTIONS = ["one forwarder per thread (forwarder state is thread-confined)",
               "the thread's own code catches what a forwarder call raises and goes on with its script",
               "fault plans are per thread (the k-th target call made by thread t raises); every global plan under a "
               "given schedule is one of these"]
EXPLANATION = ("Theorems in coq/Props/C12.v over all schedules/fault plans; correspondence: the real "
               "ThreadsafeForwardingResult with real threads under harness/vcheck/sched.py against coq/Model/Tfr.v.")
CASE_TIMEOUT = 30

KINDS = ["KSuccess", "KError", "KFailure", "KSkip", "KXfail", "KUxsuccess"]
ADD = ["addSuccess", "addError", "addFailure", "addSkip", "addExpectedFailure", "addUnexpectedSuccess"]
GUARDS = ["GStartRun", "GStopRun", "GStop", "GDone", "GShouldStop"]
GUARD_M = ["startTestRun", "stopTestRun", "stop", "done", "shouldStop"]
EPOCH = datetime.datetime(2000, 1, 1, tzinfo=datetime.timezone.utc)


class Boom(Exception):
    pass


class BoomBase(BaseException):
    pass


def enc_time(t):
    if t is None:
        return None
    if isinstance(t, datetime.datetime) and t.year == 2000:
        return int((t - EPOCH).total_seconds())
    return "wall"


def dec_time(n):
    return None if n is None else EPOCH + datetime.timedelta(seconds=n)


class FakeTest:
    def __init__(self, n):
        self.n = n

    def id(self):
        return "t%d" % self.n

    def shortDescription(self):
        return None

    def __str__(self):
        return self.id()


def tnum(test):
    """number of a test: the harness's own tests carry it; the broken-runner ErrorHolder is 999"""
    n = getattr(test, "n", None)
    if n is not None:
        return n
    return 999 if test.id() == "broken-runner" else 998


class Target:
    """The shared target: every method is a yield point, logs (thread, call, raised) and raises when
    the calling thread's fault plan says so."""
    failfast = False

    def __init__(self, sched, log, faults, exc):
        self._sched, self._log, self._faults, self._exc = sched, log, faults, exc
        self._n = {}

    def _call(self, *what):
        self._sched.park()
        tid = self._sched.current_tid()
        k = self._n.get(tid, 0)
        self._n[tid] = k + 1
        raised = k in self._faults.get(tid, ())
        self._log.append((tid, "call", list(what), raised))
        if raised:
            raise self._exc()

    def time(self, t):
        self._call("time", enc_time(t))

    def startTest(self, test):
        self._call("startTest", tnum(test))

    def stopTest(self, test):
        self._call("stopTest", tnum(test))

    def tags(self, new, gone):
        self._call("tags", sorted(new), sorted(gone))

    def addSuccess(self, test, details=None):
        self._call("out", 0, tnum(test))

    def addError(self, test, err=None, details=None):
        self._call("out", 1, tnum(test))

    def addFailure(self, test, err=None, details=None):
        self._call("out", 2, tnum(test))

    def addSkip(self, test, reason=None, details=None):
        self._call("out", 3, tnum(test))

    def addExpectedFailure(self, test, err=None, details=None):
        self._call("out", 4, tnum(test))

    def addUnexpectedSuccess(self, test, details=None):
        self._call("out", 5, tnum(test))

    def startTestRun(self):
        self._call("guard", 0)

    def stopTestRun(self):
        self._call("guard", 1)

    def stop(self):
        self._call("guard", 2)

    def done(self):
        self._call("guard", 3)

    @property
    def shouldStop(self):
        self._call("guard", 4)
        return False

    def wasSuccessful(self):
        return True


def apply_call(fwd, c):
    k = c[0]
    if k == "time":
        fwd.time(dec_time(c[1]))
    elif k == "tags":
        fwd.tags(set(c[1]), set(c[2]))
    elif k == "start":
        fwd.startTest(FakeTest(c[1]))
    elif k == "stop":
        fwd.stopTest(FakeTest(c[1]))
    elif k == "out":
        getattr(fwd, ADD[c[1]])(FakeTest(c[2]), details={})
    elif k == "guard":
        if c[1] == 4:
            fwd.shouldStop
        else:
            getattr(fwd, GUARD_M[c[1]])()
    else:
        raise ValueError(c)


def drive(case):
    from testtools import ThreadsafeForwardingResult
    from ..sched import Scheduler, SchedSemaphore
    sched = Scheduler(case["sched"])
    log = []
    exc = BoomBase if case.get("exc") == "B" else Boom
    faults = {t: set(th["faults"]) for t, th in enumerate(case["threads"])}
    sem = SchedSemaphore(sched, 1, log)
    target = Target(sched, log, faults, exc)

    def body(script):
        # the forwarder is created by the thread that uses it
        def run():
            fwd = ThreadsafeForwardingResult(target, sem)
            for c in script:
                try:
                    apply_call(fwd, c)
                except (Boom, BoomBase):
                    pass
        return run
    try:
        for th in case["threads"]:
            sched.spawn(body(th["script"]))
        sched.run()
    finally:
        sched.shutdown()
    if sched.hung:
        raise RuntimeError("a thread neither reached a yield point nor finished (hung)")
    unexpected = [repr(t.exc) for t in sched.tasks if t.exc is not None]
    if unexpected:
        raise RuntimeError("thread ended with an unexpected exception: %s" % unexpected[:2])
    return {"log": [list(e) for e in log], "sem_free": sem.count == 1, "deadlock": sched.deadlock}


# ---------------- Gallina ----------------
def t_tv(v):
    return "TvNone" if v is None else "TvWall" if v == "wall" else "(TvAt %s)" % q.nat(v)


def t_tags(a, b):
    return q.pair(q.lst([q.nat(x) for x in a]), q.lst([q.nat(x) for x in b]))


def t_tcall(w):
    k = w[0]
    if k == "time":
        return "(TTime %s)" % t_tv(w[1])
    if k == "startTest":
        return "(TStartTest %s)" % q.nat(w[1])
    if k == "stopTest":
        return "(TStopTest %s)" % q.nat(w[1])
    if k == "tags":
        return "(TTags %s)" % t_tags(w[1], w[2])
    if k == "out":
        return "(TOutcome %s %s)" % (KINDS[w[1]], q.nat(w[2]))
    if k == "guard":
        return "(TGuard %s)" % GUARDS[w[1]]
    raise ValueError(w)


def t_ev(e):
    if e[1] == "acq":
        return "(%s, EAcq)" % q.nat(e[0])
    if e[1] == "rel":
        return "(%s, ERel)" % q.nat(e[0])
    return "(%s, ECall %s %s)" % (q.nat(e[0]), t_tcall(e[2]), q.boolean(e[3]))


def t_rcall(c):
    k = c[0]
    if k == "time":
        return "(RTime %s)" % q.option(c[1], q.nat)
    if k == "tags":
        return "(RTags %s %s)" % (q.lst([q.nat(x) for x in c[1]]), q.lst([q.nat(x) for x in c[2]]))
    if k == "start":
        return "(RStartTest %s)" % q.nat(c[1])
    if k == "stop":
        return "(RStopTest %s)" % q.nat(c[1])
    if k == "out":
        return "(ROutcome %s %s)" % (KINDS[c[1]], q.nat(c[2]))
    if k == "guard":
        return "(RGuard %s)" % GUARDS[c[1]]
    raise ValueError(c)


def term(case, o):
    i = q.record([("threads", q.lst([q.pair(q.lst([t_rcall(c) for c in th["script"]]),
                                            q.lst([q.nat(k) for k in th["faults"]])) for th in case["threads"]])),
                  ("sched", q.lst([q.nat(t) for t in case["sched"]]))])
    # o_wf is an echo of the input computed by Coq itself (wf_flags): the comparison with the model uses it
    ob = q.record([("o_log", q.lst([t_ev(e) for e in o["log"]])),
                   ("o_sem_free", q.boolean(o["sem_free"])),
                   ("o_deadlock", q.boolean(o["deadlock"])),
                   ("o_wf", "(wf_flags (threads c12_i))")])
    return "(let c12_i := %s in %s)" % (i, q.pair("c12_i", ob))


def perturb(case, o):
    o = dict(o)       # something the comparison keeps for every script
    o["log"] = [list(e) for e in o["log"]] + [[0, "acq"]]
    o["deadlock"] = not o["deadlock"]
    return o


# ---------------- generation ----------------
def mk_test(n, kind, t0=None, t1=None, in_tags=(), post_tags=()):
    out = []
    if t0 is not None:
        out.append(["time", t0])
    out.append(["start", n])
    for a, b in in_tags:
        out.append(["tags", sorted(a), sorted(b)])
    if t1 is not None:
        out.append(["time", t1])
    out.append(["out", kind, n])
    for a, b in post_tags:
        out.append(["tags", sorted(a), sorted(b)])
    out.append(["stop", n])
    return out


def n_sync(script):
    """upper bound on the yield points of a script; upper bound on its target calls"""
    y = c = 0
    for s in script:
        if s[0] == "out":
            y += 9
            c += 7
        elif s[0] == "guard":
            y += 3
            c += 1
    return y, c


def rand_tags(rng):
    pool = [1, 2, 3, 4, 5]
    a = set(rng.sample(pool, rng.choice([0, 1, 1, 2])))
    b = set(rng.sample(pool, rng.choice([0, 0, 1, 2]))) - a
    return sorted(a), sorted(b)


def rand_script(rng, tid, ntests, rich=True):
    s = []
    clock = 10 * tid + 1
    if rich and rng.random() < 0.4:
        s.append(["guard", 0])
    for j in range(ntests):
        n = 10 * tid + j + 1
        if rich and rng.random() < 0.35:
            s.append(["tags"] + list(rand_tags(rng)))
        if rich and rng.random() < 0.15:
            s.append(["guard", rng.choice([0, 1, 2, 3, 4])])
        t0 = t1 = None
        r = rng.random()
        if r < 0.7:
            t0 = clock
            clock += 1
        elif r < 0.8:
            s.append(["time", None])
        if rng.random() < 0.7:
            t1 = clock
            clock += 1
        in_tags = [rand_tags(rng) for _ in range(rng.choice([0, 0, 1, 1, 2]))] if rich else []
        post = [rand_tags(rng)] if rich and rng.random() < 0.2 else []
        t = mk_test(n, rng.randrange(6), t0, t1, in_tags, post)
        if rich and rng.random() < 0.12:
            # a guarded call in the middle of the thread's own test: stop / done / shouldStop only - startTestRun
            # and stopTestRun from inside one's own startTest..stopTest bracket are not a well-formed use
            t.insert(rng.randrange(1, len(t)), ["guard", rng.choice([2, 3, 4])])
        s += t
    if rich and rng.random() < 0.4:
        s.append(["guard", rng.choice([1, 3])])
    return s


def rand_raw_script(rng, tid, n):
    """calls in no particular order: the model must follow the code there too"""
    s = []
    inside = False
    for _ in range(n):
        r = rng.random()
        t = 10 * tid + rng.randint(1, 2)
        if r < 0.2:
            s.append(["start", t])
            inside = True
        elif r < 0.4:
            s.append(["stop", t])
            inside = False
        elif r < 0.65:
            s.append(["out", rng.randrange(6), t])
        elif r < 0.8:
            s.append(["tags"] + list(rand_tags(rng)))
        elif r < 0.9:
            s.append(["time", rng.choice([None, rng.randint(1, 40)])])
        else:
            s.append(["guard", rng.choice([2, 3, 4]) if inside else rng.randrange(5)])
    return s


def segment_schedules(lens, max_switch):
    """schedules 'run a for n1 steps, then b for n2 steps, then c to the end ...' with at most
    max_switch switches chosen by the schedule (afterwards: lowest runnable first)"""
    nt = len(lens)
    big = sum(lens) + 1
    out = []
    for first in range(nt):
        out.append([first] * big)
        if max_switch >= 1:
            for n1 in range(0, lens[first] + 1):
                for second in range(nt):
                    if second == first:
                        continue
                    out.append([first] * n1 + [second] * big)
                    if max_switch >= 2:
                        for n2 in range(1, lens[second] + 1):
                            for third in range(nt):
                                if third == second:
                                    continue
                                out.append([first] * n1 + [second] * n2 + [third] * big)
    return out


def single_faults(scripts):
    out = []
    for t, s in enumerate(scripts):
        for k in range(n_sync(s)[1]):
            out.append((t, k))
    return out


def mk_case(scripts, faults, sched, exc="E"):
    return {"threads": [{"script": s, "faults": sorted(faults.get(t, []))} for t, s in enumerate(scripts)],
            "sched": sched, "exc": exc}


FIXED_2x2 = [
    mk_test(1, 0, 1, 2) + mk_test(2, 1, 3, 4, in_tags=[([1], [])]),
    [["tags", [7], []]] + mk_test(11, 2, 11, 12, in_tags=[([2], [7])], post_tags=[([9], [])]) + mk_test(12, 3, 13, 14),
]
# a reporting thread next to a controller that only makes guarded calls (stop, shouldStop, stopTestRun, done):
# under every <= 2-preemption schedule some of them are attempted while the reporter is inside a block
FIXED_CTRL = [mk_test(1, 0, 1, 2) + mk_test(2, 4, 3, 4, in_tags=[([1], [])]),
              [["guard", 2], ["guard", 4], ["guard", 1], ["guard", 3]]]
FIXED_3x2 = FIXED_2x2 + [[["guard", 0]] + mk_test(21, 4, 21, 22) + mk_test(22, 5, None, 23) + [["guard", 1]]]


def generate(rng, tier):
    cases = []
    quick = tier == "quick"
    # ---- corner cases
    cases.append(mk_case([mk_test(1, 0, 1, 2)], {}, []))
    cases.append(mk_case([mk_test(1, 0, 1, 2), mk_test(11, 1, 3, 4)], {}, [0, 1] * 12))
    cases.append(mk_case([[["guard", g]] for g in range(5)], {0: [0], 3: [0]}, [4, 3, 2, 1, 0] * 3))
    cases.append(mk_case([[["out", 0, 1]], [["start", 2], ["out", 1, 2], ["out", 2, 2], ["stop", 2]]], {1: [3]}, [1, 0] * 9))
    cases.append(mk_case([[], mk_test(1, 5)], {}, [0, 0, 1]))
    # ---- bounded-exhaustive core: every schedule with <= 2 preemptions
    scripts = FIXED_2x2 if quick else FIXED_3x2
    lens = [n_sync(s)[0] for s in scripts]
    scheds = segment_schedules(lens, 2)
    if quick:
        for s in scheds:
            cases.append(mk_case(scripts, {}, s))
    else:
        keep = 30000
        for s in (scheds if len(scheds) <= keep else rng.sample(scheds, keep)):
            cases.append(mk_case(scripts, {}, s))
    ctrl_scheds = segment_schedules([n_sync(x)[0] for x in FIXED_CTRL], 2)
    for sc in ctrl_scheds:
        cases.append(mk_case(FIXED_CTRL, {}, sc))
    # each single target call raising, under a sample of those schedules
    per_fault = 25 if quick else 120
    for (t, k) in single_faults(scripts):
        for s in rng.sample(scheds, min(per_fault, len(scheds))):
            cases.append(mk_case(scripts, {t: [k]}, s, exc=rng.choice("EB")))
    # ---- random programs, faults and schedules
    n_rand = 1200 if quick else 40000
    for _ in range(n_rand):
        nt = rng.choice([2, 2, 3, 3, 4])
        raw = rng.random() < 0.12
        scripts = []
        for t in range(nt):
            if raw:
                scripts.append(rand_raw_script(rng, t, rng.randint(2, 8)))
            else:
                scripts.append(rand_script(rng, t, rng.randint(1, 3)))
        faults = {}
        r = rng.random()
        nf = 0 if r < 0.3 else 1 if r < 0.55 else 2 if r < 0.85 else 3
        for _ in range(nf):
            t = rng.randrange(nt)
            top = max(1, n_sync(scripts[t])[1])
            faults.setdefault(t, set()).add(rng.randrange(top))
        total = sum(n_sync(s)[0] for s in scripts)
        style = rng.random()
        if style < 0.5:
            sched = [rng.randrange(nt) for _ in range(rng.randint(0, total + 3))]
        elif style < 0.8:
            # few preemptions
            sched = []
            for _ in range(rng.randint(1, 4)):
                sched += [rng.randrange(nt)] * rng.randint(1, 12)
        else:
            sched = [k % nt for k in range(total + 3)]
        cases.append(mk_case(scripts, faults, sched, exc=rng.choice("EB")))
    return cases


def nontrivial(case):
    reporting = [th for th in case["threads"] if any(c[0] == "out" for c in th["script"])]
    return len(reporting) >= 2


def shrink(case):
    ths = case["threads"]
    # drop a thread
    if len(ths) > 1:
        for t in range(len(ths)):
            new = ths[:t] + ths[t + 1:]
            sched = [x if x < t else x - 1 for x in case["sched"] if x != t]
            yield {"threads": new, "sched": sched, "exc": case.get("exc", "E")}
    # drop a call / a fault
    for t, th in enumerate(ths):
        for j in range(len(th["script"])):
            s = th["script"][:j] + th["script"][j + 1:]
            if run_guard_in_bracket(s) and not run_guard_in_bracket(th["script"]):
                continue
            yield dict(case, threads=ths[:t] + [dict(th, script=s)] + ths[t + 1:])
        for j in range(len(th["faults"])):
            f = th["faults"][:j] + th["faults"][j + 1:]
            yield dict(case, threads=ths[:t] + [dict(th, faults=f)] + ths[t + 1:])
    # shorten the schedule
    s = case["sched"]
    if s:
        yield dict(case, sched=s[:len(s) // 2])
        yield dict(case, sched=s[:-1])
        yield dict(case, sched=s[1:])


def wf_script(script):
    """the harness's copy of Spec.C12.wf_script, for the input distribution only"""
    ph = None
    post = False
    for c in script:
        k = c[0]
        if k == "start":
            if ph is not None:
                return False
            ph, post = c[1], False
        elif k == "out":
            if ph is None or post or ph != c[2]:
                return False
            post = True
        elif k == "stop":
            if ph is None or ph != c[1]:
                return False
            ph = None
        elif k == "guard" and c[1] in (0, 1) and ph is not None:
            return False
    return True


def run_guard_in_bracket(script):
    """startTestRun / stopTestRun issued by a thread between its own startTest and stopTest: never generated,
    never produced by shrinking (guards from OTHER threads at any time, and stop/done/shouldStop anywhere, stay)"""
    inside = False
    for c in script:
        if c[0] == "start":
            inside = True
        elif c[0] == "stop":
            inside = False
        elif c[0] == "guard" and c[1] in (0, 1) and inside:
            return True
    return False


def distribution(cases):
    d = {"threads": {}, "tests_per_thread": {}, "faults": {}, "sched_len": {}, "base_exception_faults": 0,
         "malformed_scripts": 0, "with_tags": 0, "with_guarded_calls": 0}
    for c in cases:
        nt = len(c["threads"])
        d["threads"][nt] = d["threads"].get(nt, 0) + 1
        nf = sum(len(th["faults"]) for th in c["threads"])
        d["faults"][nf] = d["faults"].get(nf, 0) + 1
        b = min(len(c["sched"]) // 10 * 10, 100)
        d["sched_len"][b] = d["sched_len"].get(b, 0) + 1
        d["base_exception_faults"] += c.get("exc") == "B" and nf > 0
        for th in c["threads"]:
            n = sum(1 for x in th["script"] if x[0] == "out")
            d["tests_per_thread"][n] = d["tests_per_thread"].get(n, 0) + 1
        d["malformed_scripts"] += any(not wf_script(th["script"]) for th in c["threads"])
        d["with_tags"] += any(x[0] == "tags" for th in c["threads"] for x in th["script"])
        d["with_guarded_calls"] += any(x[0] == "guard" for th in c["threads"] for x in th["script"])
    return d
