"""C07 - mismatches are always describable; text_repr round trip; assertThat/expectThat report faithfully."""
import ast
import itertools
import os
import sys
import unicodedata

from .. import coqio as q

PROP = "C07"
CORR = "Corr.C07"
REQUIRES = ["Model.TextRepr", "Model.Assertions", "Spec.C07"]
PROOF_FILES = ["Proof/C07.v", "Proof/C07Repr.v", "Proof/C07Names.v"]
MANIFEST = {
    "text": "Coq theorems about hand-written Gallina models of compat.text_repr (with Python's str/bytes repr and "
            "literal evaluation) and of assertThat/expectThat/_matchHelper/addDetailUniqueName: the literal "
            "evaluator gives back the original text for every str/bytes and every multiline setting (proved for "
            "the literal transliteration of text_repr, which is proved equal to a per-character formulation); for every test program (setUp, test "
            "method, tearDown, cleanups, each a sequence of assertThat/expectThat/assert_that and raise statements): "
            "assertions raise iff the matcher mismatches, expectThat never raises and forces a failure after the test "
            "has finished whatever the test raises before or afterwards (skip, expected failure, unexpected success, "
            "error, setUp itself raising included; wherever setUp/tearDown upcall the base method), every mismatch "
            "detail is attached under a fresh name (pigeonhole termination of the unique-name loop). Tied to /repo "
            "on every run by differential execution inside coqc; str()/describe()/get_details()/MismatchError of "
            "every name in testtools.matchers.__all__ are sampled.",
    "note": "PARTIAL: 'describe() never raises for any matchee' for leaves built on repr/pformat/% of arbitrary "
            "user objects is not expressible in the model; str/describe/get_details/MismatchError are validated by "
            "sampling over every exported matcher (a name without a harness entry is reported as unmodelled). "
            "No known finding (F21, a failed expectThat in a setUp that then raises, was repaired by /repo 889980a). "
            "Trusted: Coq kernel + vm_compute, the harness, "
            "unicodedata categories as the isprintable oracle.",
    "technique": "Coq proof (induction over characters, pigeonhole for the unique-name loop) + model/implementation "
                 "correspondence in coqc + sampling of every exported matcher",
    "ref": "6 C07",
}
RULE = ("three kinds of case: text_repr over an alphabet of quotes, backslash, newline, CR, NUL, DEL, NEL, astral and "
        "combining characters (exhaustive over 5 symbols to a length bound, random to length 40; str and bytes; "
        "multiline None/True/False); every name in testtools.matchers.__all__ instantiated with mismatching values "
        "incl. non-ASCII text, bytes and control characters, with and without annotation; systematically for every "
        "exported name: every text argument (expected values, needles, patterns, annotations, dict keys, file names "
        "and contents, exception arguments, messages) drawn from text special to str.format / the %-operator / "
        "escaping (braces, fields, percent conversions, backslashes; valid regular expressions with counted "
        "repetitions, literal braces, percent signs), every iterable argument given as empty / 1-element / longer "
        "tuple, list, set, frozenset, sorted list, generator, dict keys, and tuples as matchees wherever match() is "
        "defined on arbitrary objects (quick tier: the text x matcher product is sampled, the rest complete); plus random combinator "
        "expressions as in C06; real TestCases whose setUp, test method, tearDown and up to three cleanups are sequences "
        "of assertThat/expectThat/assert_that with colliding detail names and of statements raising a skip, failure, "
        "expected failure, unexpected success or error (through skipTest/fail/expectFailure or directly), with the "
        "upcall super().setUp() / super().tearDown() at any position among the statements of setUp / tearDown (the "
        "cleanups are registered and the earlier details attached before anything else in setUp): fixed "
        "corner cases, every body of up to 3 assertion statements, every two-step history (one assertion statement "
        "in one of five places x one raise of each kind in one of five places), then random programs; "
        "non-trivial = text with a quote or newline / a mismatch / at least 2 statements")
TRUSTED = ["unicodedata.category(c)[0] in 'CZ' (except space) as the oracle for 'repr escapes this code point'",
           "ast.literal_eval as the reference evaluator on the implementation side (the statement uses the model's own "
           "evaluator on the implementation's output)"]
ASSUMPTIONS = ["matchees given to MatchesPredicate are not tuples (its match() formats the matchee with %)",
               "matchees are inside the matcher's domain (a path for the filesystem matchers, a mapping for the dict "
               "matchers, text for StartsWith/EndsWith/MatchesRegex, an exc_info for MatchesException, ...): match() "
               "raising on a foreign matchee is not a describability failure; MatchesListwise gets a sized iterable; "
               "MatchesPredicate messages are %-templates and MatchesPredicateWithParams messages are str.format "
               "templates (special text is escaped accordingly inside them)",
               "describability of the systematic argument domain is judged by spec_okb on the implementation's "
               "observation (kinds of str/describe/get_details/str(MismatchError) and the three assertion entry "
               "points); the Coq model of IDesc is 'total by construction' (sampled extension, not modelled)",
               "details carry their payload token in their text so that they can be recognised in the outcome",
               "setUp and tearDown upcall the base method exactly once unless a statement before the upcall raises (C02); "
               "test programs raise only Exception subclasses (no KeyboardInterrupt/SystemExit: C01) and do not use a "
               "detail named 'reason' or attach details from outside the assertion statements (C05)"]
EXPLANATION = ("Theorems in coq/Props/C07.v; correspondence: text_repr output compared character for character with "
               "both models and evaluated by the model's literal evaluator; kinds of str/describe/get_details/"
               "str(MismatchError) for every exported matcher; per user function which statements raised, the outcome "
               "(reported after every function had run) and the details of real TestCases using "
               "assertThat/expectThat/assert_that in setUp, test method, tearDown and cleanups next to statements "
               "that skip, fail, reach an expected failure / unexpected success or raise an error.")
CASE_TIMEOUT = 30

ROOT = os.path.dirname(os.path.dirname(os.path.dirname(os.path.dirname(os.path.abspath(__file__)))))
SCRATCH = os.path.join(ROOT, ".work", "c07-scratch")


def ensure_scratch():
    import tarfile
    os.makedirs(os.path.join(SCRATCH, "d1"), exist_ok=True)
    for rel, text in (("f1", "hello"), ("d1/g", "a\nb\n")):
        p = os.path.join(SCRATCH, rel)
        if not os.path.exists(p):
            tmp = p + ".%d" % os.getpid()
            with open(tmp, "w") as f:
                f.write(text)
            os.replace(tmp, p)
    p = os.path.join(SCRATCH, "t.tar")
    if not os.path.exists(p):
        tmp = p + ".%d" % os.getpid()
        with tarfile.open(tmp, "w") as t:
            t.add(os.path.join(SCRATCH, "f1"), arcname="y")
        os.replace(tmp, p)
    return SCRATCH


# ---------------------------------------------------------------------------
# every name exported by testtools.matchers: how to build it and values it mismatches
# ---------------------------------------------------------------------------
class Obj:
    pass


def _obj(**kw):
    o = Obj()
    for k, v in kw.items():
        setattr(o, k, v)
    return o


def _exc_info(e):
    try:
        raise e
    except BaseException:
        return sys.exc_info()


def _raiser(e):
    def f():
        raise e
    return f


def _warner(cat, msg):
    def f():
        import warnings
        warnings.warn(msg, cat)
    return f


NASTY = ["caf\xe9 ☃", "a'b\"c\\d", "line1\nline2\r\x00\x7f\x85", "\U0001f600é", b"\xff\x00'\"\n", "x" * 80]


def harness_table():
    """name -> list of (constructor thunk, [mismatching or at least in-domain values])"""
    import doctest
    import warnings as W
    from testtools import matchers as M
    wm = W.WarningMessage(UserWarning("caf\xe9"), UserWarning, "f.py", 3)
    return special_table(M, {
        "AfterPreprocessing": [(lambda: M.AfterPreprocessing(len, M.Equals(99)), NASTY),
                               (lambda: M.AfterPreprocessing(str, M.Equals("q"), annotate=False), NASTY + [1])],
        "AllMatch": [(lambda: M.AllMatch(M.Equals(1)), [[2, "caf\xe9"], [b"\xff", "a\nb"]])],
        "Always": [(lambda: M.Always(), NASTY)],
        "Annotate": [(lambda: M.Annotate("ann caf\xe9 \n'", M.Equals(1)), NASTY + [2])],
        "AnyMatch": [(lambda: M.AnyMatch(M.Equals(1)), [[2, "caf\xe9"], []])],
        "Contains": [(lambda: M.Contains("\xe9"), ["abc", b"abc", 5, ["a\nb"]]),
                     (lambda: M.Contains(b"\xff"), [b"abc", "abc"])],
        "ContainsAll": [(lambda: M.ContainsAll(["a", "\xe9"]), ["a", ["b"]])],
        "ContainedByDict": [(lambda: M.ContainedByDict({"a": M.Equals(1)}), [{"b\n\xe9": 2}, {"a": "x\x00"},
                                                                             {1: 2, "b": 3, None: 4, b"k": 5}]),
                            (lambda: M.ContainedByDict({"zz": M.Never(), 9: M.Never()}), [{"zz": 1, 9: 1}])],
        "ContainsDict": [(lambda: M.ContainsDict({"a": M.Equals(1), "\xe9": M.Never()}), [{}, {"a": b"\xff"}]),
                         (lambda: M.ContainsDict({"zz": M.Never(), 9: M.Never(), None: M.Always()}), [{}, {"zz": 1, 9: 1}])],
        "DirContains": [(lambda: M.DirContains(["zz", "\xe9"]), ["d1", "nope", "f1"]),
                        (lambda: M.DirContains(matcher=M.Contains("q")), ["d1", "nope\n\xe9"])],
        "DirExists": [(lambda: M.DirExists(), ["nope\xe9", "f1"])],
        "DocTestMatches": [(lambda: M.DocTestMatches("a...c", doctest.ELLIPSIS), ["xyz", "caf\xe9\n\x00'"]),
                           (lambda: M.DocTestMatches("caf\xe9\n"), ["x\n"])],
        "EndsWith": [(lambda: M.EndsWith("c\xe9"), ["ab\n'", "\U0001f600"]), (lambda: M.EndsWith(b"c"), [b"ab\xff\n"])],
        "Equals": [(lambda: M.Equals(1), NASTY + [2, {"a\n": b"\xff"}]), (lambda: M.Equals("x" * 40 + "\n\xe9'"), NASTY),
                   (lambda: M.Equals(b"\xff" * 40), NASTY)],
        "FileContains": [(lambda: M.FileContains("zz\xe9"), ["f1", "nope"]),
                         (lambda: M.FileContains(matcher=M.Contains("q\n")), ["f1", "nope\xe9"])],
        "FileExists": [(lambda: M.FileExists(), ["nope\xe9\n", "d1"])],
        "GreaterThan": [(lambda: M.GreaterThan(5), [1]), (lambda: M.GreaterThan("z\xe9"), ["a\n'"])],
        "HasLength": [(lambda: M.HasLength(9), NASTY[:5])],
        "HasPermissions": [(lambda: M.HasPermissions("0000"), ["f1", "d1"])],
        "Is": [(lambda: M.Is(None), NASTY + [1])],
        "IsDeprecated": [(lambda: M.IsDeprecated(M.Contains("x")), [lambda: None, _warner(DeprecationWarning, "caf\xe9"),
                                                                    _warner(UserWarning, "x")])],
        "IsInstance": [(lambda: M.IsInstance(int), NASTY), (lambda: M.IsInstance(int, dict), NASTY), (lambda: M.IsInstance(), [1])],
        "KeysEqual": [(lambda: M.KeysEqual("a", "\xe9"), [{"b\n": 1}, {}]), (lambda: M.KeysEqual({"a": 1}), [{"b": 1}])],
        "LessThan": [(lambda: M.LessThan(1), [5]), (lambda: M.LessThan(b"a"), [b"\xff\n"])],
        "MatchesAll": [(lambda: M.MatchesAll(M.Equals(1), M.Equals("\xe9")), NASTY),
                       (lambda: M.MatchesAll(M.Equals(1), M.Never(), first_only=True), NASTY[:2])],
        "MatchesAny": [(lambda: M.MatchesAny(M.Equals(1), M.Equals("\xe9")), NASTY), (lambda: M.MatchesAny(), [1])],
        "MatchesDict": [(lambda: M.MatchesDict({"a": M.Equals(1), "\xe9": M.Always()}), [{"a": 2, "b\n": b"\xff"}, {}]),
                        (lambda: M.MatchesDict({"zz": M.Never(), 9: M.Never()}),
                         [{"zz": 1, 9: 1}, {}, {1: 2, "b": 3}, {"zz": 1, 9: 1, 8: 0, "y": 0}])],
        "MatchesException": [(lambda: M.MatchesException(ValueError("caf\xe9", b"\xff")),
                              [_exc_info(KeyError("k\n")), _exc_info(ValueError("x")), "not a tuple \xe9", 5]),
                             (lambda: M.MatchesException(ValueError, "a+\xe9"), [_exc_info(ValueError("b\n\x00"))]),
                             (lambda: M.MatchesException((KeyError, OSError), M.Never()), [_exc_info(KeyError("\xe9"))])],
        "MatchesListwise": [(lambda: M.MatchesListwise([M.Equals(1)]), [[2], [1, "\xe9"], []]),
                            (lambda: M.MatchesListwise([M.Equals(1), M.Never()], first_only=True), [["a\n", 1]])],
        "MatchesPredicate": [(lambda: M.MatchesPredicate(lambda x: False, "%s is bad \xe9"), NASTY + [1])],
        "MatchesPredicateWithParams": [(lambda: M.MatchesPredicateWithParams(lambda x, y: False, "{0} vs {1} \xe9")(3), NASTY),
                                       (lambda: M.MatchesPredicateWithParams(lambda x, y: False, "{0} vs {1}", "Named")("\n"), [1])],
        "MatchesRegex": [(lambda: M.MatchesRegex("a+\xe9\\n"), ["b\n", "caf\xe9\x00'"]), (lambda: M.MatchesRegex(b"a\xff+"), [b"b\xfe\n"])],
        "MatchesSetwise": [(lambda: M.MatchesSetwise(M.Equals(1)), [[2], [1, 1], [], ["\xe9\n", b"\xff"]]),
                           (lambda: M.MatchesSetwise(M.Equals(1), M.Equals(2), M.Equals(3)), [[1], [1, 5, 6, 7], [4, 5, 6]])],
        "MatchesStructure": [(lambda: M.MatchesStructure(a=M.Equals(1), b=M.Equals("\xe9")), [_obj(a=2, b="x\n"), _obj(a=1, b=b"\xff")]),
                             (lambda: M.MatchesStructure.byEquality(a=1), [_obj(a="\xe9")])],
        "Never": [(lambda: M.Never(), NASTY + [1])],
        "NotEquals": [(lambda: M.NotEquals(1), [1]), (lambda: M.NotEquals("\xe9\n'"), ["\xe9\n'"])],
        "Not": [(lambda: M.Not(M.Equals(1)), [1]), (lambda: M.Not(M.Always()), NASTY)],
        "PathExists": [(lambda: M.PathExists(), ["nope\xe9\n'"])],
        "Raises": [(lambda: M.Raises(), [lambda: 1, lambda: "caf\xe9\n"]),
                   (lambda: M.Raises(M.MatchesException(ValueError)), [_raiser(KeyError("\xe9\n")), lambda: b"\xff"])],
        "raises": [(lambda: M.raises(ValueError("x")), [_raiser(ValueError("\xe9")), _raiser(KeyError("k")), lambda: 1])],
        "SameMembers": [(lambda: M.SameMembers([1, "\xe9"]), [[1, 3], ["a\n", b"\xff"], ["x" * 80]])],
        "SamePath": [(lambda: M.SamePath("f1"), ["nope", "d1/\xe9"])],
        "StartsWith": [(lambda: M.StartsWith("a\xe9"), ["b\n'\"", "\U0001f600"]), (lambda: M.StartsWith(b"a"), [b"\xffb\n"])],
        "TarballContains": [(lambda: M.TarballContains(["x", "\xe9"]), ["t.tar"])],
        "Warnings": [(lambda: M.Warnings(), [lambda: None]),
                     (lambda: M.Warnings(M.HasLength(2)), [lambda: None, _warner(UserWarning, "caf\xe9\n")])],
        "WarningMessage": [(lambda: M.WarningMessage(DeprecationWarning, message=M.Equals("x")), [wm]),
                           (lambda: M.WarningMessage(UserWarning, lineno=M.Equals(4), filename=M.Contains("\xe9")), [wm])],
    })


# text that is special to the machinery messages are built with: str.format fields, %-conversions, backslashes
SPECIAL = ["{}", "{0}", "{name}", "{0!r:>{1}}", "{", "}", "a{2}", "%s", "%d", "%", "%%", "%(x)s", "100% {sure}", "\\",
           "\\d{4}", "{0.__class__}"]
# ... as regular expressions (all valid): counted repetitions, literal braces, percent signs
SPECIAL_RE = ["\\d{4}-\\d{2}", "[0-9a-f]{8,}", "\\{\\}", "[{]", "x{0}", "{name}", "a%sb", "%d+", "100%", "%(x)s", "\\\\", "a{2}|%%"]
# matchees that are containers the %-operator treats specially, next to special text
TUPLES = [(), (1,), (1, 2), ("%s", "{0}")]
# the ways an iterable argument can be given
CONTAINERS = [("tuple0", lambda xs: ()), ("tuple1", lambda xs: tuple(xs[:1])), ("tuple", tuple), ("list", list),
              ("set", set), ("frozenset", frozenset), ("sorted", sorted), ("generator", lambda xs: (x for x in xs)),
              ("dictkeys", lambda xs: dict.fromkeys(xs).keys())]


def special_table(M, table):
    """Systematic extension of the argument domain of every exported matcher: text arguments drawn from SPECIAL /
    SPECIAL_RE wherever a matcher takes text (expected values, needles, patterns, annotations, dict keys, file
    names and contents, exception arguments, messages), every iterable argument given as each of CONTAINERS, and
    the TUPLES as matchees.  Variants are appended, so the earlier (name, variant) numbers keep their meaning."""
    for name in table:
        table[name] = [(mk, vals, "base") for mk, vals in table[name]]
    tag = ["text"]

    def add(name, mk, vals):
        arg = (mk.__defaults__ or ("",))[0]            # the special text / pattern / shape the variant is built from
        if not isinstance(arg, (str, bytes)):
            arg = next((label for label, f in CONTAINERS if f is arg), "")
        table.setdefault(name, []).append((mk, list(vals), "%s:%s" % (tag[0], arg if isinstance(arg, str) else arg.decode("latin1"))))

    def exc(e):
        return _exc_info(e)

    sp = SPECIAL
    for s in SPECIAL:
        b = s.encode("ascii")
        add("Annotate", lambda s=s: M.Annotate(s, M.Equals(1)), [2, s])
        add("Contains", lambda s=s: M.Contains(s), ["abc", ["x"], ("x",)])
        add("ContainsAll", lambda s=s: M.ContainsAll([s, "zz"]), [["zz"], (s,), ""])
        add("ContainedByDict", lambda s=s: M.ContainedByDict({s: M.Equals(1)}), [{s: 2}, {"other" + s: 1}])
        add("ContainsDict", lambda s=s: M.ContainsDict({s: M.Equals(1)}), [{}, {s: s}])
        add("MatchesDict", lambda s=s: M.MatchesDict({s: M.Equals(s)}), [{}, {s: 1}, {s: s, s + s: s}])
        add("KeysEqual", lambda s=s: M.KeysEqual(s, "b"), [{s: 1}, {}])
        add("DirContains", lambda s=s: M.DirContains([s]), ["d1", "nope" + s])
        add("DirContains", lambda s=s: M.DirContains(matcher=M.Contains(s)), ["d1"])
        add("FileContains", lambda s=s: M.FileContains(s), ["f1", "nope" + s])
        add("FileContains", lambda s=s: M.FileContains(matcher=M.EndsWith(s)), ["f1"])
        add("DocTestMatches", lambda s=s: M.DocTestMatches(s + "\n"), ["x\n", s + s])
        add("EndsWith", lambda s=s: M.EndsWith(s), ["ab", s + "x"])
        add("EndsWith", lambda b=b: M.EndsWith(b), [b"ab"])
        add("StartsWith", lambda s=s: M.StartsWith(s), ["ab", "x" + s])
        add("StartsWith", lambda b=b: M.StartsWith(b), [b"ab"])
        add("Equals", lambda s=s: M.Equals(s), ["ab", s + s, b, 1])
        add("NotEquals", lambda s=s: M.NotEquals(s), [s])
        add("Is", lambda s=s: M.Is(s), [s + "x"])
        add("GreaterThan", lambda s=s: M.GreaterThan(s), [""])
        add("LessThan", lambda s=s: M.LessThan(s), ["~~~"])
        add("HasPermissions", lambda s=s: M.HasPermissions(s), ["f1"])
        add("SamePath", lambda s=s: M.SamePath(s), ["f1", "nope" + s])
        add("TarballContains", lambda s=s: M.TarballContains([s]), ["t.tar"])
        add("SameMembers", lambda s=s: M.SameMembers([s, 1]), [[s], [1, s, s], (s,)])
        add("Not", lambda s=s: M.Not(M.Equals(s)), [s])
        add("Not", lambda s=s: M.Not(M.Contains(s)), [s + s])
        add("AfterPreprocessing", lambda s=s: M.AfterPreprocessing(str, M.Equals(s)), [1, s + s])
        add("AllMatch", lambda s=s: M.AllMatch(M.Equals(s)), [[s, 1], (1,)])
        add("AnyMatch", lambda s=s: M.AnyMatch(M.Equals(s)), [[1], ()])
        add("MatchesAll", lambda s=s: M.MatchesAll(M.Equals(s), M.StartsWith(s)), ["ab"])
        add("MatchesAny", lambda s=s: M.MatchesAny(M.Equals(s), M.EndsWith(s)), ["ab"])
        add("MatchesListwise", lambda s=s: M.MatchesListwise([M.Equals(s)]), [[1], [s, s]])
        add("MatchesSetwise", lambda s=s: M.MatchesSetwise(M.Equals(s)), [[1], [s, s]])
        add("MatchesStructure", lambda s=s: M.MatchesStructure(a=M.Equals(s)), [_obj(a=1), _obj(a=s + s)])
        add("MatchesStructure", lambda s=s: M.MatchesStructure.byEquality(a=s), [_obj(a=1)])
        add("MatchesException", lambda s=s: M.MatchesException(ValueError(s)), [exc(ValueError(s + s)), exc(KeyError(s))])
        add("MatchesException", lambda s=s: M.MatchesException(ValueError, M.Equals(s)), [exc(ValueError(1))])
        add("Raises", lambda s=s: M.Raises(M.MatchesException(ValueError(s))), [_raiser(KeyError(s)), lambda: s])
        add("raises", lambda s=s: M.raises(ValueError(s)), [_raiser(ValueError(s + s)), lambda: s])
        add("IsDeprecated", lambda s=s: M.IsDeprecated(M.Contains(s + s)), [_warner(DeprecationWarning, s)])
        add("Warnings", lambda s=s: M.Warnings(M.MatchesListwise([M.WarningMessage(UserWarning, message=M.Equals(s + s))])),
            [_warner(UserWarning, s), lambda: None])
        add("WarningMessage", lambda s=s: M.WarningMessage(UserWarning, message=M.Equals(s)),
            [_W().WarningMessage(UserWarning(s + s), UserWarning, s + ".py", 3)])
        add("MatchesPredicate", lambda s=s: M.MatchesPredicate(lambda x: False, "%s is bad " + s.replace("%", "%%")), [1, s])
        add("MatchesPredicateWithParams",
            lambda s=s: M.MatchesPredicateWithParams(lambda x, y: False, "{0} vs {1} " + s.replace("{", "{{").replace("}", "}}"))(s),
            [1, s])
        add("PathExists", lambda: M.PathExists(), ["nope" + s])
        add("DirExists", lambda: M.DirExists(), ["nope" + s])
        add("FileExists", lambda: M.FileExists(), ["nope" + s])
        add("HasLength", lambda: M.HasLength(99), [s])
        add("Always", lambda: M.Always(), [s])
        add("Never", lambda: M.Never(), [s])
        add("IsInstance", lambda: M.IsInstance(int), [s])
    tag[0] = "re"
    for r in SPECIAL_RE:
        add("MatchesRegex", lambda r=r: M.MatchesRegex(r), ["nomatch", "{0} %s {}"])
        add("MatchesRegex", lambda r=r: M.MatchesRegex(r.encode("ascii")), [b"nomatch", b"{0} %s"])
        add("MatchesException", lambda r=r: M.MatchesException(ValueError, r), [exc(ValueError("nomatch {0} %s")), exc(KeyError("k"))])
        add("MatchesException", lambda r=r: M.MatchesException((KeyError, ValueError), r), [exc(ValueError("nomatch"))])
        add("Raises", lambda r=r: M.Raises(M.MatchesException(ValueError, r)), [_raiser(ValueError("nomatch %s"))])
        add("AllMatch", lambda r=r: M.AllMatch(M.MatchesRegex(r)), [["nomatch", "{}"]])
        add("Not", lambda r=r: M.Not(M.Not(M.MatchesRegex(r))), ["nomatch"])
    # every iterable argument in every shape
    tag[0] = "shape"
    names = ["a%s", "b{0}", "zz"]
    for label, shape in CONTAINERS:
        ordered = label != "sorted"          # matchers and types cannot be sorted
        sized = label != "generator"         # MatchesListwise takes len() of its argument
        add("DirContains", lambda shape=shape: M.DirContains(shape(names)), ["d1", "nope"])
        add("TarballContains", lambda shape=shape: M.TarballContains(shape(names)), ["t.tar"])
        add("SameMembers", lambda shape=shape: M.SameMembers(shape(names)), [["q"], ("a%s",)])
        add("ContainsAll", lambda shape=shape: M.ContainsAll(shape(names)), [["q"], ()])
        add("KeysEqual", lambda shape=shape: M.KeysEqual(*shape(names)), [{"q": 1}])
        if ordered and sized:
            add("MatchesListwise", lambda shape=shape: M.MatchesListwise(shape([M.Equals(1), M.Equals("{0}")])), [[2, 3], (1,), []])
        if ordered:
            add("MatchesSetwise", lambda shape=shape: M.MatchesSetwise(*shape([M.Equals(1), M.Equals("%s")])), [[2, 3], (1,), []])
            add("MatchesAll", lambda shape=shape: M.MatchesAll(*shape([M.Equals(1), M.Equals("%s")])), [2, (1,)])
            add("MatchesAny", lambda shape=shape: M.MatchesAny(*shape([M.Equals(1), M.Equals("{}")])), [2, (1,)])
            add("IsInstance", lambda shape=shape: M.IsInstance(*shape([int, dict, bytes])), ["x", (1,)])
        if label not in ("set", "frozenset", "generator", "dictkeys", "list", "sorted"):
            # the exception argument is a type or a tuple of types (isinstance semantics)
            add("MatchesException", lambda shape=shape: M.MatchesException(shape([KeyError, OSError])),
                [exc(ValueError("v")), exc(KeyError("{0} %s"))])
            add("MatchesException", lambda shape=shape: M.MatchesException(shape([KeyError, OSError]), "a{2}%s"),
                [exc(KeyError("k")), exc(ValueError("v"))])
            add("Raises", lambda shape=shape: M.Raises(M.MatchesException(shape([KeyError, OSError]))), [_raiser(ValueError("v")), lambda: 1])
    # tuples as matchees of every matcher whose match() is defined on arbitrary objects (the others raise on a
    # matchee outside their domain: a path, a mapping, a callable, an exc_info, text, a comparable ...)
    tag[0] = "tuple"
    for name in sorted(table):
        if name not in TUPLE_OUT_OF_DOMAIN:
            add(name, table[name][0][0], TUPLES)
    add("GreaterThan", lambda: M.GreaterThan((1, "%s")), [(0,), ()])
    add("LessThan", lambda: M.LessThan((1, "{0}")), [(2,), (1, "{0}", 0)])
    add("Equals", lambda: M.Equals((1, "%s")), TUPLES)
    add("Contains", lambda: M.Contains((1, 2)), TUPLES + [[(1,)]])
    add("ContainedByDict", lambda: M.ContainedByDict({(1, 2): M.Equals(1)}), [{(1, 2): 2}, {(): 1}])
    add("MatchesDict", lambda: M.MatchesDict({(1, "%s"): M.Equals((1,))}), [{(1, "%s"): (2,)}, {}])
    add("KeysEqual", lambda: M.KeysEqual((1, 2), ()), [{(1,): 1}])
    return table


TUPLE_OUT_OF_DOMAIN = {
    "ContainedByDict", "ContainsDict", "MatchesDict", "KeysEqual", "WarningMessage",          # mappings / records
    "DirContains", "DirExists", "FileContains", "FileExists", "HasPermissions", "PathExists", "SamePath",
    "TarballContains",                                                                        # paths
    "EndsWith", "StartsWith", "MatchesRegex", "DocTestMatches",                               # text
    "GreaterThan", "LessThan",                                                                # comparable with the bound
    "IsDeprecated", "Warnings",                                                               # callables
    "MatchesException",                                                                       # exc_info triples
    "MatchesStructure",                                                                       # objects with the attributes
    "MatchesPredicate",                                                     # message % matchee (see ASSUMPTIONS)
}


def _W():
    import warnings
    return warnings


EXC_CODES = [AttributeError, NotImplementedError, TypeError]


def kind_of(f):
    try:
        x = f()
    except BaseException as e:   # noqa - the class of what was raised is the observation
        for i, c in enumerate(EXC_CODES):
            if isinstance(e, c):
                return ["R", i]
        return ["R", 3]
    if isinstance(x, str):
        return "T"
    if isinstance(x, dict):
        return "D"
    return "O"


MESSAGE = "message caf\xe9 \n'"


def assertions_on(m, v, message):
    """the three entry points on a stock matcher: did assertThat / assert_that / expectThat raise MismatchError,
    and was the test (which catches the MismatchErrors itself) reported as a failure, i.e. by expectThat"""
    import testtools
    from testtools.assertions import assert_that
    from testtools.matchers import MismatchError
    from testtools.testresult.doubles import ExtendedTestResult
    out = []

    class T(testtools.TestCase):
        def test_x(self):
            for f in (self.assertThat, assert_that, self.expectThat):
                try:
                    f(v, m, message)
                    out.append(False)
                except MismatchError:
                    out.append(True)

    res = ExtendedTestResult()
    T("test_x").run(res)
    outs = [e[0] for e in res._events if e[0].startswith("add")]
    return out + [outs == ["addFailure"]]


def describe_all(m0, v, annotate):
    from testtools.matchers import Annotate, MismatchError
    message = MESSAGE if annotate else ""
    m = Annotate.if_message(message, m0)
    kinds = [kind_of(lambda: str(m))]
    mismatch = m.match(v)
    if mismatch is not None:
        kinds.append(kind_of(mismatch.describe))
        kinds.append(kind_of(mismatch.get_details))
        kinds.append(kind_of(lambda: str(MismatchError(v, m, mismatch, False))))
        kinds.append(kind_of(lambda: str(MismatchError(v, m, mismatch, True))))
    return {"kinds": kinds, "hm": mismatch is not None, "asserts": assertions_on(m0, v, message)}


# ---------------------------------------------------------------------------
# drivers
# ---------------------------------------------------------------------------
def to_text(case):
    return bytes(case["s"]) if case["bytes"] else "".join(chr(c) for c in case["s"])


def drive_repr(case):
    from testtools.compat import text_repr
    text = to_text(case)
    out = text_repr(text, case["ml"])
    assert isinstance(out, str)
    try:
        back = ast.literal_eval(out)
        eb = type(back) is type(text) and back == text
    except (SyntaxError, ValueError):
        eb = False
    return {"out": [ord(c) for c in out], "eb": eb}


def drive_desc(case):
    ensure_scratch()
    cwd = os.getcwd()
    os.chdir(SCRATCH)
    try:
        if case["k"] == "dexpr":
            from . import c06
            ctx = c06.Ctx({}, case.get("leafdefs", ()))
            return describe_all(c06.mk_matcher(case["m"], ctx), c06.mk_val(case["v"], ctx), case["ann"])
        table = harness_table()
        if case["name"] not in table:
            return {"kinds": [], "hm": False, "asserts": [], "unmodelled": True}
        mk, vals, _ = table[case["name"]][case["variant"]]
        return describe_all(mk(), vals[case["value"]], case["ann"])
    finally:
        os.chdir(cwd)


KINDS = ["AssertThat", "ExpectThat", "AssertThatFn"]
EXCS = ["XSkip", "XFail", "XXFail", "XUXSuccess", "XErr"]
OUTCOMES = {"addSuccess": "Success", "addFailure": "Failure", "addError": "Error", "addSkip": "Skip",
            "addExpectedFailure": "ExpFailure", "addUnexpectedSuccess": "UnexpSuccess"}


def drive_test(case):
    """A statement is [kind, mis, flag]: kind 0/1/2 = assertThat/expectThat/assert_that on a matcher that matches
    (mis None) or mismatches with the details mis, flag = with message and verbose; kind 3 = raise, mis = index
    into EXCS, flag = raise the exception class directly instead of going through skipTest/fail/expectFailure."""
    import testtools
    from testtools.assertions import assert_that
    from testtools.content import text_content
    from ..tabs.handlers import signal_classes
    _ExpectedFailure, _UnexpectedSuccess = signal_classes()      # found through expectFailure, not by their private names
    from testtools.testresult.doubles import ExtendedTestResult
    ran = []          # one entry per user function that was entered: [did statement k raise ...]
    done = []         # how many of them have finished

    class FakeMismatch:
        def __init__(self, details):
            self._d = {n: text_content("tok:%d" % t) for n, t in details}

        def describe(self):
            return "fake mismatch caf\xe9"

        def get_details(self):
            return self._d

    class Fake:
        def __init__(self, mis):
            self.mis = mis

        def match(self, other):
            return None if self.mis is None else FakeMismatch(self.mis)

        def __str__(self):
            return "Fake()"

    class Boom(Exception):
        pass

    def do_raise(self, code, direct):
        if code == 0:
            if direct:
                raise self.skipException("skipped caf\xe9")
            self.skipTest("skipped caf\xe9")
        elif code == 1:
            if direct:
                raise self.failureException("failed")
            self.fail("failed")
        elif code == 2:
            if direct:
                raise _ExpectedFailure(sys.exc_info())
            self.expectFailure("known bug", self.assertEqual, 1, 0)
        elif code == 3:
            if direct:
                raise _UnexpectedSuccess()
            self.expectFailure("known bug", self.assertEqual, 1, 1)
        else:
            raise (Boom("boom") if direct else ValueError("boom"))
        raise RuntimeError("harness: statement did not raise")     # pragma: no cover

    def run_stmts(self, stmts, up=None, upcall=None):
        """one user function: the statements, with the upcall of the base class method before statement number
        up (after the last one when up >= len(stmts)); a raise leaves the function"""
        raised = []
        ran.append(raised)
        try:
            for k, (kind, mis, flag) in enumerate(stmts):
                if upcall is not None and k == up:
                    upcall()
                try:
                    if kind == 3:
                        do_raise(self, mis, flag)
                    else:
                        m = Fake(mis)
                        message = "msg \xe9" if flag else ""
                        if kind == 0:
                            self.assertThat(1, m, message, verbose=bool(flag))
                        elif kind == 1:
                            self.expectThat(1, m, message, verbose=bool(flag))
                        else:
                            assert_that(1, m, message, verbose=bool(flag))
                    raised.append(False)
                except BaseException:
                    raised.append(True)
                    raise
            if upcall is not None and up >= len(stmts):
                upcall()
        finally:
            done.append(1)

    class T(testtools.TestCase):
        def setUp(self):
            for c in case["cleanups"]:
                self.addCleanup(run_stmts, self, c)
            for n, t in case["pre"]:
                self.addDetail(n, text_content("tok:%d" % t))
            run_stmts(self, case["setup"], case.get("setup_up", 0), super().setUp)

        def tearDown(self):
            run_stmts(self, case["teardown"], case.get("teardown_up", len(case["teardown"])), super().tearDown)

        def test_x(self):
            run_stmts(self, case["body"])

    class Rec(ExtendedTestResult):
        at_outcome = None

        def _note(self):
            self.at_outcome = (len(ran), len(done))

    def noting(name):
        def method(self, *a, **kw):
            self._note()
            return getattr(ExtendedTestResult, name)(self, *a, **kw)
        return method
    for name in OUTCOMES:
        setattr(Rec, name, noting(name))

    res = Rec()
    T("test_x").run(res)
    outs = [e for e in res._events if e[0].startswith("add")]
    if len(outs) != 1:
        oc = "NoOutcome"
        details = {}
    else:
        oc = OUTCOMES.get(outs[0][0], "NoOutcome")
        details = outs[0][2] if len(outs[0]) > 2 and isinstance(outs[0][2], dict) else {}
    od = []
    for n, c in details.items():
        try:
            t = c.as_text()
        except Exception:
            continue
        if t.startswith("tok:"):
            od.append([n, int(t[4:])])
    after = res.at_outcome is not None and res.at_outcome == (len(ran), len(ran)) and len(done) == len(ran)
    return {"raised": ran, "after": after, "oc": oc, "details": sorted(od, key=lambda d: d[1])}


def drive(case):
    k = case["k"]
    if k == "repr":
        return drive_repr(case)
    if k in ("desc", "dexpr"):
        return drive_desc(case)
    return drive_test(case)


# ---------------------------------------------------------------------------
# Gallina
# ---------------------------------------------------------------------------
def t_cps(cps):
    cps = list(cps)
    if all(c < 5000 for c in cps):
        return "(sn %s)" % q.lst([str(c) for c in cps])
    return q.lst([q.N(c) for c in cps])


def t_detail(d):
    return q.pair(q.string(d[0]), q.nat(d[1]))


def t_kind(k):
    if k == "T":
        return "KText"
    if k == "D":
        return "KDict"
    if k == "O":
        return "KOther"
    return "(KRaised %s)" % q.nat(k[1])


def nonprint(cps):
    return sorted(set(c for c in cps if c >= 128 and unicodedata.category(chr(c))[0] in "CZ"))


def term(case, o):
    k = case["k"]
    if k == "repr":
        i = "(IRepr %s %s %s %s)" % (q.boolean(case["bytes"]), t_cps(case["s"]),
                                     q.option(case["ml"], q.boolean), t_cps(nonprint(case["s"])))
        return q.pair(i, "(ORepr %s %s)" % (t_cps(o["out"]), q.boolean(o["eb"])))
    if k in ("desc", "dexpr"):
        i = "(IDesc %s %s %s)" % (q.nat(case.get("id", 900)), q.boolean(not o.get("unmodelled", False)), q.boolean(o["hm"]))
        return q.pair(i, "(ODesc %s %s)" % (q.lst([t_kind(x) for x in o["kinds"]]),
                                            q.lst([q.boolean(b) for b in o["asserts"]])))
    i = "(ITest %s)" % q.record([("p_pre", q.lst([t_detail(d) for d in case["pre"]])),
                                 ("p_setup", t_steps(case["setup"])), ("p_setup_up", q.nat(case.get("setup_up", 0))),
                                 ("p_body", t_steps(case["body"])),
                                 ("p_teardown", t_steps(case["teardown"])),
                                 ("p_teardown_up", q.nat(case.get("teardown_up", len(case["teardown"])))),
                                 ("p_cleanups", q.lst([t_steps(c) for c in case["cleanups"]]))])
    ob = "(OTest %s %s %s %s)" % (q.lst([q.lst([q.boolean(b) for b in l]) for l in o["raised"]]), q.boolean(o["after"]),
                                  o["oc"], q.lst([t_detail(d) for d in o["details"]]))
    return q.pair(i, ob)


def t_step(st):
    kind, mis, _ = st
    if kind == 3:
        return q.record([("s_kind", "(Raise %s)" % EXCS[mis]), ("s_mis", "None")])
    return q.record([("s_kind", KINDS[kind]), ("s_mis", q.option(mis, lambda ds: q.lst([t_detail(d) for d in ds])))])


def t_steps(stmts):
    return q.lst([t_step(st) for st in stmts])


def perturb(case, o):
    o = dict(o)
    k = case["k"]
    if k == "repr":
        o["out"] = list(o["out"]) + [120]
    elif k in ("desc", "dexpr"):
        o["kinds"] = ["O"] + list(o["kinds"])[1:] if o["kinds"] else ["O"]
    else:
        o["after"] = not o["after"]
    return o


def nontrivial(case):
    k = case["k"]
    if k == "repr":
        return any(c in (39, 34, 92, 10) for c in case["s"])
    if k in ("desc", "dexpr"):
        return True
    return sum(len(case[f]) for f in ("setup", "body", "teardown")) + sum(len(c) for c in case["cleanups"]) >= 2


from .gen_c07 import generate, shrink, distribution   # noqa: E402
