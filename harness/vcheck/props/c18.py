"""C18 - StreamResultRouter picks exactly one destination; route prefixes push and pop inversely
(testtools/testresult/real.py: StreamResultRouter, StreamToQueue.route_code)."""
import datetime
import itertools

from .. import coqio as q

PROP = "C18"
CORR = "Corr.C18"
REQUIRES = ["Model.Router", "Spec.C18"]
PROOF_FILES = ["Proof/C18.v"]
MANIFEST = {
    "text": "Coq theorems over all histories of add_rule (accepted or rejected)/startTestRun/stopTestRun/status calls "
            "on a router (any rule set - keys re-mapped, sinks shared between rules and with the fallback -, any order, "
            "any event, any chain of StreamToQueue prefixes): the latest rule for a key is the one in force, a "
            "registration for start/stop is never taken back and no add_rule stops a sink; a rejected add_rule "
            "raises, reaches no sink and leaves every other observation unchanged; every call is judged against the calls "
            "made before it (invariant tying the router's dictionaries, _sinks and _in_run to the history), the "
            "consuming slice is the inverse of StreamToQueue.route_code (also at the level of '/'-joined strings), "
            "start/stop reach exactly the registered sinks, once per call, immediately on registration during a run. "
            "The hand-written Gallina model of StreamResultRouter is tied to /repo on every run by differential "
            "execution of model and implementation inside coqc; the oracle for a failing input is the executable "
            "statement spec_okb, proved to imply the readable Spec.",
    "note": "Trusted: Coq kernel + vm_compute; the harness (generators, drivers, Gallina printer); "
            "testtools.testresult.doubles.StreamResult as the recording sink; queue.Queue; route segments mapped to "
            "numbers ('/'-free non-empty names of different lengths). All theorems closed under the global context.",
    "technique": "Coq proof (history invariant, case analysis, list-of-segments inverse) + model/implementation "
                 "correspondence in coqc",
    "ref": "6 C18",
}
RULE = ("a router with/without fallback (do_start_stop_run on/off) over 6 recording sinks; rules over 2 route prefixes "
        "x consume on/off and test ids 2 + None x do_start_stop_run on/off inserted at every position of "
        "start,stop,start,stop (exhaustive for <= 2 rules, sampled in the quick tier), random histories with up to 5 "
        "rules; RE-MAPPED keys (a second add_rule for the same route prefix / test id: every ordered pair of rule "
        "options for a key x positions g1 <= g2, new sink fresh / the old one / the fallback object / another rule's, "
        "the old sink also serving another rule) and SHARED sinks (one sink for 2-4 rules with different keys, the "
        "fallback object as a rule's sink; do_start_stop_run=True on at most one registration of a sink object, the "
        "fallback's counted: inside_wf repairs later ones to False), also in half of "
        "the random histories; REJECTED add_rule calls (table REJECTS: "
        "unknown/None/unhashable policy -> ValueError/TypeError, route_prefix with '/', None or non-string, missing "
        "or foreign keyword, unhashable test id) x do_start_stop_run on/off at every position of start,stop,start,stop, "
        "alone, with a fresh sink next to accepted rules, retried with the same sink by an accepted rule (same or "
        "later position), repeated, and with the sink of an earlier accepted rule, also in the random histories; "
        "status probes with route None or 1-4 "
        "segments, direct or through 1-3 real StreamToQueue objects; non-trivial = at least one rule, one status "
        "call and one start/stop; distinct = distinct JSON")
TRUSTED = ["doubles.StreamResult records the calls it receives faithfully; queue.Queue is FIFO"]
ASSUMPTIONS = ["route segments, test ids, tags, file names, mime types and timestamps are mapped to small numbers by "
               "fixed injective tables (segment names have lengths 1..8 so that a wrong slice is visible)",
               "rule keys: route prefixes are single '/'-free non-empty segments (add_rule rejects the others)",
               "which add_rule calls are rejected is a table of the harness (REJECTS: the argument shapes the docstring "
               "of add_rule names - ValueError for an unknown policy, TypeError for arguments the policy cannot handle); "
               "the model carries what a rejected call does (raises, router unchanged, nothing delivered), not the "
               "argument binding of Python; the kind of exception is not compared, only that the call raised",
               "wf (the property's quantifier as checked): every sink OBJECT has at most one do_start_stop_run=True "
               "registration - as the fallback of a router built with do_start_stop_run, or by one accepted "
               "add_rule(.., do_start_stop_run=True). A sink registered twice is OUTSIDE the quantifier: 'reach exactly "
               "the sinks registered for them, once per run' is ambiguous there (per sink vs per registration; HEAD "
               "sends one startTestRun/stopTestRun per registration, a de-duplicating rewrite one per sink) and the "
               "check alarms on neither: the generator never leaves wf (inside_wf), so such histories are not run. "
               "Everything else is inside: a sink may serve several rules and be the fallback as well "
               "(do_start_stop_run=True on at most one of them), keys may be re-mapped, and a registration is never "
               "taken back, also when the sink's rule is re-mapped",
               "a second add_rule for a key replaces the rule (dict assignment): 'the rule for' a key is the latest one"]
EXPLANATION = ("Theorems in coq/Props/C18.v over all call histories; correspondence: every call of a generated history "
               "is made on a real StreamResultRouter (status calls directly or through real StreamToQueue objects "
               "whose queues are drained at once), the calls newly received by every sink after each call and "
               "whether the call raised are compared with coq/Model/Router.v and judged by Spec.C18.spec_okb; per "
               "status call the StreamToQueue chain is also popped by a chain of consuming routers and the route "
               "code that arrives is compared with the original. Sampled beyond the model's op type: add_rule calls "
               "made by a registered sink from inside its own startTestRun while a run is being opened (observed as "
               "those calls followed by Start), and the empty routing code '' for the outermost StreamToQueue and "
               "as a rule's route_prefix.")

SEGS = ["0", "1", "ab", "xyz", "q7", "long-seg", "Z", ""]
# segment 7 is the EMPTY string: used only as the routing code of the outermost StreamToQueue and as a rule's
# route_prefix (StreamToQueue('') turns None into '' and 'x' into '/x'; a rule for '' pops exactly that), never
# inside an event's own route code (the quantifier: non-empty segments) and never under a further queue
SEG_EMPTY = 7
SEGNUM = {s: k for k, s in enumerate(SEGS)}
STATUSES = ["exists", "inprogress", "xfail", "uxsuccess", "success", "fail", "skip", "unknown"]
BASE = datetime.datetime(2020, 1, 1, tzinfo=datetime.timezone.utc)
GARBAGE = 4999
NSINKS = 6

# add_rule calls that must be rejected: (policy, policy_args).  AddRej's `why` is the index into this table.
_UNHASHABLE = ["test0"]
REJECTS = [
    ("nosuch", {"route_prefix": "0"}),                                   # 0  unknown policy: ValueError
    ("route_code_prefixa", {"route_prefix": "0", "consume_route": True}),  # 1
    (None, {"test_id": "test0"}),                                        # 2
    ("", {}),                                                            # 3
    ("route_code_prefix", {"route_prefix": "0/1"}),                      # 4  more than one route step: TypeError
    ("route_code_prefix", {"route_prefix": "0/", "consume_route": True}),  # 5
    ("route_code_prefix", {"route_prefix": "/ab", "consume_route": False}),  # 6
    ("route_code_prefix", {"route_prefix": "/"}),                        # 7
    ("route_code_prefix", {"route_prefix": "ab/xyz/q7", "consume_route": True}),  # 8
    ("route_code_prefix", {"route_prefix": None}),                       # 9  `"/" in None` raises
    ("route_code_prefix", {"route_prefix": None, "consume_route": True}),  # 10
    ("route_code_prefix", {"route_prefix": 0}),                          # 11
    ("route_code_prefix", {}),                                           # 12 missing route_prefix
    ("route_code_prefix", {"consume_route": True}),                      # 13
    ("route_code_prefix", {"route_prefix": "0", "bogus": 1}),            # 14 foreign keyword
    ("route_code_prefix", {"route_prefix": "ab", "consume_route": True, "test_id": "test0"}),  # 15
    ("test_id", {}),                                                     # 16 missing test_id
    ("test_id", {"test_id": "test0", "route_prefix": "0"}),              # 17 foreign keyword
    ("test_id", {"test_id": None, "consume_route": True}),               # 18
    ("test_id", {"route_prefix": "0"}),                                  # 19
    ("test_id", {"test_id": _UNHASHABLE}),                               # 20 unhashable key
    (_UNHASHABLE, {"test_id": "test1"}),                                 # 21 unhashable policy
]


# ---------------- python values <-> numbers ----------------
def kwargs_of(ev):
    kw = {
        "test_id": None if ev["id"] is None else "test%d" % ev["id"],
        "test_status": None if ev["st"] is None else STATUSES[ev["st"]],
        "test_tags": None if ev["tags"] is None else set("tag%d" % t for t in ev["tags"]),
        "runnable": ev["run"],
        "file_name": None if ev["file"] is None else "file%d" % ev["file"],
        "file_bytes": None if ev["bytes"] is None else bytes(ev["bytes"]),
        "eof": ev["eof"],
        "mime_type": None if ev["mime"] is None else "text/m%d" % ev["mime"],
        "route_code": None if ev["route"] is None else "/".join(SEGS[s] for s in ev["route"]),
        "timestamp": None if ev["ts"] is None else BASE + datetime.timedelta(days=ev["ts"]),
    }
    if ev.get("omit"):          # leave out every keyword argument that has its default value
        defaults = {"runnable": True, "eof": False}
        for k in list(kw):
            if (k in defaults and kw[k] is defaults[k]) or (k not in defaults and kw[k] is None):
                del kw[k]
    return kw


def _num(prefix, s):
    if s is None:
        return None
    if isinstance(s, str) and s.startswith(prefix) and s[len(prefix):].isdigit():
        return min(int(s[len(prefix):]), GARBAGE)
    return GARBAGE


def route_num(rc):
    if rc is None:
        return None
    if not isinstance(rc, str):
        return [GARBAGE]
    return [SEGNUM.get(x, GARBAGE) for x in rc.split("/")]


def canon_event(e):
    """a doubles._StatusEvent -> the ten fields as numbers"""
    tags = e.test_tags
    if tags is not None:
        try:
            tags = sorted(_num("tag", t) for t in tags)
        except TypeError:
            tags = [GARBAGE]
    st = e.test_status
    ts = e.timestamp
    if ts is not None:
        try:
            d = ts - BASE
            ts = d.days if d.seconds == 0 and 0 <= d.days < GARBAGE else GARBAGE
        except Exception:
            ts = GARBAGE
    return {"id": _num("test", e.test_id),
            "st": None if st is None else (STATUSES.index(st) if st in STATUSES else GARBAGE),
            "tags": tags, "run": bool(e.runnable), "file": _num("file", e.file_name),
            "bytes": None if e.file_bytes is None else list(bytes(e.file_bytes)),
            "eof": bool(e.eof), "mime": _num("text/m", e.mime_type),
            "route": route_num(e.route_code), "ts": ts}


def canon_call(c):
    if c[0] == "startTestRun":
        return "S"
    if c[0] == "stopTestRun":
        return "T"
    return canon_event(c)


# ---------------- driving the implementation ----------------
def _send(target, via, kw):
    """status(**kw) on target, directly or through real StreamToQueue objects (codes innermost first) whose
    queues are drained synchronously"""
    import queue
    from testtools import StreamToQueue
    if not via:
        target.status(**kw)
        return
    qs = [queue.Queue() for _ in via]
    stqs = [StreamToQueue(qu, SEGS[c]) for qu, c in zip(qs, via)]
    stqs[0].status(**kw)
    for j in range(len(via)):
        nxt = stqs[j + 1] if j + 1 < len(via) else target
        while not qs[j].empty():
            d = qs[j].get()
            ev = d.pop("event")
            if ev == "status":
                nxt.status(**d)


def _roundtrip(via, kw):
    from testtools import StreamResultRouter
    from testtools.testresult.doubles import StreamResult as Rec
    final = Rec()
    nxt = final
    for c in via:
        r = StreamResultRouter(final, do_start_stop_run=False)
        r.add_rule(nxt, "route_code_prefix", route_prefix=SEGS[c], consume_route=True)
        nxt = r
    _send(nxt, via, kw)
    evs = final._events
    assert len(evs) == 1 and evs[0][0] == "status", evs
    return route_num(evs[0].route_code)


def drive(case):
    from testtools import StreamResultRouter
    from testtools.testresult.doubles import StreamResult as Rec
    sinks = [Rec() for _ in range(case["n"])]
    fbk = sinks[case["fb"]] if case["fb"] is not None else None
    if fbk is None and case["fb_ss"]:
        router = StreamResultRouter()
    else:
        router = StreamResultRouter(fbk, do_start_stop_run=case["fb_ss"])
    steps, rounds = [], []

    def add(idx, op):
        if op[0] == "P":
            args = {"route_prefix": SEGS[op[2]]}
            if op[3] or idx % 2:
                args["consume_route"] = op[3]
            if op[4] or idx % 3 == 0:
                args["do_start_stop_run"] = op[4]
            router.add_rule(sinks[op[1]], "route_code_prefix", **args)
        else:
            args = {"test_id": None if op[2] is None else "test%d" % op[2]}
            if op[3] or idx % 2:
                args["do_start_stop_run"] = op[3]
            router.add_rule(sinks[op[1]], "test_id", **args)
    # re-entrant registration: [s_index, sink, n] - the n add_rule calls just before the startTestRun at s_index are
    # made by `sink` from inside its own startTestRun, i.e. while the router is still handing startTestRun round.
    # The model has them as ordinary calls just before Start (the router is not in a run yet, so nothing is started
    # at once, and the loop over the live _sinks list reaches the new sinks): observed in that shape.
    reent = {r[0]: r for r in case.get("reent", [])}
    deferred = set(i for r in reent.values() for i in range(r[0] - r[2], r[0]))
    for idx, op in enumerate(case["ops"]):
        before = [len(s._events) for s in sinks]
        raised = False
        k = op[0]
        if idx in deferred:
            steps.append([False, [[] for _ in sinks]])
            continue
        try:
            if k in ("P", "I"):
                add(idx, op)
            elif k == "S" and idx in reent:
                _, who, n = reent[idx]
                rec = sinks[who]
                plain = rec.startTestRun
                fired = []

                def hooked(plain=plain, idx=idx, n=n, fired=fired):
                    plain()
                    if not fired:
                        fired.append(1)
                        for j in range(idx - n, idx):
                            add(j, case["ops"][j])
                rec.startTestRun = hooked
                try:
                    router.startTestRun()
                finally:
                    del rec.startTestRun
            elif k == "R":
                policy, pargs = REJECTS[op[2]]
                args = dict(pargs)
                if op[3] or idx % 3 == 0:
                    args["do_start_stop_run"] = op[3]
                router.add_rule(sinks[op[1]], policy, **args)
            elif k == "S":
                router.startTestRun()
            elif k == "T":
                router.stopTestRun()
            else:
                _send(router, op[1], kwargs_of(op[2]))
        except Exception:
            raised = True
        steps.append([raised, [[canon_call(c) for c in s._events[b:]] for s, b in zip(sinks, before)]])
        if k == "E":
            rounds.append(_roundtrip(op[1], kwargs_of(op[2])))
    return {"steps": steps, "round": rounds}


# ---------------- Gallina ----------------
def t_onat(x):
    return q.option(x, q.nat)


def t_olist(x):
    return q.option(x, lambda l: q.lst([q.nat(v) for v in l]))


def t_event(e):
    return "(Ev %s %s %s %s %s %s %s %s %s %s)" % (
        t_onat(e["id"]), t_onat(e["st"]), t_olist(e["tags"]), q.boolean(e["run"]), t_onat(e["file"]),
        t_olist(e["bytes"]), q.boolean(e["eof"]), t_onat(e["mime"]), t_olist(e["route"]), t_onat(e["ts"]))


def t_op(op):
    k = op[0]
    if k == "P":
        return "(AddPrefix %s %s %s %s)" % (q.nat(op[1]), q.nat(op[2]), q.boolean(op[3]), q.boolean(op[4]))
    if k == "I":
        return "(AddId %s %s %s)" % (q.nat(op[1]), t_onat(op[2]), q.boolean(op[3]))
    if k == "R":
        return "(AddRej %s %s %s)" % (q.nat(op[1]), q.nat(op[2]), q.boolean(op[3]))
    if k == "S":
        return "Start"
    if k == "T":
        return "Stop"
    return "(Status %s %s)" % (q.lst([q.nat(c) for c in op[1]]), t_event(op[2]))


def t_call(c):
    if c == "S":
        return "StartRun"
    if c == "T":
        return "StopRun"
    return "(St %s)" % t_event(c)


def term(case, o):
    i = q.record([("n_sinks", q.nat(case["n"])), ("fb", t_onat(case["fb"])), ("fb_ss", q.boolean(case["fb_ss"])),
                  ("ops", q.lst([t_op(op) for op in case["ops"]]))])
    steps = q.lst(["(Build_step_obs %s %s)" % (q.boolean(r), q.lst([q.lst([t_call(c) for c in calls]) for calls in new]))
                   for r, new in o["steps"]])
    ob = q.record([("o_steps", steps), ("o_round", q.lst([t_olist(r) for r in o["round"]]))])
    return q.pair(i, ob)


def perturb(case, o):
    return {"steps": o["steps"], "round": list(o["round"]) + [[6]]}


# ---------------- generation ----------------
ROUTES = [None, [0], [2], [1], [0, 1], [2, 0], [1, 0], [0, 2, 3], [2, 2, 1], [3, 3], [2, 3, 1, 4], [0, 0, 0, 0],
          [5, 0], [0, 5, 6, 2]]
VIAS = [[], [], [], [0], [2], [1], [0, 2], [2, 0, 1], [5], [0, 0], [SEG_EMPTY], [0, SEG_EMPTY]]
PREFIX_KEYS = [0, 2]
ID_KEYS = [0, 1, None]


def rand_event(rng, route=None, tid="?"):
    e = {"id": rng.choice([0, 1, None, 2]) if tid == "?" else tid,
         "st": rng.choice([None, 1, 4, 5, 3, 0]),
         "tags": rng.choice([None, None, [1], [1, 2], []]),
         "run": rng.random() < 0.8,
         "file": None, "bytes": None, "eof": False, "mime": None,
         "route": rng.choice(ROUTES) if route is None else (None if route == "none" else route),
         "ts": rng.choice([None, 0, 3])}
    if rng.random() < 0.3:
        e["file"] = rng.randint(0, 2)
        e["bytes"] = [rng.randint(0, 255) for _ in range(rng.randint(0, 3))]
        e["eof"] = rng.random() < 0.5
        e["mime"] = rng.choice([None, 0, 1])
    e["omit"] = rng.random() < 0.5
    return e


def probes(rng, k):
    out = []
    for _ in range(k):
        out.append(["E", list(rng.choice(VIAS)), rand_event(rng)])
    return out


def full_probe(rng):
    """one event per (route shape relevant to the two prefix keys) x (test id), via chosen at random"""
    out = []
    for route in ["none", [0], [2], [1], [0, 1], [2, 0, 3], [1, 0], [2, 3, 1, 4]]:
        for tid in rng.sample([0, 1, None, 2], 2):
            out.append(["E", list(rng.choice(VIAS)), rand_event(rng, route, tid)])
    return out


def rule_options():
    opts = []
    for key in PREFIX_KEYS:
        for consume in (False, True):
            for ss in (False, True):
                opts.append(("P", key, consume, ss))
    for key in ID_KEYS:
        for ss in (False, True):
            opts.append(("I", key, ss))
    return opts


def mk_rule(rule, sink):
    if rule[0] == "P":
        return ["P", sink, rule[1], rule[2], rule[3]]
    if rule[0] == "R":
        return ["R", sink, rule[1], rule[2]]
    return ["I", sink, rule[1], rule[2]]


def rej(why, ss, share="fresh"):
    """a rejected add_rule as a `placed` rule; share: 'fresh' = its own sink, 'next' = the sink the next placed
    rule gets too (the caller retries / repeats with the same sink), 'prev' = the sink of the rule placed before"""
    return ("R", why, ss, share)


def skeleton_case(rng, placed, fbmode, nprobe=2, final=True):
    """placed: list of (rule, gap) or (rule, gap, sink) with gap in 0..4 around S T S T (sink: the sink number to
    use - 0 is the fallback object when there is one - instead of the next fresh one); fbmode: 0 none,
    1 fallback without, 2 with start/stop"""
    ops = []
    marks = ["S", "T", "S", "T"]
    sink = 1
    for gap in range(5):
        for entry in placed:
            rule, g = entry[0], entry[1]
            if g == gap:
                if len(entry) > 2:
                    ops.append(mk_rule(rule, entry[2]))
                    continue
                if rule[0] == "R" and rule[3] == "prev":
                    ops.append(mk_rule(rule, max(sink - 1, 1)))
                    continue
                ops.append(mk_rule(rule, sink))
                if not (rule[0] == "R" and rule[3] == "next"):
                    sink += 1
        ops += probes(rng, nprobe)
        if gap < 4:
            ops.append([marks[gap]])
    if final:
        ops += full_probe(rng)
    return {"n": NSINKS, "fb": None if fbmode == 0 else 0, "fb_ss": fbmode == 2, "ops": ops}


def random_case(rng):
    """a random history inside the property's quantifier: startTestRun and stopTestRun alternating (a second
    startTestRun without a stopTestRun is outside the StreamResult protocol: not generated, although the model
    covers it); half of them with distinct sinks and one rule per key, half with re-mapped keys and shared sinks"""
    n_ops = rng.randint(4, 22)
    ops = []
    free = [1, 2, 3, 4, 5]
    rng.shuffle(free)
    in_run = False
    used_keys = set()
    opts = rule_options()
    seen = []
    # half of the histories: keys are re-mapped (a later add_rule for the same route prefix / test id) and sinks
    # are shared (one sink for several rules, the fallback object as a rule's sink)
    loose = rng.random() < 0.5
    for _ in range(n_ops):
        x = rng.random()
        if x < 0.10:
            # a rejected add_rule: with a sink not used yet (possibly used later: the retry), with the sink of an
            # earlier rule or of an earlier rejected call, or with the fallback
            pool = ([free[-1]] if free else []) + seen + [0]
            s = rng.choice(pool)
            seen.append(s)
            ops.append(["R", s, rng.randrange(len(REJECTS)), rng.random() < 0.6])
            continue
        if x < 0.30 and free:
            rule = rng.choice(opts)
            key = (rule[0], rule[1])
            if loose and used_keys and rng.random() < 0.4:       # re-map a key that has a rule
                kind, k = rng.choice(sorted(used_keys, key=repr))
                rule = rng.choice([o for o in opts if (o[0], o[1]) == (kind, k)])
                key = (kind, k)
            if key in used_keys and not loose:
                continue
            used_keys.add(key)
            if loose and seen and rng.random() < 0.4:
                s = rng.choice(seen + [0])                       # a sink that is in use already / the fallback
            else:
                s = free.pop()
            seen.append(s)
            ops.append(mk_rule(rule, s))
        elif x < 0.46:
            ops.append(["T" if in_run else "S"])
            in_run = not in_run
        else:
            ops.append(["E", list(rng.choice(VIAS)), rand_event(rng)])
    fbmode = rng.choice([0, 1, 2, 2])
    if fbmode == 0 and rng.random() < 0.3:
        return {"n": NSINKS, "fb": None, "fb_ss": True, "ops": ops}     # StreamResultRouter() with its defaults
    return {"n": NSINKS, "fb": None if fbmode == 0 else 0, "fb_ss": fbmode == 2, "ops": ops}


def ev(route=None, tid=None, **kw):
    e = {"id": tid, "st": 4, "tags": None, "run": True, "file": None, "bytes": None, "eof": False, "mime": None,
         "route": route, "ts": None, "omit": False}
    e.update(kw)
    return e


def fixed_cases():
    return [
        # the docstring example
        {"n": 2, "fb": None, "fb_ss": True, "ops": [["P", 1, 0, True, False], ["E", [], ev([0, 1], 0, st=3)]]},
        # F6: a rule added during a run without do_start_stop_run must not be started
        {"n": 3, "fb": 0, "fb_ss": True, "ops": [["S"], ["I", 1, 0, False], ["P", 2, 0, True, False], ["T"]]},
        {"n": 3, "fb": 0, "fb_ss": True, "ops": [["S"], ["I", 1, 0, True], ["P", 2, 0, True, True], ["T"], ["S"], ["T"]]},
        # no fallback, nothing matches: raises; state intact afterwards
        {"n": 2, "fb": None, "fb_ss": False, "ops": [["E", [], ev(None, 0)], ["I", 1, 0, False], ["E", [], ev(None, 0)],
                                                     ["E", [], ev(None, 1)]]},
        # precedence prefix > id > fallback, id rule for None
        {"n": 4, "fb": 0, "fb_ss": False, "ops": [["P", 1, 0, False, False], ["I", 2, 0, False], ["I", 3, None, False],
                                                  ["E", [], ev([0], 0)], ["E", [], ev([1], 0)], ["E", [], ev([1], None)],
                                                  ["E", [], ev(None, None)], ["E", [], ev(None, 2)]]},
        # consuming: 1..4 segments, prefix repeated in the tail, long names
        {"n": 3, "fb": 0, "fb_ss": False, "ops": [["P", 1, 0, True, False], ["P", 2, 5, True, False],
                                                  ["E", [], ev([0])], ["E", [], ev([0, 0])], ["E", [], ev([0, 0, 0, 0])],
                                                  ["E", [], ev([5, 0])], ["E", [], ev([5])], ["E", [0], ev(None)],
                                                  ["E", [0], ev([3, 1])], ["E", [1, 5], ev([2])], ["E", [0, 0, 0], ev([0])]]},
        # rejected add_rule calls: during a run with do_start_stop_run, retried with the same sink; before a run;
        # with the sink of an accepted rule; a rejected route_prefix=None must not capture events without route code
        {"n": 3, "fb": 0, "fb_ss": True, "ops": [["S"], ["R", 1, 5, True], ["P", 1, 0, True, True],
                                                 ["E", [], ev([0, 1], 0)], ["T"], ["S"], ["T"]]},
        {"n": 3, "fb": 0, "fb_ss": True, "ops": [["R", 1, 4, True], ["R", 2, 0, True], ["S"], ["E", [], ev([0, 1], 0)],
                                                 ["T"], ["R", 1, 17, True], ["I", 1, 0, True], ["S"], ["T"]]},
        {"n": 3, "fb": None, "fb_ss": False, "ops": [["I", 1, 0, True], ["S"], ["R", 1, 14, True], ["R", 2, 9, False],
                                                     ["E", [], ev(None, 0)], ["E", [], ev(None, 1)], ["T"]]},
        {"n": 3, "fb": 0, "fb_ss": False, "ops": [["R", 1, 10, True], ["R", 2, 20, True], ["E", [], ev(None, None)],
                                                  ["E", [], ev([0], 0)], ["S"], ["T"]]},
        # re-mapping: the replaced sink (registered for start/stop, also the target of a test-id rule) is not
        # stopped, keeps its other rule and its registration; prefix events go to the new sink only
        {"n": 3, "fb": None, "fb_ss": False, "ops": [["P", 1, 0, False, True], ["I", 1, 1, False], ["S"],
                                                     ["E", [], ev([0, 3], 1)], ["P", 2, 0, True, True],
                                                     ["E", [], ev([0, 3], 1)], ["E", [], ev(None, 1)], ["T"], ["S"],
                                                     ["E", [], ev([0], 0)], ["T"]]},
        # re-mapping a test id (None) before a run; the replaced sink is referenced by no rule any more and still
        # gets start/stop; re-mapping to the same sink; a rule whose sink is the fallback
        {"n": 4, "fb": 0, "fb_ss": True, "ops": [["I", 1, None, True], ["I", 2, None, True], ["I", 2, None, False],
                                                 ["P", 0, 2, True, False], ["S"], ["E", [], ev(None, None)],
                                                 ["E", [], ev([2, 1], 0)], ["T"]]},
        # the empty routing code '': pushed by StreamToQueue('') onto None and onto codes of 1..3 segments, popped by a
        # consuming rule for '', kept by a non-consuming one, and with no rule for it (fallback gets '/x' unchanged)
        {"n": 3, "fb": 0, "fb_ss": False, "ops": [["E", [SEG_EMPTY], ev(None, 0)], ["E", [SEG_EMPTY], ev([3], 0)],
                                                  ["P", 1, SEG_EMPTY, True, False], ["E", [SEG_EMPTY], ev(None, 0)],
                                                  ["E", [SEG_EMPTY], ev([3], 0)], ["E", [0, SEG_EMPTY], ev([2, 1], 1)],
                                                  ["E", [], ev([3], 0)], ["P", 2, SEG_EMPTY, False, False],
                                                  ["E", [SEG_EMPTY], ev([0, 2, 3], None)], ["E", [SEG_EMPTY], ev(None, None)]]},
        # empty history
        {"n": 1, "fb": 0, "fb_ss": True, "ops": []},
    ]


def inside_wf(case):
    """keep the history inside wf: a sink object is registered for start/stop at most once (the fallback of a router
    built with do_start_stop_run counts); a later accepted add_rule for the same object gets do_start_stop_run=False"""
    reg = set()
    if case["fb"] is not None and case["fb_ss"]:
        reg.add(case["fb"])
    ops = []
    for op in case["ops"]:
        if op[0] in ("P", "I") and op[-1]:
            if op[1] in reg:
                op = op[:-1] + [False]
            else:
                reg.add(op[1])
        ops.append(op)
    return dict(case, ops=ops)


def registered_before(case, i):
    reg = []
    if case["fb"] is not None and case["fb_ss"]:
        reg.append(case["fb"])
    for op in case["ops"][:i]:
        if op[0] in ("P", "I") and op[-1] and op[1] not in reg:
            reg.append(op[1])
    return reg


def reentrant_variant(case, rng):
    """a copy of the history in which one startTestRun that opens a run is preceded by one or two new add_rule calls
    that a sink already registered for start/stop makes from inside its own startTestRun (None when the history
    has no such startTestRun)"""
    ops = case["ops"]
    in_run, spots = False, []
    for i, op in enumerate(ops):
        if op[0] == "S":
            if not in_run and registered_before(case, i):
                spots.append(i)
            in_run = True
        elif op[0] == "T":
            in_run = False
    if not spots:
        return None
    i = rng.choice(spots)
    used = set(op[1] for op in ops if op[0] in "PIR") | {0}
    free = [k for k in range(1, case["n"]) if k not in used]
    opts = rule_options()
    adds = []
    for _ in range(rng.choice([1, 1, 2])):
        rule = rng.choice(opts)
        rule = rule[:-1] + (rng.random() < 0.75,)                    # mostly registered for start/stop
        sink = free.pop() if free and rng.random() < 0.8 else rng.randrange(case["n"])
        adds.append(mk_rule(rule, sink))
    c = inside_wf(dict(case, ops=ops[:i] + adds + ops[i:]))
    who = rng.choice(registered_before(c, i))
    c["reent"] = [[i + len(adds), who, len(adds)]]
    return c


def generate(rng, tier):
    cases = [inside_wf(c) for c in _generate(rng, tier)]
    extra = []
    for c in rng.sample(cases, min(len(cases), 500 if tier == "quick" else 5000)):
        v = reentrant_variant(c, rng)
        if v is not None:
            extra.append(v)
    return cases + REENTRANT_FIXED + extra


# a fallback registered for start/stop installs the per-worker rules when it is started (opening the first and the
# second run); a rule's sink registers a further sink; re-entrant rules without do_start_stop_run stay unstarted
REENTRANT_FIXED = [
    {"n": 3, "fb": 0, "fb_ss": True, "reent": [[2, 0, 2]],
     "ops": [["P", 1, 0, True, True], ["I", 2, 0, True], ["S"], ["E", [], ev([0, 1], 1)], ["E", [], ev(None, 0)], ["T"],
             ["S"], ["T"]]},
    {"n": 4, "fb": 0, "fb_ss": True, "reent": [[5, 1, 2]],
     "ops": [["P", 1, 0, True, True], ["S"], ["T"], ["P", 2, 2, False, True], ["I", 3, 1, False], ["S"],
             ["E", [], ev([2, 1], 1)], ["E", [], ev(None, 1)], ["T"]]},
]


def _generate(rng, tier):
    cases = fixed_cases()
    opts = rule_options()
    # one rule at every position, every fallback mode
    for rule in opts:
        for gap in range(5):
            for fbmode in range(3):
                cases.append(skeleton_case(rng, [(rule, gap)], fbmode))
    # one rejected add_rule at every position: every entry of REJECTS x do_start_stop_run; alone, retried by an
    # accepted rule with the same sink at the same or a later position, after an accepted rule with that rule's sink
    for why in range(len(REJECTS)):
        for ss in (False, True):
            for gap in range(5):
                fbmodes = [rng.randrange(3)] if tier == "quick" else range(3)
                for fbmode in fbmodes:
                    cases.append(skeleton_case(rng, [(rej(why, ss), gap)], fbmode, nprobe=1))
                    good = rng.choice(opts)
                    later = rng.randint(gap, 4)
                    cases.append(skeleton_case(rng, [(rej(why, ss, "next"), gap), (good, later)], fbmode, nprobe=1,
                                               final=rng.random() < 0.5))
                    good = rng.choice(opts)
                    earlier = rng.randint(0, gap)
                    cases.append(skeleton_case(rng, [(good, earlier), (rej(why, ss, "prev"), gap)], fbmode, nprobe=1,
                                               final=rng.random() < 0.5))
    # rejected calls among two or three accepted rules: fresh sink, repeated, retried
    n_rej = 400 if tier == "quick" else 6000
    for _ in range(n_rej):
        k = rng.randint(1, 3)
        keys = rng.sample([("P", 0), ("P", 2), ("I", 0), ("I", 1), ("I", None)], k)
        placed = []
        for kind, key in keys:
            rule = (kind, key, rng.random() < 0.5, rng.random() < 0.5) if kind == "P" else (kind, key, rng.random() < 0.5)
            placed.append((rule, rng.randrange(5)))
        for _ in range(rng.randint(1, 2)):
            r = rej(rng.randrange(len(REJECTS)), rng.random() < 0.7, rng.choice(["fresh", "next", "next", "prev"]))
            placed.insert(rng.randint(0, len(placed)), (r, rng.randrange(5)))
        placed.sort(key=lambda rg: rg[1])        # stable: keeps 'next'/'prev' neighbours of one gap together
        cases.append(skeleton_case(rng, placed, rng.randrange(3), nprobe=1, final=rng.random() < 0.5))
    # re-mapping a key: every ordered pair of rule options for the same key (old sink 1, new sink 2) at every pair of
    # positions g1 <= g2; variants: the old sink also serves another rule (different key, added at a random
    # position), the new sink is the old one / the fallback object / the sink of another rule
    remaps = []
    for r1 in opts:
        for r2 in opts:
            if (r1[0], r1[1]) != (r2[0], r2[1]):
                continue
            for g1 in range(5):
                for g2 in range(g1, 5):
                    remaps.append((r1, g1, r2, g2))
    if tier == "quick":
        remaps = rng.sample(remaps, 330)
    for r1, g1, r2, g2 in remaps:
        fbmodes = [rng.randrange(3)] if tier == "quick" else range(3)
        for fbmode in fbmodes:
            cases.append(skeleton_case(rng, [(r1, g1, 1), (r2, g2, 2)], fbmode, nprobe=1, final=rng.random() < 0.5))
            other = rng.choice([o for o in opts if (o[0], o[1]) != (r1[0], r1[1])])
            og = rng.randrange(5)
            third = [(other, og, 1)]
            placed = [(r1, g1, 1), (r2, g2, 2)]
            placed.insert(rng.randint(0, 2), third[0])
            cases.append(skeleton_case(rng, placed, fbmode, nprobe=1, final=rng.random() < 0.5))
            new_sink = rng.choice([1, 0, 3])
            placed = [(r1, g1, 1), (r2, g2, new_sink)]
            if new_sink == 3:
                placed.insert(0, (other, rng.randint(0, g2), 3))
            cases.append(skeleton_case(rng, placed, fbmode, nprobe=1, final=rng.random() < 0.5))
    # one sink for two or three rules with different keys (two prefixes, a prefix and a test id, a rule and the
    # fallback object), any registration pattern
    n_shared = 300 if tier == "quick" else 4000
    for _ in range(n_shared):
        k = rng.randint(2, 4)
        keys = rng.sample([("P", 0), ("P", 2), ("I", 0), ("I", 1), ("I", None)], k)
        sinks = [rng.choice([0, 1, 1, 2]) for _ in keys]
        placed = []
        for (kind, key), sk in zip(keys, sinks):
            rule = (kind, key, rng.random() < 0.5, rng.random() < 0.5) if kind == "P" else (kind, key, rng.random() < 0.5)
            placed.append((rule, rng.randrange(5), sk))
        if rng.random() < 0.5:                                   # and one of the keys re-mapped to yet another sink
            kind, key = rng.choice(keys)
            rule = (kind, key, rng.random() < 0.5, rng.random() < 0.5) if kind == "P" else (kind, key, rng.random() < 0.5)
            placed.append((rule, rng.randrange(5), rng.choice([0, 1, 2, 3])))
        cases.append(skeleton_case(rng, placed, rng.randrange(3), nprobe=1))
    # two rules: exhaustive over (rule, gap) pairs with distinct keys; sampled in the quick tier
    pairs = []
    for (r1, g1), (r2, g2) in itertools.combinations([(r, g) for r in opts for g in range(5)], 2):
        if (r1[0], r1[1]) == (r2[0], r2[1]):
            continue
        pairs.append(((r1, g1), (r2, g2)))
    if tier == "quick":
        pairs = rng.sample(pairs, 700)
    for a, b in pairs:
        fbmodes = [rng.randrange(3)] if tier == "quick" else range(3)
        for fbmode in fbmodes:
            placed = [a, b] if rng.random() < 0.5 else [b, a]
            cases.append(skeleton_case(rng, placed, fbmode, nprobe=1, final=rng.random() < 0.5))
    # three to five rules
    n_multi = 300 if tier == "quick" else 3000
    for _ in range(n_multi):
        k = rng.randint(3, 5)
        keys = rng.sample([("P", 0), ("P", 2), ("I", 0), ("I", 1), ("I", None)], k)
        placed = []
        for kind, key in keys:
            rule = (kind, key, rng.random() < 0.5, rng.random() < 0.5) if kind == "P" else (kind, key, rng.random() < 0.5)
            placed.append((rule, rng.randrange(5)))
        cases.append(skeleton_case(rng, placed, rng.randrange(3), nprobe=1))
    n_rand = 1200 if tier == "quick" else 16000
    for _ in range(n_rand):
        cases.append(random_case(rng))
    return cases


def nontrivial(case):
    kinds = set(op[0] for op in case["ops"])
    return bool(kinds & {"P", "I", "R"}) and "E" in kinds and bool(kinds & {"S", "T"})


def shrink(case):
    if case.get("reent"):
        # first try the same calls made from outside; the positions of a re-entrant group are not re-numbered
        yield {k: v for k, v in case.items() if k != "reent"}
        return
    ops = case["ops"]
    status = [i for i, op in enumerate(ops) if op[0] == "E"]
    if len(status) > 2:                 # drop all status calls but one / half of them at once
        for keep in (status[:1], status[-1:], status[:len(status) // 2], status[len(status) // 2:]):
            yield dict(case, ops=[op for i, op in enumerate(ops) if op[0] != "E" or i in keep])
    if len(ops) > 3:
        yield dict(case, ops=ops[:len(ops) // 2])
        yield dict(case, ops=ops[len(ops) // 2:])
    for i in range(len(ops)):
        yield dict(case, ops=ops[:i] + ops[i + 1:])
    for i, op in enumerate(ops):
        if op[0] != "E":
            continue
        via, e = op[1], op[2]

        def re(v, e2):
            return dict(case, ops=ops[:i] + [["E", v, e2]] + ops[i + 1:])
        if via:
            yield re(via[1:], e)
            yield re(via[:-1], e)
        if e["route"]:
            yield re(via, dict(e, route=e["route"][:-1] or None))
        base = ev(e["route"], e["id"])
        for f in ("st", "tags", "run", "file", "bytes", "eof", "mime", "ts", "omit"):
            if e[f] != base[f]:
                e2 = dict(e)
                e2[f] = base[f]
                if f == "file":
                    e2["bytes"] = None
                yield re(via, e2)
    if case["fb"] is not None:
        if case["fb_ss"]:
            yield dict(case, fb_ss=False)


def distribution(cases):
    d = {"rules": {}, "fallback": {"none": 0, "plain": 0, "start_stop": 0}, "route_len": {}, "via_len": {},
         "rules_added_in_run": 0, "rules_added_outside_run": 0, "status_calls": 0, "duplicate_keys": 0,
         "shared_sinks": 0, "ops": 0, "outside_wf_registered_twice": 0, "shared_sink_registered_once": 0,
         "rejected": {"cases_with": 0, "calls": 0, "in_run": 0, "outside_run": 0, "start_stop": 0,
                      "sink_accepted_later": 0, "sink_accepted_before": 0, "by_entry": {}}}
    for c in cases:
        rules = [op for op in c["ops"] if op[0] in "PI"]
        d["rules"][len(rules)] = d["rules"].get(len(rules), 0) + 1
        d["fallback"]["none" if c["fb"] is None else ("start_stop" if c["fb_ss"] else "plain")] += 1
        keys = [(op[0], op[2]) for op in rules]
        d["duplicate_keys"] += len(set(keys)) != len(keys)
        sinks = [op[1] for op in rules] + ([c["fb"]] if c["fb"] is not None else [])
        d["shared_sinks"] += len(set(sinks)) != len(sinks)
        d["outside_wf_registered_twice"] += inside_wf(c) != c
        regd = [op[1] for op in rules if op[-1]] + ([c["fb"]] if c["fb"] is not None and c["fb_ss"] else [])
        d["shared_sink_registered_once"] += any(sinks.count(x) > 1 for x in regd)
        run = False
        rj = d["rejected"]
        rj["cases_with"] += any(op[0] == "R" for op in c["ops"])
        for idx, op in enumerate(c["ops"]):
            d["ops"] += 1
            if op[0] == "R":
                rj["calls"] += 1
                rj["in_run" if run else "outside_run"] += 1
                rj["start_stop"] += bool(op[3])
                rj["by_entry"][op[2]] = rj["by_entry"].get(op[2], 0) + 1
                rj["sink_accepted_later"] += any(o[0] in "PI" and o[1] == op[1] for o in c["ops"][idx + 1:])
                rj["sink_accepted_before"] += any(o[0] in "PI" and o[1] == op[1] for o in c["ops"][:idx])
                continue
            if op[0] == "S":
                run = True
            elif op[0] == "T":
                run = False
            elif op[0] in "PI":
                d["rules_added_in_run" if run else "rules_added_outside_run"] += 1
            else:
                d["status_calls"] += 1
                n = 0 if op[2]["route"] is None else len(op[2]["route"])
                d["route_len"][n] = d["route_len"].get(n, 0) + 1
                d["via_len"][len(op[1])] = d["via_len"].get(len(op[1]), 0) + 1
    return d
