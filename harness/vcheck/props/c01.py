"""C01 - every test run is bracketed and yields exactly one outcome (runtest.py, testcase.py)."""
from .. import coqio as q
from . import runprog as R

PROP = "C01"
CORR = "Corr.C01"
REQUIRES = ["Gen.Handlers", "Model.Run", "Spec.Run", "Spec.C01"]
PROOF_FILES = ["Proof/RunCore.v", "Proof/RunExtra.v", "Proof/RunTable.v", "Proof/RunVerdict.v", "Proof/C01.v"]
MANIFEST = {
    "text": "Coq theorems over all finite test programs and all histories of earlier runs of the same instance (any nesting of cleanup registration, any exceptions incl. "
            "nested/empty MultipleExceptions, KeyboardInterrupt/SystemExit, user subclasses, expectThat/force_failure, "
            "skip and expectedFailure decorators, missing upcalls, fixtures), all seven result flavours and all configurations of the "
            "RunTest factory (RunTest, subclasses and functions with explicit / star / keyword-only / ** signatures, functools.partial, "
            "callable objects, bound methods, factories written for the API before last_resort; installed as run_tests_with, "
            "runTest= or @run_test_with with and without extra keyword arguments) about a "
            "hand-written Gallina model of RunTest/TestCase.run: the delivered calls are startTest, exactly one "
            "outcome, stopTest; the first exception not derived from Exception is reported as the error and "
            "propagates after stopTest, and setUp, the test and tearDown (iff setUp returned) and every registered "
            "cleanup still run; proved by invariants over the fuelled cleanup machine, with the handler table "
            "regenerated from the live code. Tied to /repo on every run by differential execution of model and "
            "implementation inside coqc; the oracle for a failing input is the executable statement spec_okb, proved "
            "to imply the readable Spec.",
    "note": "Trusted: Coq kernel + vm_compute; the harness (generator, driver building real TestCase subclasses, "
            "Gallina printer); the per-flavour delivery map (2.6-style has no addSkip/addExpectedFailure/"
            "addUnexpectedSuccess, StreamResult gets 'fail' for errors and no stopTest event) is a 4-line table "
            "validated by the correspondence, the adapters themselves are C08/C09's subject. Exceptions raised by the "
            "result object or by an addOnException handler are outside the quantifier. fixtures.Fixture behaviour is "
            "modelled, validated by correspondence. All theorems closed under the global context.",
    "technique": "Coq proof (invariants over a fuelled stack machine, induction over the program tree) + "
                 "model/implementation correspondence in coqc",
    "ref": "6 C01",
}
RULE = ("programs = setUp/test/tearDown bodies over statements (raise any of ~25 exception shapes, addCleanup of a nested "
        "body, expectThat, assertThat, force_failure, expectFailure, useFixture, patch, addDetail, addOnException) with "
        "skip/expectedFailure decorators, missing upcalls and inserted handlers for Exception-derived classes, each run "
        "against one of 7 result flavours; exhaustive: every assignment of 10 behaviours to setUp/test/tearDown/0-1(2) "
        "cleanups; random: nested registration to depth 3; non-trivial = at least 2 raising statements, or a "
        "non-Exception exception, or a nested cleanup; distinct = distinct JSON; histories: the observed run is preceded by 0-3 "
        "runs of the SAME instance with per-run scripted stages (every pair of behaviours in test/tearDown/setUp + cleanup, then a "
        "passing / failing / skipping / interrupted run; random histories), decorators fixed per class; plus @unittest.expectedFailure tests whose body ends in every behaviour (incl. SystemExit / KeyboardInterrupt passing through the wrapper) with later stages raising, force_failure set on the failed-setUp path, fixtures with an unevaluable detail")
TRUSTED = ["the result doubles of testtools.testresult.doubles and a logging testtools.TestResult subclass are the "
           "observation devices", "fixtures.Fixture setUp/cleanUp (fixtures 4.3.2) is modelled, not verified"]
ASSUMPTIONS = ["the result object and addOnException handlers do not raise",
               "a RunTest factory builds a plain testtools.RunTest from the arguments it is given, does not raise and is the "
               "same for every run of the instance (15 factory shapes x 4 ways of installing, Model.Run.factory / via); "
               "custom RunTest subclasses overriding _run_user / _run_core etc. are outside (AsynchronousDeferredRunTest: C12-C14)",
               "in a history of runs of one instance the skip / expectedFailure decorators are the same in every run (they "
               "belong to the class) and the handlers put in front of exception_handlers before the first run are kept",
               "user-inserted exception handlers are for Exception-derived classes (others: C03)",
               "fixtures raise single exceptions; new-style _setUp and fixture cleanups raise Exception-derived ones"]
EXPLANATION = ("Theorems in coq/Props/C01.v over all programs and flavours; correspondence: TestCase.run of a "
               "generated testtools.TestCase subclass against each result flavour, compared with coq/Model/Run.v on "
               "event kinds/order, on what run() raised and on the set of stage/cleanup bodies that were entered.")

FEATS = frozenset(["details", "patch", "fixture", "onexc", "cells"])
FEATS_INS = frozenset(["insert", "onexc", "fixture"])      # handlers for Exception-derived classes inserted while running


def drive(case):
    # the instance first goes through the earlier runs of its history; the observation is that of the last run
    o = R.run_history(list(case.get("prev", [])) + [case["prog"]], case["flavour"], runner=case.get("runner"))[-1]
    evs = [[e[0], e[1]] if e[0] == "out" else [e[0]] for e in o["trace"] if e[0] != "H"]
    return {"events": evs, "raised": o["raised"], "ran": [e[1] for e in o["log"] if e[0] == "t"]}


RK = {"none": "RNone", "exception": "RException", "kbd": "RKbd", "sysexit": "RSysExit", "base": "RBase"}


def t_ev(e):
    if e[0] == "start":
        return "Start"
    if e[0] == "stop":
        return "Stop"
    return "(Out %s)" % R.COQ_OUT[e[1]]


def term(case, o):
    i = q.record([("i_prev", q.lst([R.t_prog(p) for p in case.get("prev", [])])), ("i_prog", R.t_prog(case["prog"])),
                  ("i_flavour", case["flavour"]), ("i_runner", R.t_runner(case.get("runner")))])
    ob = q.record([("o_events", q.lst([t_ev(e) for e in o["events"]])), ("o_raised", RK[o["raised"]]),
                   ("o_ran", q.lst([q.nat(t) for t in o["ran"]]))])
    return q.pair(i, ob)


def perturb(case, o):
    o = dict(o)
    o["events"] = list(o["events"]) + [["stop"]]
    return o


def nontrivial(case):
    p = case["prog"]
    import json
    s = json.dumps([p] + list(case.get("prev", [])))
    return (len(R.raising_acts(p)) >= 2 or any(x in s for x in ('"Kbd"', '"SysExit"', '"GenExit"', '"BaseException"'))
            or max(R.depth(a) for a in R.stages(p)) >= 2)


def _exception_handlers_only(p):
    """C01's quantifier: inserted handlers only for Exception-derived classes (the generator's "insert" feature
    already inserts only such handlers while the test runs)"""
    def base(c):
        while not isinstance(c, str):
            c = c[1]
        return c in ("Kbd", "SysExit", "GenExit", "BaseException")
    assert not any(a[0] == "inserthandler" and base(a[1]) for a in R.all_acts(p))
    return dict(p, handlers=[h for h in p["handlers"] if not base(h[0])])


def history(prev, prog, flavour, runner=None):
    """a case whose instance has already run the programs of `prev` (oldest first).  The decorators belong to the
    class, so every run has the ones of the observed program; the handlers present before the first run are
    those of the first program; `runner`: the RunTest factory installed on the case ([factory, via]; None: none)."""
    prev = [dict(p, skip=prog["skip"], xfail=prog["xfail"]) for p in prev]
    c = {"prev": prev, "prog": prog, "flavour": flavour}
    if runner:
        c["runner"] = list(runner)
    return c


def runner_programs():
    """what the configured RunTest has to cope with: an exception outside Exception in each stage and in a cleanup,
    alone and together with ordinary failures (before and after it), inside MultipleExceptions, through the
    expectedFailure wrapper; and runs without one (pass, fail, error, skip, error in a cleanup, forced failure)"""
    E, M = R.E, R.M
    yield R.mkprog(setup=[["raise", E("Kbd")]])
    yield R.mkprog(body=[["raise", E("Kbd")]])
    yield R.mkprog(teardown=[["raise", E("SysExit", 1)]])
    yield R.mkprog(setup=[["cleanup", 10, []], ["cleanup", 11, [["raise", E("SysExit")]]], ["cleanup", 12, []]])
    yield R.mkprog(setup=[["cleanup", 10, [["raise", E("ValueError")]]]], body=[["raise", E("Kbd")]])
    yield R.mkprog(body=[["raise", E("Fail")]], teardown=[["raise", E("GenExit")]])
    yield R.mkprog(body=[["raise", M(E("ValueError"), E(R.SUBKBD), E("Fail"))]], teardown=[["raise", E("Skip", 1)]])
    yield R.mkprog(xfail=True, body=[["raise", E("SysExit")]])
    yield R.mkprog(setup=[["cleanup", 10, [["cleanup", 11, [["raise", E(R.CUSTOMBASE)]]]]]], body=[["expect", []]])
    yield R.mkprog()
    yield R.mkprog(body=[["raise", E("Fail", 1)]])
    yield R.mkprog(setup=[["raise", E("ValueError")]])
    yield R.mkprog(body=[["raise", E("Skip", 2)]], teardown=[["cleanup", 10, [["raise", E("ValueError")]]]])
    yield R.mkprog(body=[["force"]])
    yield R.mkprog(skip=["method", 1], body=[["raise", E("Kbd")]])


def history_programs():
    """runs of one instance after an earlier run of it caught two exceptions (every pair of behaviours in the test
    and in a cleanup, in tearDown and in a cleanup, in setUp and in a cleanup - among them every way of being
    interrupted with something else caught too), followed by a run that passes / fails / skips / is interrupted"""
    E = R.E
    follow = [R.mkprog(setup=[["cleanup", 10, []]]), R.mkprog(setup=[["cleanup", 10, []]], body=[["raise", E("Fail")]]),
              R.mkprog(setup=[["cleanup", 10, []]], body=[["raise", E("Skip", 1)]]),
              R.mkprog(setup=[["cleanup", 10, [["raise", E("SysExit")]]]], teardown=[["raise", E("ValueError")]])]
    k = 0
    for a in R.BEHAVIOURS:
        for b in R.BEHAVIOURS:
            firsts = [R.mkprog(setup=[["cleanup", 10, list(R.ALLB[b])]], body=list(R.ALLB[a])),
                      R.mkprog(setup=[["cleanup", 10, list(R.ALLB[b])]], teardown=list(R.ALLB[a])),
                      R.mkprog(setup=[["cleanup", 10, list(R.ALLB[b])]] + list(R.ALLB[a]))]
            for f in firsts:
                k += 1
                yield [f], follow[k % 4], (a, b)
    # longer histories: interrupted, then failing with the flag set, then passing
    yield [R.mkprog(body=[["raise", E("Kbd")]], teardown=[["raise", E("ValueError")]]),
           R.mkprog(body=[["expect", []], ["inserthandler", "ValueError", "skip"]])], follow[0], ("kbd+error", "expect")
    yield [follow[3], follow[3]], follow[0], ("sysexit", "sysexit")
    yield [R.mkprog(body=[["raise", R.M(E("ValueError"), E("Kbd"), E("Fail"))]])], follow[2], ("multi", "skip")
    yield [R.mkprog(xfail=True, body=[["raise", E("SysExit")]], teardown=[["raise", E("Fail")]])], \
        R.mkprog(xfail=True, body=[["raise", E("Fail")]]), ("xfail-sysexit", "xfail")


def generate(rng, tier):
    cases = []
    E, M = R.E, R.M
    # corner cases: the old defects F1 (interrupt masked by a later exception) and F3 (empty MultipleExceptions)
    fixed = [
        R.mkprog(setup=[["cleanup", 10, [["raise", E("ValueError")]]]], body=[["raise", E("Kbd")]]),
        R.mkprog(body=[["raise", E("Kbd")]], teardown=[["raise", E("Skip", 1)]]),
        R.mkprog(body=[["raise", M()]]),
        R.mkprog(setup=[["cleanup", 10, [["raise", M()]]]]),
        R.mkprog(setup=[["raise", M()]]),
        R.mkprog(body=[["raise", M(M())]]),
        R.mkprog(body=[["raise", E("SysExit")]], teardown=[["raise", E("Kbd")]]),
        R.mkprog(body=[["raise", M(E("ValueError"), E("Kbd"), E("Fail"))]]),
        R.mkprog(setup=[["raise", E("Kbd")]]),
        R.mkprog(skip=["class", 1], body=[["raise", E("Kbd")]]),
        R.mkprog(xfail=True, body=[["raise", E("Kbd")]]),
        R.mkprog(xfail=True, body=[["raise", M()]]),
        R.mkprog(body=[["expect", []]], up_t="none"),
        R.mkprog(up_s="none", setup=[["cleanup", 10, [["raise", E("GenExit")]]]]),
        # an interrupt stops neither tearDown nor the remaining cleanups
        R.mkprog(setup=[["cleanup", 10, []], ["cleanup", 11, [["raise", E("Kbd")]]]]),
        R.mkprog(body=[["raise", E("SysExit")]], teardown=[["cleanup", 10, []]]),
        R.mkprog(setup=[["cleanup", 10, [["cleanup", 11, []], ["raise", E("GenExit")]]]], body=[["raise", E("Fail")]]),
        # exception_handlers is the very list RunTest consults: a handler inserted while the test runs counts
        R.mkprog(setup=[["cleanup", 10, [["inserthandler", "ValueError", "skip"]]]],
                 body=[["raise", E("Kbd")]], teardown=[["raise", E("ValueError")]]),
        R.mkprog(body=[["inserthandler", "Exception", "xfail"], ["raise", E("SysExit")]],
                 teardown=[["raise", E("Fail")]]),
    ]
    for k, p in enumerate(fixed):
        for f in (R.FLAVOURS if tier == "thorough" else [R.FLAVOURS[k % 7], R.FLAVOURS[(k + 3) % 7]]):
            cases.append({"prog": p, "flavour": f})
    # force_failure set in setUp / in a cleanup, setUp ending in every behaviour (fix 889980a)
    for k, (p, _) in enumerate(R.setup_force_programs()):
        for f in (R.FLAVOURS if tier == "thorough" else [R.FLAVOURS[k % 7]]):
            cases.append({"prog": p, "flavour": f})
    for k, (p, _) in enumerate(R.badfx_programs()):
        if tier == "thorough" or k % 4 == 0:
            cases.append({"prog": p, "flavour": R.FLAVOURS[k % 7]})
    # @unittest.expectedFailure tests whose body ends in every behaviour, later stages raising
    for k, (p, _) in enumerate(R.xfail_programs()):
        for f in (R.FLAVOURS if tier == "thorough" else [R.FLAVOURS[k % 7]]):
            cases.append({"prog": p, "flavour": f})
    # one instance run repeatedly with different things happening per run: every run is bracketed, reports once,
    # and raises exactly when THAT run was interrupted
    for k, (prev, p, _) in enumerate(history_programs()):
        for f in (R.FLAVOURS if tier == "thorough" else [R.FLAVOURS[k % 7]]):
            cases.append(history(prev, p, f))
    for k, p in enumerate(fixed):
        cases.append(history([p], R.mkprog(skip=p["skip"], xfail=p["xfail"]), R.FLAVOURS[k % 7]))
        cases.append(history([p, p], p, R.FLAVOURS[(k + 2) % 7]))
    # the configuration: every RunTest factory x every way of installing it x interrupts in every stage
    rp = list(runner_programs())
    for j, rn in enumerate(R.runners()):
        for k, p in enumerate(rp):
            for f in (R.FLAVOURS if tier == "thorough" else [R.FLAVOURS[(j + k) % 7]]):
                cases.append(history([], p, f, rn))
        # ... and on an instance that has been run (and interrupted) before: every run builds a fresh RunTest
        cases.append(history([rp[4]], rp[9], R.FLAVOURS[j % 7], rn))
        cases.append(history([rp[10], rp[1]], rp[3], R.FLAVOURS[(j + 1) % 7], rn))
        if tier == "thorough":
            for k, p in enumerate(fixed):
                cases.append(history([], p, R.FLAVOURS[(j + k) % 7], rn))
                cases.append(history([p], rp[k % len(rp)], R.FLAVOURS[(j + k + 2) % 7], rn))
    # bounded-exhaustive core
    k = 0
    for p, combo in R.core_programs(max_cleanups=0):
        k += 1
        fl = R.FLAVOURS if tier == "thorough" else [R.FLAVOURS[k % 7], R.FLAVOURS[(k // 7 + 3) % 7]]
        for f in dict.fromkeys(fl):
            cases.append({"prog": p, "flavour": f})
    one = [pc for pc in R.core_programs(max_cleanups=1) if len(pc[1]) == 4]
    stride = 1 if tier == "thorough" else 5
    off = rng.randrange(stride)
    for k, (p, combo) in enumerate(one):
        if k % stride != off:
            continue
        fl = R.FLAVOURS if tier == "thorough" else [R.FLAVOURS[(k // stride) % 7]]
        for f in fl:
            cases.append({"prog": p, "flavour": f})
    if tier == "thorough":
        two = 0
        for p, combo in R.core_programs(max_cleanups=2):
            if len(combo) != 5:
                continue
            two += 1
            if rng.random() < 0.25:
                cases.append({"prog": p, "flavour": R.FLAVOURS[two % 7]})
    # the other behaviours, pairwise over two stages
    names = list(R.MORE_BEHAVIOURS)
    for a in names:
        for b in list(R.BEHAVIOURS) + names:
            if tier == "quick" and rng.random() < 0.6:
                continue
            where = rng.choice(["bt", "bc", "sc", "tc"])
            if where == "bt":
                p = R.mkprog(body=R.ALLB[a], teardown=R.ALLB[b], handlers=[(R.CUSTOM, "skip")])
            elif where == "bc":
                p = R.mkprog(setup=[["cleanup", 10, list(R.ALLB[b])]], body=R.ALLB[a], handlers=[(R.CUSTOM, "skip")])
            elif where == "sc":
                p = R.mkprog(setup=[["cleanup", 10, list(R.ALLB[b])]] + R.ALLB[a])
            else:
                p = R.mkprog(teardown=[["cleanup", 10, list(R.ALLB[a])]] + R.ALLB[b])
            cases.append({"prog": p, "flavour": rng.choice(R.FLAVOURS)})
    # random deeper programs
    n = 1500 if tier == "quick" else 40000
    for _ in range(n):
        p = _exception_handlers_only(R.rand_prog(rng, feats=rng.choice([FEATS, frozenset(), frozenset(), FEATS_INS]),
                                                 p_raise=rng.choice([0.3, 0.5, 0.8])))
        cases.append({"prog": p, "flavour": rng.choice(R.FLAVOURS)})
    # random histories: 1-3 earlier runs of random programs on the same instance
    r2 = __import__("random").Random(rng.random())
    for _ in range(500 if tier == "quick" else 12000):
        progs = [_exception_handlers_only(R.rand_prog(r2, feats=r2.choice([FEATS, frozenset(), FEATS_INS]),
                                                      depth=2, p_raise=r2.choice([0.5, 0.8])))
                 for _ in range(r2.choice([2, 2, 3, 4]))]
        cases.append(history(progs[:-1], progs[-1], r2.choice(R.FLAVOURS)))
    # random programs and histories under a random configuration (a stream of its own)
    r3 = __import__("random").Random(rng.random())
    rns = R.runners()
    for _ in range(700 if tier == "quick" else 20000):
        progs = [_exception_handlers_only(R.rand_prog(r3, feats=r3.choice([FEATS, frozenset(), FEATS_INS]),
                                                      depth=2, p_raise=r3.choice([0.5, 0.8])))
                 for _ in range(r3.choice([1, 1, 1, 2, 3]))]
        cases.append(history(progs[:-1], progs[-1], r3.choice(R.FLAVOURS), r3.choice(rns)))
    return cases


def shrink(case):
    prev = list(case.get("prev", []))
    rn = case.get("runner")
    for k in range(len(prev)):
        yield history(prev[:k] + prev[k + 1:], case["prog"], case["flavour"], rn)
    for r in R.shrink_runner(rn):
        yield history(prev, case["prog"], case["flavour"], r)
    for p in R.shrink_prog(case["prog"]):
        if p["skip"] == case["prog"]["skip"] and p["xfail"] == case["prog"]["xfail"] or not prev:
            yield history(prev, p, case["flavour"], rn)
    for k, pk in enumerate(prev):
        for p in R.shrink_prog(pk):
            if p["skip"] == pk["skip"] and p["xfail"] == pk["xfail"]:
                yield history(prev[:k] + [p] + prev[k + 1:], case["prog"], case["flavour"], rn)
    if case["flavour"] != "FExtended":
        yield history(prev, case["prog"], "FExtended", rn)


def distribution(cases):
    d = R.prog_distribution([c["prog"] for c in cases])
    d["flavour"] = {}
    d["earlier_runs_of_the_instance"] = {}
    d["runtest_factory"] = {}
    d["factory_installed_via"] = {}
    for c in cases:
        rn = c.get("runner") or ["RunTest (default)", "not installed"]
        d["runtest_factory"][rn[0]] = d["runtest_factory"].get(rn[0], 0) + 1
        d["factory_installed_via"][rn[1]] = d["factory_installed_via"].get(rn[1], 0) + 1
        d["flavour"][c["flavour"]] = d["flavour"].get(c["flavour"], 0) + 1
        n = len(c.get("prev", []))
        d["earlier_runs_of_the_instance"][n] = d["earlier_runs_of_the_instance"].get(n, 0) + 1
    return d
