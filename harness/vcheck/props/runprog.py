"""Shared by C01, C02, C03, C05: test programs (JSON), the driver that builds a real
testtools.TestCase subclass from a program and runs it, the Gallina printers for
coq/Model/Run.v, generators and shrinkers.  Not a property module itself."""
import itertools
import re
import sys

from .. import coqio as q

# ----------------------------------------------------------------------------
# JSON form of programs (mirrors coq/Model/Run.v)
#   cls  : "Skip" | "Fail" | ... | ["Sub", cls, k]
#   exc  : ["E", cls, arg|None] | ["M", [exc, ...]]
#   name : [base, [k, ...]]                       "traceback-1-2" = [0, [1, 2]]
#   act  : ["detail", name, loc] | ["setcell", loc, v] | ["expect", [[name, loc], ...]]
#        | ["assert", [[name, loc], ...]] | ["cleanup", tok, [act, ...]] | ["patch", attr, v]
#        | ["fixture", {"tok","old","details":[[name,loc]],"cleanups":[[tok, exc|None]],"fail":exc|None,
#                       "bad": None | [k, exc]}]    bad (optional): evaluating the detail at position k of getDetails() raises exc
#        | ["onexc", h] | ["force"] | ["xfailcall", r, exc|None] | ["raise", exc]
#        | ["inserthandler", cls, outcome]        self.exception_handlers.insert(0, (cls, handler reporting outcome))
#        | ["peek", name]                         the body reads its own detail `name` now, if it has one (no effect)
#   patch keys (coq/Model/Run.v `parent`): 3*n + l, n = attribute number, l = 0 the instance `inst`, 1 its class Sub,
#        2 Sub's base class Base (getattr falls back inst -> Sub -> Base); 30..32 attributes of inst served by a
#        property (setter + deleter) of Sub; 33..35 attributes of inst held in slots declared by Base (Sub has a __dict__)
#   onexc handler numbers: an odd-numbered handler also reads the bytes of every detail the test has at that moment
#   prog : {"skip": None | [where, r], "xfail": bool, "setup": {"tok","acts","up"}, "body": {"tok","acts"},
#           "teardown": {"tok","acts","up"}, "handlers": [[cls, outcome], ...]}
#          up: "first" | "last" (where the upcall is made) | "none"
#   runner : None | [factory, via]            the RunTest factory of the case and how it is installed (coq/Model/Run.v
#          `factory`, `via`; FACTORIES, VIAS below); None = nothing installed (TestCase.run_tests_with is RunTest)
# ----------------------------------------------------------------------------
BUILTIN = ["BaseException", "Exception", "Skip", "Fail", "Mismatch", "XFail", "Ux", "Multi", "SetupError",
           "ValueError", "Kbd", "SysExit", "GenExit"]
COQ_CLS = {"BaseException": "CBaseException", "Exception": "CException", "Skip": "CSkip", "Fail": "CFail",
           "Mismatch": "CMismatch", "XFail": "CXFail", "Ux": "CUx", "Multi": "CMulti", "SetupError": "CSetupError",
           "ValueError": "CValueError", "Kbd": "CKbd", "SysExit": "CSysExit", "GenExit": "CGenExit"}
OUTCOMES = ["success", "skip", "failure", "xfail", "uxsuccess", "error"]
COQ_OUT = {"success": "OSuccess", "skip": "OSkip", "failure": "OFail", "xfail": "OXFail", "uxsuccess": "OUx",
           "error": "OErr"}
ADD = {"success": "addSuccess", "skip": "addSkip", "failure": "addFailure", "xfail": "addExpectedFailure",
       "uxsuccess": "addUnexpectedSuccess", "error": "addError"}
KIND_OF_ADD = {v: k for k, v in ADD.items()}
BASES = ["traceback", "Failed expectation", "reason", "log", "x", "fxd"]     # base strings of detail names
FLAVOURS = ["F26", "F27", "FExtended", "FTwisted", "FTestResult", "FStream", "FNone"]
# what a cell holding value v yields: chunks of bytes (empty, multi-chunk, not UTF-8, ...)
CHUNKS = {0: [], 1: [b"ab", b"", b"cd"], 2: [b"\xff\xfe\x00"], 3: [b"three"], 4: [b"", b"4", b""], 5: [b"five", b"5"]}
VALUE_OF = {b"".join(c): v for v, c in sorted(CHUNKS.items(), reverse=True)}   # b"" -> 0
PROP_KEYS = (30, 31, 32)
SLOT_KEYS = (33, 34, 35)
UNIVERSE = list(range(9)) + list(PROP_KEYS) + list(SLOT_KEYS)      # coq/Model/Run.v universe
_MISSING = object()


def name_str(n):
    return "-".join([BASES[n[0]]] + [str(k) for k in n[1]])


def parse_name(s):
    suf = []
    while True:
        m = re.fullmatch(r"(.*)-(\d+)", s)
        if s in BASES or not m:
            break
        suf.insert(0, int(m.group(2)))
        s = m.group(1)
    return [BASES.index(s), suf]


# ----------------------------------------------------------------------------
# the driver
# ----------------------------------------------------------------------------
class _Env:
    """Everything one run of a program shares: log, trace, cells, scratch object, classes."""

    def __init__(self):
        import unittest
        import fixtures
        import testtools
        from testtools.matchers import MismatchError
        from ..tabs.handlers import signal_classes
        # the two private signal classes of testtools.testcase, obtained through the public expectFailure
        # (their names are the implementation's business)
        xfail_cls, ux_cls = signal_classes()
        self.log = []
        self.trace = []
        self.cells = {}
        self.classes = {"BaseException": BaseException, "Exception": Exception, "Skip": unittest.SkipTest,
                        "Fail": AssertionError, "Mismatch": MismatchError, "XFail": xfail_cls,
                        "Ux": ux_cls, "Multi": testtools.MultipleExceptions,
                        "SetupError": fixtures.SetupError, "ValueError": ValueError, "Kbd": KeyboardInterrupt,
                        "SysExit": SystemExit, "GenExit": GeneratorExit}
        self.names = {v: k for k, v in self.classes.items()}
        env = self

        self.contents = {}
        self.raised_objects = {}

        # the patch targets: an instance, its class, the class's base class; every setattr / delattr on any of
        # them is logged with the key of (object, name)
        class Meta(type):
            def __setattr__(cls, k, v):
                env.log.append(["set", env.key_of(cls, k), v])
                type.__setattr__(cls, k, v)

            def __delattr__(cls, k):
                env.log.append(["del", env.key_of(cls, k)])
                type.__delattr__(cls, k)

        def backed(name):
            # an attribute computed through a property: getter, setter, deleter over a private entry
            def get(self):
                try:
                    return self.__dict__["_" + name]
                except KeyError:
                    raise AttributeError(name)

            def set_(self, v):
                self.__dict__["_" + name] = v

            def del_(self):
                try:
                    del self.__dict__["_" + name]
                except KeyError:
                    raise AttributeError(name)
            return property(get, set_, del_)

        class Base(metaclass=Meta):
            __slots__ = tuple("s%d" % k for k in SLOT_KEYS)

        class Sub(Base):                      # no __slots__: its instances have a __dict__ as well
            def __setattr__(self, k, v):
                env.log.append(["set", env.key_of(self, k), v])
                object.__setattr__(self, k, v)

            def __delattr__(self, k):
                env.log.append(["del", env.key_of(self, k)])
                object.__delattr__(self, k)
            for _k in PROP_KEYS:
                locals()["p%d" % _k] = backed("p%d" % _k)
            del _k
        self.Base, self.Sub = Base, Sub
        self.scratch = Sub()

    def target(self, key):
        """(object, attribute name) of a patch key"""
        if key in PROP_KEYS:
            return self.scratch, "p%d" % key
        if key in SLOT_KEYS:
            return self.scratch, "s%d" % key
        return [self.scratch, self.Sub, self.Base][key % 3], "a%d" % (key // 3)

    def key_of(self, obj, name):
        if name[0] in "ps":
            return int(name[1:])
        return 3 * int(name[1:]) + (2 if obj is self.Base else 1 if obj is self.Sub else 0)

    def set_initial(self, key, v):
        """an attribute present before the test (not logged)"""
        obj, name = self.target(key)
        if isinstance(obj, type):
            type.__setattr__(obj, name, v)
        else:
            object.__setattr__(obj, name, v)

    def namespaces(self):
        """what every target holds ITSELF: [[key, value], ...] in the order of Model.Run.universe - the entry of
        vars(obj) for an ordinary attribute (an inherited value does not count), what getattr finds for an
        attribute served by a property or a slot"""
        out = []
        for key in UNIVERSE:
            obj, name = self.target(key)
            if key < 30:
                v = vars(obj).get(name, _MISSING)
            else:
                v = getattr(obj, name, _MISSING)
            if v is not _MISSING:
                out.append([key, v])
        return out

    def cls(self, c):
        if isinstance(c, str):
            return self.classes[c]
        key = repr(c)
        if key not in self.classes:
            parent = self.cls(c[1])
            k = type("Sub%d" % c[2], (parent,), {})
            self.classes[key] = k
            self.names[k] = c
        return self.classes[key]

    def cls_name(self, k):
        """JSON name of a class created here (exact class)"""
        if k in self.names:
            return self.names[k]
        return "ValueError" if issubclass(k, Exception) else "BaseException"

    def exc(self, e):
        if e[0] == "M":
            import testtools
            infos = []
            for x in e[1]:
                try:
                    raise self.exc(x)
                except BaseException:
                    infos.append(sys.exc_info())
            return testtools.MultipleExceptions(*infos)
        # a program flagged same_exc raises ONE exception object per description: a stored error raised by the body
        # and again by tearDown, a MultipleExceptions naming one error twice (each raise still counts: the model
        # does not know object identity)
        same = bool(getattr(self, "prog", None) and self.prog.get("same_exc"))
        if same and repr(e) in self.raised_objects:
            return self.raised_objects[repr(e)]
        k = self.cls(e[1])
        if e[1] == "Mismatch":
            from testtools.matchers import Equals
            x = k(1, Equals(2), Equals(2).match(1))
        else:
            x = k("r%d" % e[2]) if e[2] is not None else k()
        if same:
            self.raised_objects[repr(e)] = x
        return x

    def content(self, loc):
        """the Content of a live source (cell loc); the source hands out the same object every time"""
        from testtools.content import Content
        from testtools.content_type import ContentType
        env = self
        if loc not in self.contents:
            self.contents[loc] = Content(ContentType("application", "octet-stream"),
                                         lambda: list(CHUNKS[env.cells.get(loc, 0)]))
        return self.contents[loc]

    def bad_content(self, e):
        """a content whose evaluation raises (a log file that is gone when it is read)"""
        from testtools.content import Content
        from testtools.content_type import ContentType
        env = self

        def read():
            raise env.exc(e)
        return Content(ContentType("application", "octet-stream"), read)


def _mismatch_matcher(env, mm):
    from testtools.matchers import Mismatch

    class M:
        def __str__(self):
            return "M()"

        def match(self, x):
            d = {}
            for n, loc in mm:
                d[name_str(n)] = env.content(loc)
            return Mismatch("mismatch", d)
    return M()


def _make_fixture(env, f):
    import fixtures

    def body(self):
        env.log.append(["t", f["tok"]])
        for n, loc in f["details"]:
            self.addDetail(name_str(n), env.content(loc))
        if f.get("bad"):
            names = list(dict.fromkeys(name_str(n) for n, _ in f["details"]))     # positions in getDetails()
            if f["bad"][0] < len(names):
                self.addDetail(names[f["bad"][0]], env.bad_content(f["bad"][1]))  # replaced in place
        for tok, e in f["cleanups"]:
            def c(tok=tok, e=e):
                env.log.append(["t", tok])
                if e is not None:
                    raise env.exc(e)
            self.addCleanup(c)
        if f["fail"] is not None:
            raise env.exc(f["fail"])
    class Base(fixtures.Fixture):
        def getDetails(self):
            # "gdraise": the fixture is set up but cannot report its details (C02's sampled extension)
            if f.get("gdraise") is not None:
                raise env.exc(f["gdraise"])
            return super().getDetails()
    if f["old"]:
        class Fx(Base):
            def setUp(self):
                self._clear_cleanups()
                body(self)
    else:
        class Fx(Base):
            def _setUp(self):
                body(self)
    return Fx()


def _exec(env, case, acts):
    for a in acts:
        k = a[0]
        if k == "detail":
            case.addDetail(name_str(a[1]), env.content(a[2]))
        elif k == "setcell":
            env.cells[a[1]] = a[2]
        elif k == "expect":
            case.expectThat(1, _mismatch_matcher(env, a[1]))
        elif k == "assert":
            case.assertThat(1, _mismatch_matcher(env, a[1]))
        elif k == "cleanup":
            def f(tok=a[1], body=a[2]):
                env.log.append(["t", tok])
                _exec(env, case, body)
            case.addCleanup(f)
        elif k == "patch":
            obj, name = env.target(a[1])
            case.patch(obj, name, a[2])
        elif k == "peek":
            c = case.getDetails().get(name_str(a[1]))
            if c is not None:
                b"".join(c.iter_bytes())
        elif k == "fixture":
            case.useFixture(_make_fixture(env, a[1]))
        elif k == "onexc":
            def h(exc_info, h=a[1]):
                env.trace.append(["H", h, env.cls_name(exc_info[0])])
                if h % 2:
                    # e.g. decides from the log whether more diagnostics are worth collecting
                    for c in list(case.getDetails().values()):
                        b"".join(c.iter_bytes())
            case.addOnException(h)
        elif k == "onexcraise":
            # an addOnException handler that itself raises while the exception of class a[1] is processed
            # (C02 only; not part of the Coq model: see c02.py)
            def hr(exc_info, c=a[1]):
                if exc_info[0] is env.cls(c):
                    raise env.cls(HANDLER_ERROR)("raised by an addOnException handler")
            case.addOnException(hr)
        elif k == "force":
            case.force_failure = True
        elif k == "xfailcall":
            def pred(e=a[2]):
                if e is not None:
                    raise env.exc(e)
            case.expectFailure("r%d" % a[1], pred)
        elif k == "raise":
            raise env.exc(a[1])
        elif k == "inserthandler":
            case.exception_handlers.insert(0, (env.cls(a[1]), _outcome_handler(a[2])))
        else:
            raise AssertionError("unknown act %r" % (a,))


def _outcome_handler(o):
    def handler(case, result, err, o=o):
        getattr(result, ADD[o])(case, details=case.getDetails())
    return handler


# RunTest factories (coq/Model/Run.v `factory`): every one of them ends up constructing a plain testtools.RunTest
COQ_FACTORY = {"RunTest": "RT_RunTest", "sub_explicit": "RT_SubExplicit", "sub_star": "RT_SubStar",
               "sub_kw_star": "RT_SubKwStar", "fn_explicit": "RT_FnExplicit", "fn_star": "RT_FnStar",
               "fn_kwonly": "RT_FnKwOnly", "fn_kwargs": "RT_FnKwargs", "partial": "RT_Partial",
               "callable": "RT_Callable", "bound_method": "RT_BoundMethod", "old_fn": "RT_OldFn",
               "old_sub": "RT_OldSub", "old_fn_kw": "RT_OldFnKw", "fn_renamed": "RT_FnRenamed"}
COQ_VIA = {"class": "VClass", "ctor": "VCtor", "deco": "VDeco", "deco_kw": "VDecoKw"}
FACTORIES = list(COQ_FACTORY)
OLD_FACTORIES = ("old_fn", "old_sub", "old_fn_kw", "fn_renamed")    # cannot be called with last_resort=
KW_FACTORIES = ("sub_kw_star", "old_fn_kw")                          # take the extra keyword of @run_test_with(f, tag=3)
VIAS = list(COQ_VIA)


def runners():
    """every [factory, via] the code supports (the extra keyword arguments of run_test_with only for factories that
    take them)"""
    return [[f, v] for f in FACTORIES for v in VIAS if v != "deco_kw" or f in KW_FACTORIES]


def configured(cases, rng, n):
    """n of the given cases again, each on a test case configured with a RunTest factory of its own (every
    [factory, via] in turn).  For C02, C03, C05, whose Gallina input has no configuration: by `factory_irrelevant`
    (coq/Proof/RunExtra.v) the model's run of such a case is the run with the default RunTest."""
    import random
    r2 = random.Random(rng.random())
    rns = runners()
    pool = [c for c in cases if "runner" not in c]
    picked = r2.sample(pool, min(n, len(pool)))
    return [dict(c, runner=rns[k % len(rns)]) for k, c in enumerate(picked)]


def shrink_configured(case, shrunk):
    """the shrinker of a property whose cases may carry "runner": keep it on the smaller cases, then try without"""
    rn = case.get("runner")
    for c in shrunk:
        yield dict(c, runner=rn) if rn else c
    if rn:
        c = dict(case)
        del c["runner"]
        yield c
        for r in shrink_runner(rn):
            if r:
                yield dict(case, runner=r)


def runner_distribution(cases):
    d = {}
    for c in cases:
        rn = c.get("runner") or ["RunTest (default)", "not installed"]
        key = "%s via %s" % (rn[0], rn[1]) if c.get("runner") else "default"
        d[key] = d.get(key, 0) + 1
    return d


def make_factory(name):
    """the RunTest factory `name`, built from the RunTest of the tree under test"""
    import functools
    from testtools import RunTest
    if name == "RunTest":
        return RunTest
    if name == "sub_explicit":
        class ExplicitRunTest(RunTest):
            def __init__(self, case, handlers=None, last_resort=None):
                super().__init__(case, handlers, last_resort)
        return ExplicitRunTest
    if name == "sub_star":
        class ForwardingRunTest(RunTest):
            def __init__(self, case, *args, **kwargs):
                super().__init__(case, *args, **kwargs)
                self.started = 0
        return ForwardingRunTest
    if name == "sub_kw_star":
        class TaggedRunTest(RunTest):
            def __init__(self, case, *args, tag=0, **kwargs):
                super().__init__(case, *args, **kwargs)
                self.tag = tag
        return TaggedRunTest
    if name == "fn_explicit":
        def factory(case, handlers=None, last_resort=None):
            return RunTest(case, handlers, last_resort)
        return factory
    if name == "fn_star":
        def factory(case, *args, **kwargs):
            return RunTest(case, *args, **kwargs)
        return factory
    if name == "fn_kwonly":
        def factory(case, handlers=None, *, last_resort=None):
            return RunTest(case, handlers, last_resort=last_resort)
        return factory
    if name == "fn_kwargs":
        def factory(case, handlers=None, **kwargs):
            return RunTest(case, handlers, **kwargs)
        return factory
    if name == "partial":
        return functools.partial(RunTest)
    if name == "callable":
        class Maker:
            def __call__(self, case, handlers=None, last_resort=None):
                return RunTest(case, handlers, last_resort)
        return Maker()
    if name == "bound_method":
        class Maker:
            def make(self, case, handlers=None, last_resort=None):
                return RunTest(case, handlers, last_resort)
        return Maker().make
    # written for the API before last_resort existed: TestCase.run / run_test_with call them again without it
    # and install the handler of last resort on the runner that comes back
    if name == "old_fn":
        def factory(case, handlers=None):
            return RunTest(case, handlers)
        return factory
    if name == "old_sub":
        class OldRunTest(RunTest):
            def __init__(self, case, handlers=None):
                super().__init__(case, handlers)
        return OldRunTest
    if name == "old_fn_kw":
        def factory(case, handlers=None, tag=0):
            return RunTest(case, handlers)
        return factory
    if name == "fn_renamed":
        def factory(case, handlers=None, fallback=None):
            return RunTest(case, handlers, fallback)
        return factory
    raise AssertionError(name)


def build(env, prog, runner=None):
    """the TestCase instance of a program.  The stages follow env.prog, which a history of runs on the one
    instance changes from run to run; decorators and the handlers present before the first run are prog's."""
    import inspect
    import unittest
    import testtools
    env.prog = prog
    factory = make_factory(runner[0]) if runner else None
    via = runner[1] if runner else None

    class T(testtools.TestCase):
        def setUp(self):
            prog = env.prog
            if prog["setup"]["up"] == "first":
                super().setUp()
            env.log.append(["t", prog["setup"]["tok"]])
            _exec(env, self, prog["setup"]["acts"])
            if prog["setup"]["up"] == "last":
                super().setUp()

        def tearDown(self):
            prog = env.prog
            if prog["teardown"]["up"] == "first":
                super().tearDown()
            env.log.append(["t", prog["teardown"]["tok"]])
            _exec(env, self, prog["teardown"]["acts"])
            if prog["teardown"]["up"] == "last":
                super().tearDown()

        def test_x(self):
            prog = env.prog
            env.log.append(["t", prog["body"]["tok"]])
            _exec(env, self, prog["body"]["acts"])

        if prog["xfail"]:
            test_x = unittest.expectedFailure(test_x)
        if prog["skip"] and prog["skip"][0] == "method":
            test_x = testtools.skip("r%d" % prog["skip"][1])(test_x)
        if prog["skip"] and prog["skip"][0] == "unittest":
            test_x = unittest.skip("r%d" % prog["skip"][1])(test_x)
        if prog["skip"] and prog["skip"][0] == "skipIf":
            test_x = testtools.skipIf(True, "r%d" % prog["skip"][1])(test_x)
        if via == "deco":
            test_x = testtools.run_test_with(factory)(test_x)
        if via == "deco_kw":
            test_x = testtools.run_test_with(factory, tag=3)(test_x)

    if via == "class":
        # a plain function would be bound like a method when read through the instance
        T.run_tests_with = staticmethod(factory) if inspect.isfunction(factory) else factory
    if prog["skip"] and prog["skip"][0] == "class":
        T = testtools.skip("r%d" % prog["skip"][1])(T)
    case = T("test_x", runTest=factory) if via == "ctor" else T("test_x")
    case.exception_handlers[0:0] = [(env.cls(c), _outcome_handler(o)) for c, o in prog["handlers"]]
    return case


def _obs_details(d):
    """details as handed to the result, evaluated now: [[name, content], ...] in dict order"""
    from testtools.content import TracebackContent, StackLinesContent
    if d is None:
        return None
    if isinstance(d, str):      # a bare reason (the skip decorators)
        d = {"reason": d}
    out = []
    for n, c in d.items():
        if isinstance(c, str):
            text = c
            out.append([parse_name(n), ["reason", int(text[1:]) if re.fullmatch(r"r\d+", text) else None]])
        elif isinstance(c, TracebackContent):
            out.append([parse_name(n), ["tb"]])
        elif isinstance(c, StackLinesContent):
            out.append([parse_name(n), ["stack"]])
        elif n == "reason":
            text = c.as_text()
            out.append([parse_name(n), ["reason", int(text[1:]) if re.fullmatch(r"r\d+", text) else None]])
        else:
            out.append([parse_name(n), ["bytes", VALUE_OF[b"".join(c.iter_bytes())]]])
    return out


def make_result(env, flavour):
    """(object to pass to run(), function giving the abstract event list afterwards)"""
    import testtools
    from testtools.testresult import doubles
    from testtools import ExtendedToStreamDecorator
    tr = env.trace

    def from_doubles():
        out = []
        for e in tr:
            if isinstance(e, list):
                out.append(e)
            elif e[0] == "startTest":
                out.append(["start"])
            elif e[0] == "stopTest":
                out.append(["stop"])
            elif e[0] in KIND_OF_ADD:
                out.append(["out", KIND_OF_ADD[e[0]], e[2] if len(e) > 2 and isinstance(e[2], list) else None])
        return out

    if flavour in ("F26", "F27", "FTwisted"):
        r = {"F26": doubles.Python26TestResult, "F27": doubles.Python27TestResult,
             "FTwisted": doubles.TwistedTestResult}[flavour](event_log=tr)
        return r, from_doubles
    if flavour in ("FExtended", "FNone"):
        class Rec(doubles.ExtendedTestResult):
            pass
        for kind, meth in ADD.items():
            def f(self, test, *a, _m=meth, **kw):
                d = kw.get("details")
                if d is None and a:
                    d = a[0]
                if d is None and "reason" in kw:
                    d = kw["reason"]
                tr.append((_m, test, _obs_details(d) if isinstance(d, (dict, str)) else None))
            setattr(Rec, meth, f)
        return Rec(event_log=tr), from_doubles
    if flavour == "FTestResult":
        class Log(testtools.TestResult):
            def startTest(self, test):
                tr.append(("startTest", test))
                super().startTest(test)

            def stopTest(self, test):
                tr.append(("stopTest", test))
                super().stopTest(test)
        for kind, meth in ADD.items():
            def f(self, test, *a, _m=meth, **kw):
                tr.append((_m, test))
                return getattr(testtools.TestResult, _m)(self, test, *a, **kw)
            setattr(Log, meth, f)
        return Log(), from_doubles
    if flavour == "FStream":
        sink = doubles.StreamResult(event_log=tr)
        st = {"inprogress": ["start"], "success": ["out", "success", None], "fail": ["out", "failure", None],
              "skip": ["out", "skip", None], "xfail": ["out", "xfail", None], "uxsuccess": ["out", "uxsuccess", None]}

        def from_stream():
            out = []
            for e in tr:
                if isinstance(e, list):
                    out.append(e)
                elif e[0] == "status" and e.test_status is not None:
                    out.append(st.get(e.test_status, ["out", "other:" + str(e.test_status), None]))
            return out
        return ExtendedToStreamDecorator(sink), from_stream
    raise AssertionError(flavour)


def raised_kind(e):
    if e is None:
        return "none"
    if isinstance(e, Exception):
        return "exception"
    if isinstance(e, KeyboardInterrupt):
        return "kbd"
    if isinstance(e, SystemExit):
        return "sysexit"
    return "base"


def run_program(prog, flavour="FExtended", attrs0=(), runs=1, runner=None):
    """Runs the program `runs` times on one TestCase instance; one observation dict per run."""
    return run_history([prog] * runs, flavour, attrs0, runner)


def run_history(progs, flavour="FExtended", attrs0=(), runner=None):
    """One TestCase instance (class, decorators and initial handlers of progs[0]; RunTest factory `runner`) run
    len(progs) times, its stages following progs[k] in run k; one observation dict per run."""
    import testtools
    assert testtools
    env = _Env()
    for a, v in attrs0:
        env.set_initial(a, v)
    case = build(env, progs[0], runner)
    out = []
    for prog in progs:
        env.prog = prog
        del env.log[:]
        del env.trace[:]
        result, events = make_result(env, flavour)
        if flavour == "FNone":
            case.defaultTestResult = lambda result=result: result
        raised = None
        try:
            case.run(None if flavour == "FNone" else result)
        except BaseException as e:   # noqa: what run() lets out is part of the observation
            raised = e
        o = {"trace": events(), "raised": raised_kind(raised), "log": [list(x) for x in env.log],
             "leftover": len(getattr(case, "_cleanups", ())),   # private name: tolerate a rename (the re-run observes leftovers too)
             "attrs": env.namespaces()}
        if hasattr(result, "wasSuccessful"):
            o["ok"] = bool(result.wasSuccessful())
        out.append(o)
    return out


# ----------------------------------------------------------------------------
# Gallina
# ----------------------------------------------------------------------------
def t_cls(c):
    if isinstance(c, str):
        return COQ_CLS[c]
    return "(CSub %s %s)" % (t_cls(c[1]), q.nat(c[2]))


def t_exc(e):
    if e[0] == "M":
        return "(Multi %s)" % q.lst([t_exc(x) for x in e[1]])
    return "(Exc %s %s)" % (t_cls(e[1]), q.option(e[2], q.nat))


def t_name(n):
    return q.pair(q.nat(n[0]), q.lst([q.nat(k) for k in n[1]]))


def t_nl(l):
    return q.lst([q.pair(t_name(n), q.nat(loc)) for n, loc in l])


def t_fixture(f):
    return q.record([("fx_tok", q.nat(f["tok"])), ("fx_old", q.boolean(f["old"])), ("fx_details", t_nl(f["details"])),
                     ("fx_cleanups", q.lst([q.pair(q.nat(t), q.option(e, t_exc)) for t, e in f["cleanups"]])),
                     ("fx_fail", q.option(f["fail"], t_exc)),
                     ("fx_bad", q.option(f.get("bad"), lambda b: q.pair(q.nat(b[0]), t_exc(b[1]))))])


def t_act(a):
    k = a[0]
    if k == "detail":
        return "(ADetail %s %s)" % (t_name(a[1]), q.nat(a[2]))
    if k == "setcell":
        return "(ASetCell %s %s)" % (q.nat(a[1]), q.nat(a[2]))
    if k == "expect":
        return "(AExpect %s)" % t_nl(a[1])
    if k == "assert":
        return "(AAssert %s)" % t_nl(a[1])
    if k == "cleanup":
        return "(ACleanup %s %s)" % (q.nat(a[1]), t_acts(a[2]))
    if k == "patch":
        return "(APatch %s %s)" % (q.nat(a[1]), q.nat(a[2]))
    if k == "fixture":
        return "(AFixture %s)" % t_fixture(a[1])
    if k == "onexc":
        return "(AOnExc %s)" % q.nat(a[1])
    if k == "force":
        return "AForce"
    if k == "xfailcall":
        return "(AExpectFailure %s %s)" % (q.nat(a[1]), q.option(a[2], t_exc))
    if k == "raise":
        return "(ARaise %s)" % t_exc(a[1])
    if k == "inserthandler":
        return "(AInsertHandler %s %s)" % (t_cls(a[1]), COQ_OUT[a[2]])
    if k == "peek":
        return "(APeek %s)" % t_name(a[1])
    raise AssertionError(a)


def t_acts(l):
    return q.lst([t_act(a) for a in l])


def t_prog(p):
    return q.record([
        ("p_skip", q.option(p["skip"], lambda s: q.nat(s[1]))),
        ("p_xfail", q.boolean(p["xfail"])),
        ("p_setup", q.pair(q.nat(p["setup"]["tok"]), t_acts(p["setup"]["acts"]))),
        ("p_up_setup", q.boolean(p["setup"]["up"] != "none")),
        ("p_body", q.pair(q.nat(p["body"]["tok"]), t_acts(p["body"]["acts"]))),
        ("p_teardown", q.pair(q.nat(p["teardown"]["tok"]), t_acts(p["teardown"]["acts"]))),
        ("p_up_teardown", q.boolean(p["teardown"]["up"] != "none")),
        ("p_handlers", q.lst([q.pair(t_cls(c), COQ_OUT[o]) for c, o in p["handlers"]])),
    ])


def t_runner(r):
    if not r:
        return "default_runner"
    return q.record([("r_factory", COQ_FACTORY[r[0]]), ("r_via", COQ_VIA[r[1]])])


def shrink_runner(r):
    """simpler configurations: nothing installed; installed as the class attribute; a plainer factory of the same kind"""
    if not r:
        return
    yield None
    if r[1] != "class":
        yield [r[0], "class"]
    plain = "old_fn" if r[0] in OLD_FACTORIES else "fn_star" if "star" in r[0] or "kwargs" in r[0] else "fn_explicit"
    if r[0] != plain and r[1] != "deco_kw":
        yield [plain, r[1]]


def t_attrs(l):
    return q.lst([q.pair(q.nat(a), q.nat(v)) for a, v in l])


def t_lev(e):
    if e[0] == "t":
        return "(LTok %s)" % q.nat(e[1])
    if e[0] == "set":
        return "(LSet %s %s)" % (q.nat(e[1]), q.nat(e[2]))
    return "(LDel %s)" % q.nat(e[1])


def t_ocontent(c):
    if c[0] == "bytes":
        return "(OBytes %s)" % q.nat(c[1])
    if c[0] == "tb":
        return "OTb"
    if c[0] == "stack":
        return "OStack"
    return "(OReason %s)" % q.option(c[1], q.nat)


def t_tev(e, with_details=True):
    if e[0] == "start":
        return "TStart"
    if e[0] == "stop":
        return "TStop"
    if e[0] == "H":
        return "(THandler %s %s)" % (q.nat(e[1]), t_cls(e[2]))
    d = e[2] if with_details and e[2] is not None else []
    return "(TOut %s %s)" % (COQ_OUT[e[1]], q.lst([q.pair(t_name(n), t_ocontent(c)) for n, c in d]))


# ----------------------------------------------------------------------------
# program construction helpers, measures
# ----------------------------------------------------------------------------
def E(c, arg=None):
    return ["E", c, arg]


def M(*l):
    return ["M", list(l)]


def mkprog(setup=(), body=(), teardown=(), up_s="first", up_t="last", skip=None, xfail=False, handlers=()):
    return {"skip": skip, "xfail": xfail,
            "setup": {"tok": 1, "acts": list(setup), "up": up_s},
            "body": {"tok": 2, "acts": list(body)},
            "teardown": {"tok": 3, "acts": list(teardown), "up": up_t},
            "handlers": [list(h) for h in handlers]}


def stages(p):
    return [p["setup"]["acts"], p["body"]["acts"], p["teardown"]["acts"]]


def walk_acts(acts):
    for a in acts:
        yield a
        if a[0] == "cleanup":
            yield from walk_acts(a[2])


def all_acts(p):
    for s in stages(p):
        yield from walk_acts(s)


def depth(acts):
    return max([1 + depth(a[2]) for a in acts if a[0] == "cleanup"], default=0)


def retoken(p):
    """fresh distinct tokens everywhere (stages 1,2,3; cleanups and fixtures from 10 up)"""
    counter = itertools.count(10)

    def go(acts):
        out = []
        for a in acts:
            if a[0] == "cleanup":
                t = next(counter)
                out.append(["cleanup", t, go(a[2])])
            elif a[0] == "fixture":
                f = dict(a[1])
                f["tok"] = next(counter)
                f["cleanups"] = [[next(counter), e] for _, e in f["cleanups"]]
                out.append(["fixture", f])
            else:
                out.append(a)
        return out
    p = dict(p)
    for k in ("setup", "body", "teardown"):
        p[k] = dict(p[k])
        p[k]["acts"] = go(p[k]["acts"])
    return p


def exc_kinds(e):
    if e[0] == "M":
        return [k for x in e[1] for k in exc_kinds(x)] or ["EmptyMulti"]
    c = e[1]
    while not isinstance(c, str):
        c = "Sub" + ("" if isinstance(c[1], list) else c[1])
        break
    return [c]


def raising_acts(p):
    return [a for a in all_acts(p) if a[0] in ("raise", "assert", "xfailcall") or
            (a[0] == "fixture" and (a[1]["fail"] is not None or a[1].get("bad") is not None or
                                    any(e is not None for _, e in a[1]["cleanups"])))]


# ----------------------------------------------------------------------------
# generation
# ----------------------------------------------------------------------------
SUBSKIP = ["Sub", "Skip", 0]
SUBFAIL = ["Sub", "Fail", 0]
SUBKBD = ["Sub", "Kbd", 0]
CUSTOM = ["Sub", "Exception", 1]        # custom Exception subclass (may get an inserted handler)
CUSTOMSUB = ["Sub", CUSTOM, 2]
CUSTOMBASE = ["Sub", "BaseException", 3]  # custom BaseException subclass (may get an inserted handler)
SUBMULTI = ["Sub", "Multi", 0]
MARKER = ["Sub", "Exception", 9]         # raised by a test method / tearDown to make an "onexcraise" handler raise
HANDLER_ERROR = ["Sub", "Exception", 8]  # what such a handler raises

# the behaviours of the exhaustive core: what a stage does at its end
BEHAVIOURS = {
    "return": [],
    "fail": [["raise", E("Fail", 1)]],
    "error": [["raise", E("ValueError", 1)]],
    "skip": [["raise", E("Skip", 1)]],
    "xfail": [["xfailcall", 1, E("Fail")]],
    "uxsuccess": [["xfailcall", 1, None]],
    "multi": [["raise", M(E("ValueError"), E("Fail"))]],
    "kbd": [["raise", E("Kbd")]],
    "sysexit": [["raise", E("SysExit", 1)]],
    "custom": [["raise", E(CUSTOM, 1)]],
}
MORE_BEHAVIOURS = {
    "emptymulti": [["raise", M()]],
    "multiskip": [["raise", M(E("Fail"), E("Skip", 2))]],
    "multikbd": [["raise", M(E("Kbd"), E("ValueError"))]],
    "nestedmulti": [["raise", M(M(E("Fail"), M()), E("ValueError"))]],
    "subskip": [["raise", E(SUBSKIP, 1)]],
    "subfail": [["raise", E(SUBFAIL)]],
    "subkbd": [["raise", E(SUBKBD)]],
    "genexit": [["raise", E("GenExit")]],
    "custombase": [["raise", E(CUSTOMBASE)]],
    "customsub": [["raise", E(CUSTOMSUB)]],
    "submulti": [["raise", E(SUBMULTI)]],
    "rawxfail": [["raise", E("XFail")]],
    "rawux": [["raise", E("Ux")]],
    "assert": [["assert", []]],
    "expect": [["expect", []]],
    "force": [["force"]],
    "xfail-other": [["xfailcall", 2, E("ValueError")]],
    "xfail-kbd": [["xfailcall", 2, E("Kbd")]],
    "skip-noreason": [["raise", E("Skip")]],
}
ALLB = dict(BEHAVIOURS)
ALLB.update(MORE_BEHAVIOURS)


def core_programs(max_cleanups=1, behaviours=None, handlers=((CUSTOM, "skip"),)):
    """every assignment of the behaviours to setUp / body / tearDown / cleanups registered in setUp"""
    bs = list(behaviours or BEHAVIOURS)
    for n in range(max_cleanups + 1):
        for combo in itertools.product(bs, repeat=3 + n):
            cl = [["cleanup", 10 + i, list(ALLB[combo[3 + i]])] for i in range(n)]
            yield mkprog(setup=cl + ALLB[combo[0]], body=ALLB[combo[1]], teardown=ALLB[combo[2]],
                         handlers=handlers), combo


def setup_force_programs(details=False):
    """force_failure is set (expectThat mismatch / force_failure = True) in setUp or in a cleanup that runs after
    setUp, and then setUp ends in every behaviour (returns, raises skip / xfail / error / interrupt ..., forgets
    the upcall): the forced failure has to fail the test on every path (fix 889980a, F21)."""
    forcers = [["expect", [[[4, []], 1]] if details else []], ["force"]]
    for name, beh in ALLB.items():
        for fo in forcers:
            yield mkprog(setup=[fo] + list(beh)), ("setup", fo[0], name)
            yield mkprog(setup=[["cleanup", 10, [fo]]] + list(beh)), ("cleanup", fo[0], name)
            yield mkprog(setup=[["cleanup", 10, [["cleanup", 11, [fo, ["raise", E("Skip", 2)]]]]]] + list(beh)), \
                ("nested-cleanup", fo[0], name)
    for fo in forcers:
        yield mkprog(setup=[fo], up_s="none"), ("setup", fo[0], "no-upcall")
        yield mkprog(setup=[["cleanup", 10, [fo]]], up_s="none", body=[["raise", E("Fail")]]), ("cleanup", fo[0], "no-upcall")
        yield mkprog(setup=[fo, ["raise", E("Skip", 1)]], teardown=[["raise", E("ValueError")]], xfail=True), \
            ("setup", fo[0], "skip-xfail-decorated")


def xfail_programs():
    """@unittest.expectedFailure on the test method: the body ends in every behaviour (what derives from
    Exception becomes an expected failure, returning an unexpected success, KeyboardInterrupt / SystemExit /
    GeneratorExit / custom BaseException subclasses pass through the wrapper), alone and with later stages raising"""
    for name, beh in ALLB.items():
        for td in ("return", "error", "skip", "kbd", "sysexit"):
            yield mkprog(xfail=True, body=list(beh), teardown=list(ALLB[td])), (name, td, "-")
            if td in ("return", "skip", "kbd"):
                yield mkprog(xfail=True, setup=[["cleanup", 10, list(ALLB["fail"])]], body=list(beh),
                             teardown=list(ALLB[td])), (name, td, "cleanup-fails")


def badfx_programs():
    """useFixture of a fixture one of whose details cannot be evaluated when it is gathered: set-up succeeding
    (gathering is a cleanup of its own: it raises, the fixture's cleanUp still runs), failing old style and
    failing new style; in setUp, the test and inside a cleanup; with patches and further cleanups around it"""
    FXD, X = [5, []], [4, []]
    for old in (False, True):
        for fail in (None, E("ValueError"), E("Skip", 1)):
            for k in (0, 1, 2):
                for g in (E("ValueError", 1), E("Fail"), E("Kbd")):
                    fx = {"tok": 20, "old": old, "details": [[FXD, 1], [X, 2]], "cleanups": [[21, None], [22, E("ValueError")]],
                          "fail": fail, "bad": [k, g]}
                    use = [["patch", 0, 7], ["cleanup", 10, []], ["fixture", fx], ["patch", 1, 6], ["cleanup", 11, []]]
                    yield retoken(mkprog(body=[["detail", X, 3]] + use)), (old, fail, k, g[1], "body")
                    if g[1] != "Fail":
                        yield retoken(mkprog(setup=use, teardown=[["raise", E("Fail")]])), (old, fail, k, g[1], "setup")
                        yield retoken(mkprog(setup=[["cleanup", 12, use]], body=[["raise", E("Skip", 2)]])), \
                            (old, fail, k, g[1], "cleanup")


def rand_exc(rng, depth=0):
    r = rng.random()
    if r < 0.12 and depth < 2:
        return M(*[rand_exc(rng, depth + 1) for _ in range(rng.choice([0, 1, 2, 2, 3]))])
    c = rng.choice(["Fail", "Fail", "ValueError", "ValueError", "Skip", "Skip", "XFail", "Ux", "Kbd", "SysExit",
                    "GenExit", "Mismatch", "SetupError", SUBSKIP, SUBFAIL, SUBKBD, CUSTOM, CUSTOM, CUSTOMSUB,
                    CUSTOMBASE, SUBMULTI, "Exception", ["Sub", "XFail", 4], ["Sub", "Ux", 5]])
    return E(c, rng.choice([None, 1, 2]))


def rand_name(rng):
    return rng.choice([[0, []], [0, [1]], [0, [1, 2]], [0, [2]], [1, []], [1, [1]], [3, []], [4, []], [4, [1]],
                       [5, []], [5, [1]]])


def rand_fixture(rng, details=True, bad=False):
    style = rng.random()
    f = {"tok": 0, "old": style < 0.25, "details": [], "cleanups": [], "fail": None}
    if bad:
        # a separate generator so that the streams of the other features stay what they were
        import random
        r2 = random.Random(rng.random())
        if r2.random() < 0.35:
            f["details"] = [[rand_name(r2), r2.randint(0, 3)] for _ in range(r2.choice([1, 2, 3]))]
            f["bad"] = [r2.randint(0, 2), E(r2.choice(["ValueError", "ValueError", "Fail", "Skip", "Kbd", CUSTOM]),
                                           r2.choice([None, 1]))]
    if details and not f.get("bad"):
        f["details"] = [[rand_name(rng), rng.randint(0, 3)] for _ in range(rng.choice([0, 1, 1, 2]))]
    for _ in range(rng.choice([0, 0, 1, 2])):
        e = None
        if rng.random() < 0.35:
            e = E(rng.choice(["ValueError", "Fail", "Skip", CUSTOM]), rng.choice([None, 1]))
        f["cleanups"].append([0, e])
    if rng.random() < 0.35:
        if f["old"]:
            f["fail"] = E(rng.choice(["ValueError", "Fail", "Skip", "Kbd", CUSTOM, CUSTOMBASE]), rng.choice([None, 1]))
        else:
            f["fail"] = E(rng.choice(["ValueError", "Fail", "Skip", CUSTOM, "XFail"]), rng.choice([None, 1]))
    return f


# patch targets: mostly attributes of the instance itself (3 names), some of its class and of the base class (the same
# names: inherited values, shadowing), properties and inherited slots of the instance
PATCH_POOL = [0, 0, 0, 3, 3, 3, 6, 6, 1, 4, 7, 2, 5, 30, 30, 31, 33, 33, 34]


def rand_attrs(rng):
    """the namespaces before the test: key -> value; value 0 = the attribute exists and is None"""
    out = []
    for k in UNIVERSE:
        pr = 0.45 if k % 3 == 0 and k < 30 else 0.2 if k < 30 else 0.5 if k in (30, 31, 33, 34) else 0.0
        if rng.random() < pr:
            out.append([k, rng.randint(0, 3)])
    return out


def rand_acts(rng, depth, feats, p_raise=0.35, maxlen=3):
    """feats: set of optional features: details, patch, fixture, onexc, cells"""
    acts = []
    for _ in range(rng.choice(list(range(maxlen + 1)))):
        r = rng.random()
        if r < 0.30 and depth > 0:
            acts.append(["cleanup", 0, rand_acts(rng, depth - 1, feats, p_raise, maxlen)])
        elif r < 0.40 and "patch" in feats:
            acts.append(["patch", rng.choice(PATCH_POOL), rng.randint(1, 4)])
        elif r < 0.50 and "fixture" in feats:
            acts.append(["fixture", rand_fixture(rng, "details" in feats, "badfx" in feats)])
        elif r < 0.60 and "details" in feats:
            acts.append(["detail", rand_name(rng), rng.randint(0, 3)])
        elif r < 0.66 and "details" in feats:
            acts.append(["expect", [[rand_name(rng), rng.randint(0, 3)] for _ in range(rng.choice([0, 1, 2]))]])
        elif r < 0.70 and "cells" in feats:
            acts.append(["setcell", rng.randint(0, 3), rng.randint(0, 5)])
        elif r < 0.76 and "onexc" in feats:
            acts.append(["onexc", rng.randint(0, 2)])
        elif r < 0.80:
            acts.append(["expect", []])
        elif r < 0.83:
            acts.append(["force"])
        elif r < 0.90 and "insert" in feats:
            # a handler put in front of exception_handlers while the test runs; "insert" = for Exception-derived
            # classes only, "insert-any" in addition = also for the others
            pool = [CUSTOM, CUSTOMSUB, SUBFAIL, "SetupError", "ValueError", "Skip", "Fail", "Exception"]
            if "insert-any" in feats:
                pool = pool + [CUSTOMBASE, "Kbd", SUBKBD, "SysExit", "BaseException"]
            acts.append(["inserthandler", rng.choice(pool), rng.choice(OUTCOMES[1:])])
        elif r < 0.97 and "peek" in feats:
            acts.append(["peek", rand_name(rng)])
    if rng.random() < p_raise:
        r = rng.random()
        if r < 0.70:
            acts.append(["raise", rand_exc(rng)])
        elif r < 0.80:
            mm = [[rand_name(rng), rng.randint(0, 3)] for _ in range(rng.choice([0, 1, 2]))] if "details" in feats else []
            acts.append(["assert", mm])
        else:
            acts.append(["xfailcall", rng.randint(1, 2),
                         rng.choice([None, E("Fail"), E("Fail"), E(SUBFAIL), E("Mismatch"), E("ValueError"), E("Kbd")])])
        if rng.random() < 0.1:
            acts.append(["cleanup", 0, []])     # unreachable registration
    return acts


def rand_prog(rng, feats=frozenset(), depth=3, p_raise=0.35):
    hs = []
    if rng.random() < 0.4:
        outs = OUTCOMES[1:]      # a handler that reports success for an exception is outside every quantifier
        pool = [(CUSTOM, rng.choice(outs)), (CUSTOMBASE, rng.choice(outs)), (CUSTOMSUB, rng.choice(outs)),
                ("Kbd", rng.choice(["error", "failure", "skip"])), (SUBFAIL, rng.choice(["skip", "error", "xfail"])),
                ("SetupError", rng.choice(["skip", "failure"]))]
        rng.shuffle(pool)
        hs = pool[:rng.choice([1, 1, 2, 3])]
    skip = None
    if rng.random() < 0.04:
        skip = [rng.choice(["class", "method", "unittest", "skipIf"]), rng.randint(1, 2)]
    p = mkprog(setup=rand_acts(rng, depth, feats, p_raise * 0.5),
               body=rand_acts(rng, depth, feats, p_raise),
               teardown=rand_acts(rng, depth, feats, p_raise * 0.7),
               up_s=rng.choice(["first", "first", "last", "last", "none"] if rng.random() < 0.3 else ["first", "last"]),
               up_t=rng.choice(["first", "first", "last", "last", "none"] if rng.random() < 0.3 else ["first", "last"]),
               skip=skip, xfail=rng.random() < 0.08, handlers=hs)
    return retoken(p)


# ----------------------------------------------------------------------------
# shrinking
# ----------------------------------------------------------------------------
def shrink_exc(e):
    if e[0] == "M":
        for x in e[1]:
            yield x
        for i in range(len(e[1])):
            yield ["M", e[1][:i] + e[1][i + 1:]]
        for i, x in enumerate(e[1]):
            for s in shrink_exc(x):
                yield ["M", e[1][:i] + [s] + e[1][i + 1:]]
    else:
        if e[2] is not None:
            yield ["E", e[1], None]
        if not isinstance(e[1], str):
            yield ["E", e[1][1], e[2]]


def shrink_acts(acts):
    for i in range(len(acts)):
        yield acts[:i] + acts[i + 1:]
    for i, a in enumerate(acts):
        def re(x):
            return acts[:i] + [x] + acts[i + 1:]
        if a[0] == "cleanup":
            for s in shrink_acts(a[2]):
                yield re(["cleanup", a[1], s])
        elif a[0] == "raise":
            for s in shrink_exc(a[1]):
                yield re(["raise", s])
        elif a[0] == "xfailcall" and a[2] is not None:
            yield re(["raise", a[2]])
        elif a[0] in ("expect", "assert") and a[1]:
            yield re([a[0], a[1][:-1]])
        elif a[0] == "fixture":
            f = a[1]
            if f["fail"] is not None:
                yield re(["fixture", dict(f, fail=None)])
            if f["cleanups"]:
                yield re(["fixture", dict(f, cleanups=f["cleanups"][:-1])])
                yield re(["fixture", dict(f, cleanups=[[t, None] for t, _ in f["cleanups"]])])
            if f.get("bad"):
                yield re(["fixture", dict(f, bad=None)])
                if f["bad"][0] > 0:
                    yield re(["fixture", dict(f, bad=[f["bad"][0] - 1, f["bad"][1]])])
            if f["details"]:
                yield re(["fixture", dict(f, details=f["details"][:-1])])
            if f["old"]:
                yield re(["fixture", dict(f, old=False)])


def shrink_prog(p):
    for k in ("setup", "body", "teardown"):
        for s in shrink_acts(p[k]["acts"]):
            q2 = dict(p)
            q2[k] = dict(p[k], acts=s)
            yield q2
    if p["handlers"]:
        for i in range(len(p["handlers"])):
            yield dict(p, handlers=p["handlers"][:i] + p["handlers"][i + 1:])
    if p["skip"]:
        yield dict(p, skip=None)
    if p["xfail"]:
        yield dict(p, xfail=False)
    for k in ("setup", "teardown"):
        if p[k]["up"] != "first":
            q2 = dict(p)
            q2[k] = dict(p[k], up="first")
            yield q2


def prog_distribution(progs):
    d = {"raising_acts": {}, "cleanup_depth": {}, "with_base_exception": 0, "with_multi": 0, "with_handlers": 0,
         "with_fixture": 0, "with_patch": 0, "with_details": 0, "skip_decorated": 0, "xfail_decorated": 0,
         "missing_upcall": 0, "with_expect_or_force": 0, "with_handler_inserted_while_running": 0,
         "with_peek": 0, "patch_target_kinds": {}}
    import json
    for p in progs:
        n = min(len(raising_acts(p)), 6)
        d["raising_acts"][n] = d["raising_acts"].get(n, 0) + 1
        dp = max(depth(s) for s in stages(p))
        d["cleanup_depth"][dp] = d["cleanup_depth"].get(dp, 0) + 1
        s = json.dumps(p)
        d["with_base_exception"] += any(x in s for x in ('"Kbd"', '"SysExit"', '"GenExit"', '"BaseException"'))
        d["with_multi"] += '"M"' in s
        d["with_handlers"] += bool(p["handlers"])
        d["with_fixture"] += '"fixture"' in s
        d["with_patch"] += '"patch"' in s
        d["with_details"] += '"detail"' in s
        d["skip_decorated"] += bool(p["skip"])
        d["xfail_decorated"] += bool(p["xfail"])
        d["missing_upcall"] += p["setup"]["up"] == "none" or p["teardown"]["up"] == "none"
        d["with_expect_or_force"] += '"expect"' in s or '"force"' in s
        d["with_handler_inserted_while_running"] += '"inserthandler"' in s
        d["with_peek"] += '"peek"' in s or any(a[0] == "onexc" and a[1] % 2 for a in all_acts(p))
        for a in all_acts(p):
            if a[0] == "patch":
                kind = ("property" if a[1] in PROP_KEYS else "slot" if a[1] in SLOT_KEYS else
                        ["instance", "class", "base class"][a[1] % 3])
                d["patch_target_kinds"][kind] = d["patch_target_kinds"].get(kind, 0) + 1
    return d
