"""C09 - TestResult -> StreamResult -> TestResult conversion preserves every test
(testtools/testresult/real.py: ExtendedToStreamDecorator, StreamToExtendedDecorator,
_StreamToTestRecord, _make_content_type; testcase.py: PlaceHolder.run; content_type.py)."""
import datetime

from .. import coqio as q

PROP = "C09"
CORR = "Corr.C09"
REQUIRES = ["Lib.Bytestr", "Model.Mime", "Model.StreamRec", "Model.StreamConv", "Spec.C09"]
PROOF_FILES = ["Proof/C09.v", "Proof/C10.v", "Lib/Bytestr.v", "Lib/Sort.v"]
MANIFEST = {
    "text": "Coq theorems over all well-formed TestResult histories (induction over the history with an invariant "
            "tying the converter's tag stack / clock and the receiver's in-progress table to an independent reading "
            "of the history; loop invariant for the one-chunk look-ahead of _convert; mime render/parse round trip "
            "for content types in wf_ct): the stream between ExtendedToStreamDecorator and StreamToExtendedDecorator "
            "is well formed (inprogress, per detail its chunks with eof exactly on the last, reason file, one final "
            "status) and the final result logs for each test one startTest/outcome/stopTest bracket with the same id, "
            "outcome (error as failure), tags, times (also a time() and tags() supplied before the first startTest starts "
            "the run itself; an explicit startTestRun resets both), skip reason and every non-empty detail. The hand-written "
            "Gallina model is tied to /repo on every run by differential execution inside coqc; the oracle for a "
            "failing input is the executable statement spec_okb, proved to imply the readable Spec.",
    "note": "Trusted: Coq kernel + vm_compute; the harness (generator, driver, Gallina printer); test ids, detail "
            "names, tags and times mapped to small numbers; email header parsing is re-implemented for the fragment "
            "repr(ContentType) produces and validated by the correspondence; content types stay inside wf_ct (F16 "
            "corners belong to C16); text details decode in their charset (wf guard). All theorems closed under the "
            "global context.",
    "technique": "Coq proof (induction over histories, loop invariant, refinement reused from C10) + "
                 "model/implementation correspondence in coqc",
    "ref": "6 C09",
}
RULE = ("well-formed histories: 0-3 time() / tags() calls before the run is started (45% of the histories), optional "
        "startTestRun (else the first startTest starts the run), 0-5 tests (ids may repeat) each startTest / outcome / "
        "stopTest with time() and tags() calls before, inside and after; every outcome kind with exc_info, details or neither; "
        "0-3 details x 0-4 chunks incl. empty ones; text and binary content types with 0-2 parameters inside wf_ct; "
        "non-ASCII names, reasons and payloads; non-trivial = a test with a detail of >= 2 chunks, or >= 2 tests with "
        "tags or supplied times, or a time() / tags() before the start of a run that has a test; distinct = distinct JSON")
TRUSTED = ["doubles.StreamResult (tapped with CopyStreamResult) and doubles.ExtendedTestResult (plus a subclass that "
           "records current_tags at each outcome) are the observation instruments",
           "an exc_info argument is given to the model as the chunks TracebackContent(err, test) yields when asked "
           "directly by the harness (traceback formatting is not modelled)",
           "Python's sorted() on ASCII parameter names agrees with byte-wise String.leb"]
ASSUMPTIONS = ["histories are well formed (Spec.C09.wf): time() and tags() anywhere, also before the run is started "
               "explicitly or by the first startTest; tests are not nested, one outcome per test, a skip reason is not "
               "combined with details, detail names are distinct",
               "content types are inside Mime.wf_ct (lower-case token type/subtype/parameter names; values printable "
               "ASCII without double quote, backslash, '=?'; charset without ','): the F16 corners are outside the "
               "generated domain",
               "text/* details carry bytes that decode in their charset, which names a codec Python knows"]
EXPLANATION = ("Theorems in coq/Props/C09.v over all well-formed histories; correspondence: the history is played on "
               "ExtendedToStreamDecorator(CopyStreamResult([doubles.StreamResult, StreamToExtendedDecorator("
               "ExtendedTestResult)])) of the working tree and on coq/Model/StreamConv.v; observation = the events in "
               "the middle and the final log, compared up to the abstraction alpha of Spec/C09.v.")

# ---------------- the small alphabets ----------------
IDS = {1: "pkg.mod.Test.test_a", 2: "pkg.mod.Test.tést_β", 3: "other.test_c", 4: "t"}
TAGS = {1: "tag-a", 2: "tag-é", 3: "tag-c", 4: "worker-0"}
NAMES = {0: "reason", 1: "traceback", 2: "log", 3: "détail-✓", 4: "stdout", 5: "x"}
KINDS = {"addSuccess": "AddSuccess", "addFailure": "AddFailure", "addError": "AddError", "addSkip": "AddSkip",
         "addExpectedFailure": "AddExpectedFailure", "addUnexpectedSuccess": "AddUnexpectedSuccess"}
STATUS = {"inprogress": "Inprogress", "exists": "Exists", "xfail": "Xfail", "uxsuccess": "Uxsuccess",
          "success": "Success", "fail": "Fail", "skip": "Skip", "unknown": "Unknown"}
UNKNOWN = 4999
EXCS = {"ValueError": ValueError, "AssertionError": AssertionError, "KeyError": KeyError}


def stamp(n):
    return datetime.datetime(2000, 1, 1, 0, 0, n, tzinfo=datetime.timezone.utc)


def ts_code(dt):
    """supplied times are 2000-01-01 00:00:n; anything else is a wall-clock value = 0"""
    if dt is None:
        return None
    if isinstance(dt, datetime.datetime) and dt.year == 2000:
        return dt.second
    return 0


def rev(table, value):
    for k, v in table.items():
        if v == value:
            return k
    return UNKNOWN


def ct_obs(ct):
    return [ct.type, ct.subtype, sorted([k, v] for k, v in ct.parameters.items())]


def make_ext():
    from testtools.testresult import doubles

    class Ext(doubles.ExtendedTestResult):
        """doubles.ExtendedTestResult that also notes the tags current at each outcome call"""

    def wrap(name):
        def method(self, test, *a, **kw):
            self._events.append(("current", sorted(rev(TAGS, t) for t in self.current_tags)))
            return getattr(doubles.ExtendedTestResult, name)(self, test, *a, **kw)
        return method
    for name in KINDS:
        setattr(Ext, name, wrap(name))
    return Ext()


def fin_obs(events):
    out = []
    cur = None
    for ev in events:
        k = ev[0]
        if k == "current":
            cur = ev[1]
        elif k in ("startTestRun", "stopTestRun"):
            out.append([k])
        elif k == "time":
            out.append(["time", ts_code(ev[1])])
        elif k == "tags":
            out.append(["tags", sorted(rev(TAGS, t) for t in ev[1]), sorted(rev(TAGS, t) for t in ev[2])])
        elif k in ("startTest", "stopTest"):
            out.append([k, rev(IDS, ev[1].id())])
        elif k in KINDS:
            d = ev[2] if len(ev) > 2 else {}
            if not isinstance(d, dict):
                out.append(["other", k])
                continue
            det = [[rev(NAMES, name), ct_obs(c.content_type), list(b"".join(c.iter_bytes()))] for name, c in d.items()]
            out.append(["outcome", k, rev(IDS, ev[1].id()), cur, det])
            cur = None
        else:
            out.append(["other", k])
    return out


def mid_obs(events):
    out = []
    for ev in events:
        if ev[0] in ("startTestRun", "stopTestRun"):
            out.append([ev[0]])
            continue
        out.append(["status",
                    None if ev.test_id is None else rev(IDS, ev.test_id),
                    ev.test_status,
                    None if ev.test_tags is None else sorted(rev(TAGS, t) for t in ev.test_tags),
                    None if ev.file_name is None else rev(NAMES, ev.file_name),
                    None if ev.file_bytes is None else list(ev.file_bytes),
                    bool(ev.eof), ev.mime_type,
                    None if ev.route_code is None else UNKNOWN,
                    ts_code(ev.timestamp)])
    return out


def make_content(d):
    from testtools.content import Content
    from testtools.content_type import ContentType
    t, s, params = d["ct"]
    pool = {}
    chunks = [pool.setdefault(bytes(c), bytes(c)) for c in d["chunks"]]     # equal chunks are the same object
    return Content(ContentType(t, s, dict((k, v) for k, v in params)), lambda: list(chunks))


def drive(case):
    from testtools import PlaceHolder
    from testtools.content import TracebackContent
    from testtools.testresult import doubles
    from testtools.testresult.real import CopyStreamResult, ExtendedToStreamDecorator, StreamToExtendedDecorator
    tap = doubles.StreamResult()
    fin = make_ext()
    e2s = ExtendedToStreamDecorator(CopyStreamResult([tap, StreamToExtendedDecorator(fin)]))
    tests = {}
    tbs = {}
    for n, op in enumerate(case["ops"]):
        k = op[0]
        if k == "startRun":
            e2s.startTestRun()
        elif k == "stopRun":
            e2s.stopTestRun()
        elif k == "time":
            e2s.time(stamp(op[1]))
        elif k == "tags":
            e2s.tags(set(TAGS[t] for t in op[1]), set(TAGS[t] for t in op[2]))
        elif k == "startTest":
            tests[op[1]] = PlaceHolder(IDS[op[1]])
            e2s.startTest(tests[op[1]])
        elif k == "stopTest":
            e2s.stopTest(tests[op[1]])
        elif k == "outcome":
            _, kind, i, details, reason, exc = op
            test = tests[i]
            kw = {}
            if exc is not None:
                err = (EXCS[exc[0]], EXCS[exc[0]](exc[1]), None)
                # what the traceback content yields, asked directly (oracle argument of the model)
                c = TracebackContent(err, test)
                tbs[str(n)] = {"ct": [c.content_type.type, c.content_type.subtype,
                                      [[a, b] for a, b in c.content_type.parameters.items()]],
                               "chunks": [list(x) for x in c.iter_bytes()]}
                kw["err"] = err
            if details is not None:
                kw["details"] = dict((NAMES[d["name"]], make_content(d)) for d in details)
            if reason is not None:
                kw["reason"] = reason
            getattr(e2s, kind)(test, **kw)
    return {"mid": mid_obs(tap._events), "fin": fin_obs(fin._events), "tb": tbs}


# ---------------- Gallina ----------------
def nats(l):
    return q.lst([q.nat(x) for x in l])


def sstr(x):
    """a byte string as a Coq term: printable ASCII as a literal (double quote doubled), anything else as hex"""
    b = x.encode("utf-8") if isinstance(x, str) else bytes(x)
    if all(32 <= c < 127 for c in b):
        return '"%s"%%string' % b.decode("ascii").replace('"', '""')
    return '(hx "%s")' % b.hex()


def t_ct(ct):
    return "(CT %s %s %s)" % (sstr(ct[0]), sstr(ct[1]),
                              q.lst([q.pair(sstr(k), sstr(v)) for k, v in ct[2]]))


def t_detail(d):
    return "(D %s %s %s)" % (q.nat(d["name"]), t_ct(d["ct"]), q.lst([sstr(bytes(c)) for c in d["chunks"]]))


def t_op(n, op, tbs):
    k = op[0]
    if k == "startRun":
        return "OStartRun"
    if k == "stopRun":
        return "OStopRun"
    if k == "time":
        return "(OTime %s)" % q.nat(op[1])
    if k == "tags":
        return "(OTags %s %s)" % (nats(op[1]), nats(op[2]))
    if k == "startTest":
        return "(OStartTest %s)" % q.nat(op[1])
    if k == "stopTest":
        return "(OStopTest %s)" % q.nat(op[1])
    _, kind, i, details, reason, exc = op
    if exc is not None:
        # _convert: details = {} if None; details['traceback'] = TracebackContent(err, test)
        tb = tbs[str(n)]
        details = [d for d in (details or []) if d["name"] != 1] + [{"name": 1, "ct": tb["ct"], "chunks": tb["chunks"]}]
    return "(OOutcome %s %s %s %s)" % (
        KINDS[kind], q.nat(i), q.option(details, lambda ds: q.lst([t_detail(d) for d in ds])),
        q.option(reason, lambda r: sstr(r)))


def t_mev(e, names):
    if e[0] == "startTestRun":
        return "MStartRun"
    if e[0] == "stopTestRun":
        return "MStopRun"
    _, i, st, tags, fn, fb, eof, mime, route, ts = e
    return "(MStatus (Es %s %s %s %s %s %s %s %s %s))" % (
        q.option(i, q.nat), q.option(route, q.nat), q.option(None if st is None else STATUS[st]),
        q.option(tags, nats), q.option(fn, q.nat), q.option(fb, lambda b: sstr(bytes(b))),
        q.boolean(eof), q.option(mime, lambda m: names[m]), q.option(ts, q.nat))


def t_lev(l):
    k = l[0]
    if k == "startTestRun":
        return "LStartRun"
    if k == "stopTestRun":
        return "LStopRun"
    if k == "time":
        return "(LTime %s)" % q.nat(l[1])
    if k == "tags":
        return "(LTags %s %s)" % (nats(l[1]), nats(l[2]))
    if k == "startTest":
        return "(LStartTest %s)" % q.nat(l[1])
    if k == "stopTest":
        return "(LStopTest %s)" % q.nat(l[1])
    if k == "outcome":
        det = q.lst([q.pair(q.nat(n), q.pair(t_ct(ct), sstr(bytes(b)))) for n, ct, b in l[4]])
        return "(LOutcome %s %s %s %s)" % (KINDS[l[1]], q.nat(l[2]), nats(l[3] if l[3] is not None else [UNKNOWN]), det)
    return "LKeyError"


def term(case, o):
    i = q.record([("hist", q.lst([t_op(n, op, o["tb"]) for n, op in enumerate(case["ops"])]))])
    # the mime strings repeat on every chunk event: bind each once (keeps the shards small)
    mimes = sorted(set(e[7] for e in o["mid"] if e[0] == "status" and e[7] is not None))
    names = dict((m, "m%d" % k) for k, m in enumerate(mimes))
    ob = q.record([("o_mid", q.lst([t_mev(e, names) for e in o["mid"]])),
                   ("o_fin", q.lst([t_lev(l) for l in o["fin"]]))])
    lets = "".join("let %s := %s in " % (names[m], sstr(m)) for m in mimes)
    return "(%s%s)" % (lets, q.pair(i, ob))


def perturb(case, o):
    o = dict(o)
    o["mid"] = list(o["mid"]) + [["stopTestRun"]]
    return o


# ---------------- generation ----------------
TOK = "abcdefghijklmnopqrstuvwxyz0123456789-._+"
VALCH = [chr(c) for c in range(32, 127) if chr(c) not in '"\\']
TEXT_SNIPPETS = ["", "x", "line one\n", "tab\tsep", "é", "βeta ✓", "a" * 9, "\n", "Traceback (most recent call last):\n"]
BIN_SNIPPETS = [[], [0], [255, 254], [0xC3], [0x80, 0x41], list(b"PNG\r\n"), list(b"x")]
TEXT_TYPES = [
    ["text", "plain", [["charset", "utf8"]]],
    ["text", "plain", [["charset", "utf-8"], ["format", "flowed; x=1"]]],
    ["text", "x-log", [["charset", "UTF-8"]]],
    ["text", "x-traceback", [["language", "python"], ["charset", "utf8"]]],
    ["text", "html", [["charset", "UTF8"], ["x-note", "Ab Cd"]]],
]
# parameter values are case-sensitive and must come back as they went in
LATIN_TYPES = [["text", "plain", []], ["text", "csv", [["charset", "iso-8859-1"], ["header", "present"]]],
               ["text", "plain", [["charset", "ISO-8859-1"]]], ["text", "x-old", [["charset", "Latin-1"], ["v", "Ab"]]]]
BIN_TYPES = [
    ["application", "octet-stream", []],
    ["image", "png", []],
    ["application", "x-thing", [["k", "v"]]],
    ["application", "vnd.x+json", [["a", "b; c=d"], ["x-y", ""]]],
    ["application", "x-gzip", [["charset", "binary"]]],
    ["application", "x-upper", [["charset", "UTF-8"], ["name", "README.TXT"]]],
]


def rand_token(rng, lo=1, hi=6):
    return "".join(rng.choice(TOK) for _ in range(rng.randint(lo, hi)))


def rand_value(rng):
    while True:
        v = "".join(rng.choice(VALCH) for _ in range(rng.randint(0, 8)))
        if "=?" not in v:
            return v


def rand_bin_type(rng):
    params = {}
    for _ in range(rng.choice([0, 1, 1, 2])):
        k = rand_token(rng, 1, 5)
        v = rand_value(rng)
        if k == "charset":
            v = v.replace(",", "")
        params[k] = v
    return [rng.choice(["application", "image", "audio", "x-" + rand_token(rng, 1, 3)]), rand_token(rng),
            [[k, v] for k, v in params.items()]]


def split_bytes(rng, data, n):
    """n chunks whose concatenation is data (cuts anywhere, also inside a multi-byte character), some empty"""
    if n == 0:
        return []
    cuts = sorted(rng.randint(0, len(data)) for _ in range(n - 1))
    out, prev = [], 0
    for c in cuts + [len(data)]:
        out.append(list(data[prev:c]))
        prev = c
    return out


# chunk lists that repeat a chunk (equal bytes, same object): leading / trailing empties, the last chunk seen before
REPEATS = [[b"", b"x", b""], [b"\n", b"a", b"\n"], [b"ab", b"ab", b"ab"], [b"", b""], [b"", b"", b"x"],
           [b"x", b"", b""], [b"a", b"b", b"a"], [b"a", b"a"], [b"", b"ab", b"", b"ab", b""], [b"xy", b"z", b"xy", b"xy"]]


def rand_detail(rng, name):
    if rng.random() < 0.15:
        ct = TEXT_TYPES[0] if name == 0 else rng.choice(TEXT_TYPES + LATIN_TYPES + BIN_TYPES)
        return {"name": name, "ct": ct, "chunks": [list(c) for c in rng.choice(REPEATS)]}
    r = rng.random()
    n = rng.choice([0, 1, 1, 2, 2, 3, 4])
    if name == 0:           # a detail called 'reason' is read back as text by the converter's own summary
        ct = TEXT_TYPES[0]
        data = rng.choice(TEXT_SNIPPETS).encode("utf8")
    elif r < 0.4:
        ct = rng.choice(TEXT_TYPES)
        data = "".join(rng.choice(TEXT_SNIPPETS) for _ in range(rng.randint(0, 3))).encode("utf8")
    elif r < 0.5:
        ct = rng.choice(LATIN_TYPES)
        data = bytes(rng.randint(0, 255) for _ in range(rng.randint(0, 6)))
    elif r < 0.8:
        ct = rng.choice(BIN_TYPES)
        data = bytes(b for _ in range(rng.randint(0, 3)) for b in rng.choice(BIN_SNIPPETS))
    else:
        ct = rand_bin_type(rng)
        data = bytes(b for _ in range(rng.randint(0, 3)) for b in rng.choice(BIN_SNIPPETS))
    if n == 0:
        data = b""
    chunks = split_bytes(rng, data, n)
    if rng.random() < 0.3 and chunks:
        chunks.insert(rng.randint(0, len(chunks)), [])
    return {"name": name, "ct": ct, "chunks": chunks}


def rand_details(rng, allow_reason_name=True):
    k = rng.choice([0, 1, 1, 2, 2, 3])
    pool = [1, 2, 3, 4, 5] + ([0] if allow_reason_name else [])
    names = rng.sample(pool, k)
    return [rand_detail(rng, n) for n in names]


def rand_tags_op(rng):
    new = sorted(rng.sample([1, 2, 3, 4], rng.choice([0, 1, 1, 2])))
    gone = sorted(rng.sample([1, 2, 3, 4], rng.choice([0, 0, 1, 2])))
    return ["tags", new, gone]


def noise(rng, p=0.35):
    out = []
    while rng.random() < p:
        out.append(["time", rng.randint(1, 50)] if rng.random() < 0.5 else rand_tags_op(rng))
    return out


REASONS = ["", "no reason", "nicht unterstützt ✓", "needs β", "x" * 12, "multi\nline"]


def rand_outcome(rng, i):
    kind = rng.choice(list(KINDS))
    details, reason, exc = None, None, None
    if kind in ("addError", "addFailure", "addExpectedFailure"):
        if rng.random() < 0.4:
            exc = [rng.choice(list(EXCS)), rng.choice(["boom", "", "naïve ✓", "a\nb"])]
        else:
            details = rand_details(rng)
    elif kind == "addSkip":
        r = rng.random()
        if r < 0.5:
            reason = rng.choice(REASONS)
        elif r < 0.9:
            details = rand_details(rng)
    else:
        if rng.random() < 0.7:
            details = rand_details(rng)
    return ["outcome", kind, i, details, reason, exc]


def rand_history(rng, max_tests=5):
    ops = []
    explicit = rng.random() < 0.7
    # time() / tags() before the run is started: kept by the implicit start, reset by an explicit startTestRun;
    # the last time wins, the tags accumulate
    r = rng.random()
    if r < 0.45:
        for _ in range(rng.choice([1, 1, 2, 3])):
            if r < 0.15 or (r < 0.30 and rng.random() < 0.5):
                ops.append(["time", rng.randint(1, 50)])
            else:
                ops.append(rand_tags_op(rng))
    if explicit:
        ops.append(["startRun"])
        ops += noise(rng)
    n = rng.choice([0, 1, 1, 2, 2, 3, 4, max_tests])
    for _ in range(n):
        i = rng.choice([1, 2, 3, 4])
        ops.append(["startTest", i])
        ops += noise(rng)
        ops.append(rand_outcome(rng, i))
        ops += noise(rng, 0.2)
        ops.append(["stopTest", i])
        ops += noise(rng)
    if (explicit or n > 0) and rng.random() < 0.85:
        ops.append(["stopRun"])
    return {"ops": ops}


def fixed_cases():
    d = lambda name, ct, chunks: {"name": name, "ct": ct, "chunks": [list(c) for c in chunks]}
    utf8 = TEXT_TYPES[0]
    octet = BIN_TYPES[0]
    out = []
    out.append({"ops": []})
    out.append({"ops": [["startRun"], ["stopRun"]]})
    # one test per outcome kind, no details where allowed
    for kind in KINDS:
        det = [] if kind in ("addError", "addFailure", "addExpectedFailure") else None
        out.append({"ops": [["startRun"], ["time", 3], ["startTest", 1], ["time", 5],
                            ["outcome", kind, 1, det, None, None], ["stopTest", 1], ["stopRun"]]})
    # chunk shapes of one detail: 0, 1, 2, 3 chunks, empties first / last / only
    for chunks in [[], [b""], [b"a"], [b"a", b"b"], [b"", b"a"], [b"a", b""], [b"", b""], [b"a", b"", b"c"],
                   [b"a", b"b", b"c", b"d"]] + REPEATS:
        out.append({"ops": [["startTest", 2], ["outcome", "addSuccess", 2, [d(2, octet, chunks)], None, None],
                            ["stopTest", 2]]})
    # several details, parameters, non-ASCII
    out.append({"ops": [["startRun"], ["tags", [1, 2], []], ["startTest", 2], ["tags", [3], [1]], ["time", 7],
                        ["outcome", "addFailure", 2,
                         [d(3, utf8, ["é".encode()[:1], "é".encode()[1:]]), d(4, BIN_TYPES[3], [b"\xff", b"", b"\x00"]),
                          d(1, TEXT_TYPES[3], [b"Traceback\n", b"ValueError\n"])], None, None],
                        ["stopTest", 2], ["startTest", 3], ["outcome", "addSuccess", 3, None, None, None],
                        ["stopTest", 3], ["stopRun"]]})
    # parameter values with upper-case letters (values are case-sensitive; names are lower-case in wf_ct)
    for ct in (TEXT_TYPES[2], TEXT_TYPES[4], LATIN_TYPES[2], LATIN_TYPES[3], BIN_TYPES[5]):
        out.append({"ops": [["startRun"], ["startTest", 1], ["outcome", "addFailure", 1, [d(2, ct, [b"A", b"b"])], None, None],
                            ["stopTest", 1], ["stopRun"]]})
    # skip reasons
    for r in REASONS:
        out.append({"ops": [["startRun"], ["startTest", 1], ["outcome", "addSkip", 1, None, r, None], ["stopTest", 1],
                            ["stopRun"]]})
    out.append({"ops": [["startRun"], ["startTest", 1], ["outcome", "addSkip", 1, [d(0, utf8, [b"because"])], None, None],
                        ["stopTest", 1], ["stopRun"]]})
    # exc_info
    for kind in ("addError", "addFailure", "addExpectedFailure"):
        out.append({"ops": [["startRun"], ["startTest", 4], ["outcome", kind, 4, None, None, ["ValueError", "boom ✓"]],
                            ["stopTest", 4], ["stopRun"]]})
    # time() before the run is started: kept across the implicit start (inprogress, replayed startTest and outcome
    # carry it), last of several wins, a later time() replaces it; an explicit startTestRun resets it
    ok = lambda i: ["outcome", "addSuccess", i, None, None, None]
    out.append({"ops": [["time", 7], ["startTest", 1], ok(1), ["stopTest", 1]]})
    out.append({"ops": [["time", 7], ["time", 9], ["time", 8], ["startTest", 1], ok(1), ["stopTest", 1], ["stopRun"]]})
    out.append({"ops": [["time", 7], ["startTest", 1], ["time", 9], ok(1), ["stopTest", 1], ["startTest", 2], ok(2),
                        ["stopTest", 2], ["stopRun"]]})
    out.append({"ops": [["time", 7], ["startTest", 2], ["tags", [1], []],
                        ["outcome", "addFailure", 2, [d(2, utf8, [b"a", b"b"])], None, None], ["stopTest", 2]]})
    out.append({"ops": [["time", 7], ["startRun"], ["startTest", 1], ok(1), ["stopTest", 1], ["stopRun"]]})
    out.append({"ops": [["time", 7], ["time", 6], ["startRun"], ["time", 8], ["startTest", 1], ["time", 9], ok(1),
                        ["stopTest", 1]]})
    out.append({"ops": [["time", 7]]})
    out.append({"ops": [["time", 7], ["time", 9], ["startRun"]]})
    out.append({"ops": [["time", 5], ["startTest", 3], ["outcome", "addSkip", 3, None, "later", None], ["stopTest", 3]]})
    # tags() before the run is started: run-level tags of the run the first startTest starts (final status test_tags,
    # replayed tags) for every test of it, test-local changes on top; an explicit startTestRun resets them
    out.append({"ops": [["tags", [1], []], ["startTest", 1], ok(1), ["stopTest", 1]]})
    out.append({"ops": [["tags", [1, 2], []], ["tags", [3], [1]], ["startTest", 1], ["tags", [4], [2]], ok(1), ["stopTest", 1],
                        ["startTest", 2], ok(2), ["stopTest", 2], ["stopRun"]]})
    out.append({"ops": [["time", 5], ["tags", [1], []], ["time", 6], ["startTest", 1], ok(1), ["stopTest", 1]]})
    out.append({"ops": [["tags", [1], []], ["startRun"], ["startTest", 1], ok(1), ["stopTest", 1], ["stopRun"]]})
    out.append({"ops": [["tags", [1], []], ["startRun"], ["tags", [2], []], ["startTest", 1], ok(1), ["stopTest", 1]]})
    out.append({"ops": [["tags", [], [1]], ["startTest", 1], ok(1), ["stopTest", 1]]})
    out.append({"ops": [["tags", [4], []]]})
    out.append({"ops": [["tags", [2], []], ["startTest", 2],
                        ["outcome", "addFailure", 2, [d(2, utf8, [b"a", b"b"])], None, None], ["stopTest", 2],
                        ["tags", [], [2]], ["startTest", 3], ok(3), ["stopTest", 3], ["stopRun"]]})
    # same id twice, tags leaking check, time only before the run's first test
    out.append({"ops": [["startRun"], ["time", 1], ["tags", [4], []], ["startTest", 1], ["tags", [1], [4]],
                        ["outcome", "addSuccess", 1, None, None, None], ["tags", [2], []], ["stopTest", 1],
                        ["startTest", 1], ["time", 2], ["outcome", "addUnexpectedSuccess", 1, None, None, None],
                        ["stopTest", 1], ["tags", [], [4]], ["startTest", 2],
                        ["outcome", "addExpectedFailure", 2, [], None, None], ["stopTest", 2], ["stopRun"]]})
    return out


def generate(rng, tier):
    cases = fixed_cases()
    n = 3600 if tier == "quick" else 36000
    for _ in range(n):
        cases.append(rand_history(rng))
    return cases


def tests_of(case):
    return [op for op in case["ops"] if op[0] == "outcome"]


def pre_start(case):
    """number of time() and of tags() calls before the run is started, and how it is started ('startRun' / 'startTest' / None)"""
    n = {"time": 0, "tags": 0}
    for op in case["ops"]:
        if op[0] not in n:
            return n["time"], n["tags"], op[0]
        n[op[0]] += 1
    return n["time"], n["tags"], None


def nontrivial(case):
    outs = tests_of(case)
    if any(d for o in outs for d in (o[3] or []) if len(d["chunks"]) >= 2):
        return True
    if outs and sum(pre_start(case)[:2]) > 0:
        return True
    return len(outs) >= 2 and any(op[0] in ("tags", "time") for op in case["ops"])


def shrink(case):
    ops = case["ops"]
    # drop a whole test
    starts = [k for k, op in enumerate(ops) if op[0] == "startTest"]
    for s in starts:
        e = next(k for k in range(s, len(ops)) if ops[k][0] == "stopTest")
        yield {"ops": ops[:s] + ops[e + 1:]}
    # drop a time / tags / stopRun op
    for k, op in enumerate(ops):
        if op[0] in ("time", "tags", "stopRun"):
            yield {"ops": ops[:k] + ops[k + 1:]}
    # simplify an outcome
    for k, op in enumerate(ops):
        if op[0] != "outcome":
            continue
        _, kind, i, details, reason, exc = op

        def re(new):
            return {"ops": ops[:k] + [new] + ops[k + 1:]}
        if exc is not None and kind in ("addError", "addFailure", "addExpectedFailure"):
            yield re(["outcome", kind, i, [], None, None])
        if reason:
            yield re(["outcome", kind, i, details, "r", exc])
        if details:
            for j in range(len(details)):
                yield re(["outcome", kind, i, details[:j] + details[j + 1:], reason, exc])
            for j, d in enumerate(details):
                for c in range(len(d["chunks"])):
                    d2 = dict(d, chunks=d["chunks"][:c] + d["chunks"][c + 1:])
                    yield re(["outcome", kind, i, details[:j] + [d2] + details[j + 1:], reason, exc])
                if d["ct"][2]:
                    d2 = dict(d, ct=[d["ct"][0], d["ct"][1], d["ct"][2][:-1]])
                    if d["ct"][0] != "text":
                        yield re(["outcome", kind, i, details[:j] + [d2] + details[j + 1:], reason, exc])
                for c, ch in enumerate(d["chunks"]):
                    if len(ch) > 1:
                        d2 = dict(d, chunks=d["chunks"][:c] + [ch[:1]] + d["chunks"][c + 1:])
                        if d["ct"][0] != "text":
                            yield re(["outcome", kind, i, details[:j] + [d2] + details[j + 1:], reason, exc])


def distribution(cases):
    d = {"details_with_repeated_chunk": 0, "param_values_with_upper_case": 0, "tests": {}, "kinds": {}, "via": {"exc_info": 0, "details": 0, "neither": 0}, "details_per_test": {},
         "chunks_per_detail": {}, "empty_chunks": 0, "params_per_type": {}, "text_details": 0, "binary_details": 0,
         "skip_reasons": 0, "explicit_startTestRun": 0, "stopTestRun": 0, "time_calls": 0, "tags_calls": 0,
         "time_before_implicit_start": 0, "time_before_explicit_start": 0, "several_times_before_start": 0,
         "tags_before_implicit_start": 0, "tags_before_explicit_start": 0}
    for c in cases:
        outs = tests_of(c)
        b = min(len(outs), 5)
        d["tests"][b] = d["tests"].get(b, 0) + 1
        d["explicit_startTestRun"] += any(op[0] == "startRun" for op in c["ops"])
        pre, pretags, how = pre_start(c)
        d["tags_before_implicit_start"] += pretags > 0 and how == "startTest"
        d["tags_before_explicit_start"] += pretags > 0 and how == "startRun"
        d["time_before_implicit_start"] += pre > 0 and how == "startTest"
        d["time_before_explicit_start"] += pre > 0 and how == "startRun"
        d["several_times_before_start"] += pre > 1 and how is not None
        d["stopTestRun"] += bool(c["ops"]) and c["ops"][-1][0] == "stopRun"
        d["time_calls"] += sum(op[0] == "time" for op in c["ops"])
        d["tags_calls"] += sum(op[0] == "tags" for op in c["ops"])
        for o in outs:
            d["kinds"][o[1]] = d["kinds"].get(o[1], 0) + 1
            d["via"]["exc_info" if o[5] is not None else ("details" if o[3] is not None else "neither")] += 1
            d["skip_reasons"] += o[4] is not None
            if o[3] is not None:
                n = len(o[3])
                d["details_per_test"][n] = d["details_per_test"].get(n, 0) + 1
                for det in o[3]:
                    k = min(len(det["chunks"]), 5)
                    d["chunks_per_detail"][k] = d["chunks_per_detail"].get(k, 0) + 1
                    d["empty_chunks"] += sum(1 for ch in det["chunks"] if not ch)
                    cs = [bytes(ch) for ch in det["chunks"]]
                    d["details_with_repeated_chunk"] += len(set(cs)) < len(cs)
                    d["param_values_with_upper_case"] += any(v != v.lower() for _, v in det["ct"][2])
                    p = len(det["ct"][2])
                    d["params_per_type"][p] = d["params_per_type"].get(p, 0) + 1
                    if det["ct"][0] == "text":
                        d["text_details"] += 1
                    else:
                        d["binary_details"] += 1
    return d
