"""C16 - Content is lossless and independent of chunking (content.py, content_type.py,
testresult/real.py:_make_content_type, testcase.py:_copy_content)."""
import io
import itertools
import json
import os

from .. import coqio as q

PROP = "C16"
CORR = "Corr.C16"
REQUIRES = ["Model.Utf8", "Model.MimeCt", "Model.Content", "Spec.C16"]
PROOF_FILES = ["Proof/C16.v", "Proof/Utf8Sweep.v"]
MANIFEST = {
    "text": "Coq theorems about a hand-written Gallina model of testtools.content (Content.iter_bytes/iter_text/as_text/"
            "__eq__, _iter_chunks, text_content/json_content/content_from_file/content_from_stream/content_from_reader, "
            "_copy_content) and of ContentType.__repr__/_make_content_type: chunk independence of as_text proved once for "
            "every decoder that is a fold of a byte automaton and instantiated for UTF-8 (strict) and ISO-8859-1; "
            "utf8 decode/encode round trip for all 1,112,064 Unicode scalar values (exhaustive vm_compute sweep per code "
            "point, induction over strings); the fuelled read loop yields non-empty chunks <= chunk_size that concatenate "
            "to the bytes from the clamped start to EOF for EVERY read-size oracle of the stream (short reads that are "
            "not end of file: pipes, sockets, raw devices); every history of reads on ONE content object (readers "
            "created, advanced alternately, abandoned, drained, as_text in between): each complete read is the "
            "whole-string decode, by an invariant over the history; laziness/buffer_now and snapshots over an explicit "
            "mutable source; MIME render/parse round trip for the wf_ct grammar. Tied to /repo on every run by differential "
            "execution of model and implementation inside coqc; the oracle for a failing input is the executable "
            "statement spec_okb, proved to imply the readable Spec.",
    "note": "Full except: json.dumps is a Section variable (C16_json); charsets other than UTF-8/ISO-8859-1 and the OS "
            "file layer are not modelled (read histories over utf-16/utf-32/utf-8-sig/utf-7/cp1252 text are a SAMPLED "
            "extension: the case carries Python's bytes.decode answer, spec_okb judges every complete read against it, "
            "the model assumes it); the email header parser is modelled for the fragment __repr__ produces from "
            "content types in mime_dom (token type/subtype/parameter names, values without quote, without '=?', not "
            "ending in an odd run of backslashes, no U+0085/U+2028/U+2029). Known finding F16: inside that domain a "
            "content type survives repr+_make_content_type iff wf_ct (no backslash in a value, lower-case parameter "
            "names, charset without ','). Trusted: Coq kernel + vm_compute; the harness (generators, drivers, "
            "instrumented stream, Gallina printer); codecs/email as exercised by the correspondence.",
    "technique": "Coq proof (fold/concat law for byte automata, exhaustive sweep over Unicode scalars, fuelled loop "
                 "induction, list parsing lemmas) + model/implementation correspondence in coqc",
    "ref": "6 C16",
}
RULE = ("eleven scenario kinds: text_content over NUL/BMP/astral/combining/boundary code points; json_content over random "
        "JSON values; Content(ct, chunks) with explicit chunk lists (empty chunks, cuts inside sequences, valid and "
        "invalid UTF-8, both charsets in several spellings, no charset, non-text types); byte strings <= 8 (quick) / "
        "<= 12 (thorough) bytes under ALL 2^(n-1) cut patterns, each also with empty chunks in front/between/behind "
        "(one case = one byte string, observation = as_text per split, run-length encoded); content_from_stream over "
        "an instrumented BytesIO and content_from_file over real temporary files (builtin open rebound in "
        "testtools.content to count reads) for lengths around multiples of chunk_size, offsets before/at/after EOF, "
        "both origins, both buffer_now values, source overwritten between creation and iteration, iterated twice; "
        "the same over streams whose read(n) returns FEWER than n bytes before end of file, sized by a read-size "
        "oracle (one entry per read() call, clamped to 1..chunk_size): a duck-typed wrapper, an io.RawIOBase subclass "
        "(read -> readinto), an io.FileIO over a real OS pipe fed piecewise, and open() rebound to return such a "
        "device-like object - ALL oracles of <= 3 (quick) / <= 4 (thorough) sizes for chunk_size 2 and 3 and data "
        "lengths 0..5 / 0..7, then random oracles incl. out-of-range entries; "
        "histories of reads on ONE Content object over [new reader, next(i), drain(i), as_text]: ALL histories of "
        "<= 4 (quick) / <= 5 (thorough) operations over <= 2 readers on contents cut inside multi-byte sequences, "
        "then random histories (<= 3 readers, abandoned readers, unknown reader ids, undecodable data, non-text "
        "types, unknown charsets) - only COMPLETE reads are observed (joined text or the exception), not how the "
        "text is cut into pieces; sampled: such histories over text encoded in utf-16/utf-32/utf-8-sig/utf-7/"
        "utf-16-le/-be/utf-32-be/cp1252 (BOM-detecting, BOM-stripping and stateful codecs) judged against "
        "bytes.decode; "
        "_copy_content/gather_details snapshots of such sources, and of details whose callback serves an in-memory "
        "list (a generator over it / the SAME list object every call / a fresh list / a tuple) gathered through "
        "_copy_content, gather_details or TestCase.useFixture and then mutated (append, clear, replace); content_from_reader "
        "over the same four callback kinds with both buffer_now values, list mutated after creation; Content.__eq__ on pairs differing in type, subtype, "
        "parameters (incl. order) or bytes (incl. same bytes chunked differently); content types from the wf_ct "
        "grammar and its boundary inside mime_dom. non-trivial = text with a non-ASCII code point / >= 2 chunks / "
        ">= 2 bytes under splits / non-empty source / parameters present / history of >= 2 operations over >= 2 "
        "chunks; distinct = distinct JSON")
TRUSTED = ["codecs incremental decoders and str.encode('utf8') are compared with coq/Model/Utf8.v on every generated "
           "text and byte string (which inputs are rejected, too), not assumed",
           "io.BytesIO / open(path,'rb') seek and read semantics as modelled by Model.Content.seek_pos/read_at "
           "(compared on every reader case)",
           "reads of files are counted by rebinding the name `open` in testtools.content to a wrapper for the "
           "duration of one case",
           "short reads: the three stream doubles (CountingStream, SegmentedRaw(io.RawIOBase), FedPipe(io.FileIO over "
           "os.pipe(), the writer's side played in the same thread just before each read)) deliver what "
           "Model.Content.next_size says; the pipe flavour shows that a real unbuffered file object does return "
           "short reads that are not EOF",
           "a history is driven single-threaded: interleavings of several readers are explicit alternations of "
           "next() calls (what two threads could do to one Content object, made deterministic)"]
ASSUMPTIONS = ["json.dumps is an oracle: the case carries json.dumps(data) computed by the harness; C16_json is stated "
               "for an arbitrary dumps function (round trip = loads . dumps is json's contract)",
               "charset names are limited to the spellings in Model.Content.utf8_names/latin1_names (after "
               "case/'-'/' ' normalisation); other codecs are not modelled",
               "strings in content types are compared as UTF-8 byte strings (bytewise order = code point order)",
               "SAMPLED extension (not carried by the Coq codec model): for read histories with a charset that "
               "codec_of does not know but Python does (utf-16, utf-32, utf-8-sig, utf-7, utf-16-le/-be, utf-32-be, "
               "cp1252) the case carries oracle = bytes.decode(charset) of the joined bytes; spec_okb demands every "
               "complete read to equal it, the model returns it for every complete read (i.e. assumes these codecs' "
               "incremental decoders obey the chunking law and that readers are independent); only data produced by "
               "str.encode(charset) is generated (BOM-carrying for utf-16/utf-32) - a BOM-less 'utf-16' byte string is "
               "outside: CPython's incremental utf-16 decoder rejects it while bytes.decode assumes native order",
               "streams whose read() returns None (non-blocking, no data yet) or more than n bytes are outside the "
               "read-size oracle"]
EXPLANATION = ("Theorems in coq/Props/C16.v; correspondence: the real Content/ContentType/_make_content_type/"
               "_copy_content of the working tree against coq/Model/{Content,Utf8,MimeCt}.v on generated scenarios; "
               "glue samples: out-of-domain F16 probes (RFC 2047/2231 look-alikes, escaped closing quote) recorded "
               "for information.")
CASE_TIMEOUT = 30

ROOT = os.path.dirname(os.path.dirname(os.path.dirname(os.path.dirname(os.path.abspath(__file__)))))
EXPECTED = (UnicodeDecodeError, ValueError, LookupError, OSError)


def _exn(e):
    for c in EXPECTED:       # UnicodeDecodeError is a ValueError: most specific first
        if isinstance(e, c):
            return c.__name__
    raise e


# ---------------------------------------------------------------------------
# drivers
# ---------------------------------------------------------------------------
def next_size(n, sizes):
    """Model.Content.next_size: how many bytes the next read(n) hands out at most.  `sizes` is the scenario's ONE
    oracle list, shared by every stream object of the case and popped once per read() call."""
    if not sizes:
        return n
    return max(1, min(sizes.pop(0), n))


class CountingStream:
    """Delegates to a real stream, counting read() calls.  With a non-empty oracle it behaves like a file object over
    an unbuffered device: read(n) returns fewer than n bytes although more follow."""

    def __init__(self, inner, counter, sizes=None):
        self.inner, self.counter, self.sizes = inner, counter, sizes if sizes is not None else []

    def read(self, n):
        self.counter[0] += 1
        return self.inner.read(next_size(n, self.sizes))

    def seek(self, *a):
        return self.inner.seek(*a)

    def tell(self):
        return self.inner.tell()

    def close(self):
        return self.inner.close()

    def __enter__(self):
        self.inner.__enter__()
        return self

    def __exit__(self, *a):
        return self.inner.__exit__(*a)


class SegmentedRaw(io.RawIOBase):
    """An unbuffered raw stream (io.RawIOBase subclass; read(n) is RawIOBase.read -> readinto) over a BytesIO that
    hands out its data in pieces, as recv() does: each readinto delivers at most the oracle's next size."""

    def __init__(self, inner, counter, sizes):
        io.RawIOBase.__init__(self)
        self.inner, self.counter, self.sizes = inner, counter, sizes

    def readable(self):
        return True

    def seekable(self):
        return True

    def readinto(self, b):
        self.counter[0] += 1
        data = self.inner.read(next_size(len(b), self.sizes))
        b[:len(data)] = data
        return len(data)

    def seek(self, *a):
        return self.inner.seek(*a)

    def tell(self):
        return self.inner.tell()


class FedPipe(io.FileIO):
    """A real OS pipe read through an unbuffered file object (io.FileIO, what os.fdopen(fd, 'rb', buffering=0)
    returns).  The writer's side is played in the same thread: just before each read it has written the next piece
    (oracle size) of the source into the pipe, so the kernel hands FileIO.read(n) a SHORT read that is not end of
    file.  End of file (nothing left in the source) is answered without touching the pipe."""

    def __init__(self, inner, counter, sizes):
        r, self.w = os.pipe()
        io.FileIO.__init__(self, r, "rb")
        self.inner, self.counter, self.sizes = inner, counter, sizes

    def read(self, n=-1):
        self.counter[0] += 1
        piece = self.inner.read(next_size(n, self.sizes))
        if not piece:
            return b""
        os.write(self.w, piece)
        return io.FileIO.read(self, n)

    def close(self):
        if getattr(self, "w", None) is not None:
            os.close(self.w)
            self.w = None
        io.FileIO.close(self)


def _ct(j):
    from testtools.content_type import ContentType
    return ContentType(j[0], j[1], dict((k, v) for k, v in j[2]))


def _ct_obs(ct):
    return [ct.type, ct.subtype, sorted([k, v] for k, v in ct.parameters.items())]


def _text(f):
    try:
        return {"ok": [ord(c) for c in f()]}
    except EXPECTED as e:
        return {"raised": _exn(e)}


def _chunks(f):
    try:
        return {"ok": [list(c) for c in f()]}
    except EXPECTED as e:
        return {"raised": _exn(e)}


def split_by_mask(data, mask):
    out, cur = [], [data[0]]
    for i in range(1, len(data)):
        if mask >> (i - 1) & 1:
            out.append(bytes(cur))
            cur = []
        cur.append(data[i])
    out.append(bytes(cur))
    return out


def all_splits(data):
    """every cut pattern, then every cut pattern again with empty chunks in front, between and behind"""
    if not data:
        plain = [[]]
    else:
        plain = [split_by_mask(data, m) for m in range(1 << (len(data) - 1))]
    res = list(plain)
    for s in plain:
        t = [b""]
        for c in s:
            t += [c, b""]
        res.append(t)
    return res


def rle(items):
    out = []
    for x in items:
        if out and out[-1][0] == x:
            out[-1][1] += 1
        else:
            out.append([x, 1])
    return out


class Source:
    """The one mutable source of a reader/snapshot scenario."""

    def __init__(self, case):
        import testtools.content as C
        self.C = C
        self.case = case
        self.counter = [0]
        self.path = None
        self.sizes = sizes = list(case.get("sizes", []))
        if case["kind"] == "bytesio":
            self.inner = io.BytesIO(bytes(case["data0"]))
            self.inner.seek(case["pos0"])
            fl = case.get("flavour", "plain")
            if fl == "raw":
                self.stream = SegmentedRaw(self.inner, self.counter, sizes)
            elif fl == "pipe":
                self.stream = FedPipe(self.inner, self.counter, sizes)
            else:
                self.stream = CountingStream(self.inner, self.counter, sizes)
        else:
            import tempfile
            d = os.path.join(ROOT, ".work", "c16-files")
            os.makedirs(d, exist_ok=True)
            fd, self.path = tempfile.mkstemp(dir=d)
            with os.fdopen(fd, "wb") as f:
                f.write(bytes(case["data0"]))
            counter = self.counter

            def counting_open(path, mode="r", *a, **kw):
                return CountingStream(io.open(path, mode, *a, **kw), counter, sizes)
            C.open = counting_open

    def content(self, buffer_now):
        c = self.case
        kw = dict(chunk_size=c["chunk"], buffer_now=buffer_now)
        if c["seek"] is not None:
            kw.update(seek_offset=c["seek"][0], seek_whence=c["seek"][1])
        if c["kind"] == "bytesio":
            return self.C.content_from_stream(self.stream, **kw)
        return self.C.content_from_file(self.path, **kw)

    def overwrite(self):
        c = self.case
        if c["kind"] == "bytesio":
            self.inner.seek(0)
            self.inner.truncate()
            self.inner.write(bytes(c["data1"]))
            self.inner.seek(c["pos1"])
        else:
            with io.open(self.path, "wb") as f:
                f.write(bytes(c["data1"]))

    def close(self):
        if self.case.get("flavour") == "pipe":
            self.stream.close()
        if self.path is not None:
            try:
                del self.C.open
            except AttributeError:
                pass
            try:
                os.unlink(self.path)
            except OSError:
                pass


def drive(case):
    from testtools import content as C
    k = case["k"]
    if k == "text":
        c = C.text_content("".join(chr(x) for x in case["s"]))
        return {"ct": _ct_obs(c.content_type), "bytes": list(b"".join(c.iter_bytes())), "text": _text(c.as_text)}
    if k == "json":
        c = C.json_content(case["data"])
        return {"ct": _ct_obs(c.content_type), "bytes": list(b"".join(c.iter_bytes()))}
    if k == "chunks":
        chunks = [bytes(x) for x in case["chunks"]]
        c = C.Content(_ct(case["ct"]), lambda: chunks)
        return {"bytes": list(b"".join(c.iter_bytes())), "text": _text(c.as_text)}
    if k == "splits":
        from testtools.content_type import ContentType
        ct = ContentType("text", "plain", {} if case["charset"] is None else {"charset": case["charset"]})
        res = []
        for s in all_splits(bytes(case["data"])):
            res.append(_text(C.Content(ct, lambda s=s: s).as_text))
        return {"runs": rle(res)}
    if k == "reader":
        src = Source(case)
        try:
            try:
                c = src.content(case["buffer"])
            except EXPECTED as e:
                n = _exn(e)
                return {"created": n, "rc": src.counter[0] > 0, "it1": {"raised": n}, "r1": False,
                        "it2": {"raised": n}, "r2": False}
            n0 = src.counter[0]
            src.overwrite()
            it1 = _chunks(lambda: list(c.iter_bytes()))
            n1 = src.counter[0]
            it2 = _chunks(lambda: list(c.iter_bytes()))
            n2 = src.counter[0]
            return {"created": None, "rc": n0 > 0, "it1": it1, "r1": n1 > n0, "it2": it2, "r2": n2 > n1}
        finally:
            src.close()
    if k == "snap":
        from testtools import testcase
        src = Source(case)
        try:
            c = src.content(False)
            try:
                if case["via"] == "copy":
                    cp = testcase._copy_content(c)
                else:
                    target = {}
                    testcase.gather_details({"d": c}, target)
                    cp = target["d"]
            except EXPECTED as e:
                n = {"raised": _exn(e)}
                return {"copied": n["raised"], "same": False, "c1": n, "c2": n, "ra": False, "orig": n}
            same = bool(cp.content_type == c.content_type)
            src.overwrite()
            n0 = src.counter[0]
            c1 = _chunks(lambda: list(cp.iter_bytes()))
            c2 = _chunks(lambda: list(cp.iter_bytes()))
            ra = src.counter[0] > n0
            orig = _chunks(lambda: list(c.iter_bytes()))
            return {"copied": None, "same": same, "c1": c1, "c2": c2, "ra": ra, "orig": orig}
        finally:
            src.close()
    if k == "snaplist":
        return drive_snaplist(case)
    if k == "readerlist":
        return drive_readerlist(case)
    if k == "eq":
        ca = [bytes(x) for x in case["ca"]]
        cb = [bytes(x) for x in case["cb"]]
        a = C.Content(_ct(case["ta"]), lambda: ca)
        b = C.Content(_ct(case["tb"]), lambda: cb)
        return {"eq": bool(a == b), "ne": bool(a != b)}
    if k == "hist":
        return drive_hist(case)
    if k == "mime":
        from testtools.testresult.real import _make_content_type
        r = repr(_ct(case["ct"]))
        try:
            return {"ok": _ct_obs(_make_content_type(r))}
        except Exception:      # noqa - the function raises bare Exception("Can't parse type ...")
            return {"raised": "ExceptionCantParse"}
    raise AssertionError(k)


def drive_hist(case):
    """A history of reads on ONE Content object.  Only COMPLETE reads are observed (what a reader collected from its
    first piece to exhaustion, joined - or the exception that ended it; as_text()): how the text is cut into pieces
    is not pinned down by the statement."""
    from testtools import content as C
    chunks = [bytes(x) for x in case["chunks"]]
    c = C.Content(_ct(case["ct"]), lambda: chunks)
    readers = []

    def step(rd):
        if rd["end"] is not None:
            return
        try:
            rd["acc"].append(next(rd["it"]))
        except StopIteration:
            rd["end"] = "stop"
        except EXPECTED as e:
            rd["end"] = _exn(e)

    out = []
    for op in case["ops"]:
        if op[0] == "new":
            try:
                it = iter(c.iter_text())
            except EXPECTED as e:
                out.append({"new": _exn(e)})
                continue
            readers.append({"it": it, "acc": [], "end": None})
            out.append({"new": None})
        elif op[0] == "astext":
            out.append({"read": _text(c.as_text)})
        elif op[1] >= len(readers):
            out.append("noiter")
        elif op[0] == "next":
            step(readers[op[1]])
            out.append("stepped")
        else:
            rd = readers[op[1]]
            while rd["end"] is None:
                step(rd)
            out.append({"read": {"ok": [ord(ch) for ch in "".join(rd["acc"])]} if rd["end"] == "stop"
                        else {"raised": rd["end"]}})
    return {"rs": out}


def _list_source(case):
    """callback over an in-memory list, and the function that mutates that list"""
    buf = [bytes(c) for c in case["buf"]]
    src = case["src"]
    if src == "gen":                    # a generator over the mutable buffer
        def get():
            return (c for c in buf)
    elif src == "same":                 # the SAME mutable list object on every call
        def get():
            return buf
    elif src == "fresh":                # a fresh list each call
        def get():
            return list(buf)
    else:                               # an immutable tuple made when the content is created
        tup = tuple(buf)

        def get():
            return tup

    def mutate():
        for op in case["ops"]:
            if op[0] == "append":
                buf.append(bytes(op[1]))
            elif op[0] == "clear":
                buf.clear()
            else:
                buf[op[1]] = bytes(op[2])
    return get, mutate


def drive_readerlist(case):
    """content_from_reader over such a callback, both buffer_now values; the list is mutated after creation."""
    from testtools import content as C
    get, mutate = _list_source(case)
    c = C.content_from_reader(get, None, case["buffer"])
    mutate()
    it1 = _chunks(lambda: list(c.iter_bytes()))
    it2 = _chunks(lambda: list(c.iter_bytes()))
    return {"it1": it1, "it2": it2}


def drive_snaplist(case):
    """A detail whose callback serves an in-memory list is gathered, then the list is mutated."""
    import testtools
    from testtools import content as C, testcase
    from testtools.content_type import UTF8_TEXT      # the public home of the constant (content.py may not re-export it)
    get, mutate = _list_source(case)
    c = C.Content(UTF8_TEXT, get)

    via = case["via"]
    if via == "copy":
        cp = testcase._copy_content(c)
        mutate()
    elif via == "gather":
        target = {}
        testcase.gather_details({"d": c}, target)
        cp = target["d"]
        mutate()
    else:                               # TestCase.useFixture: details gathered by a cleanup, then fixture.cleanUp mutates
        import fixtures

        class F(fixtures.Fixture):
            def _setUp(self):
                self.addDetail("d", c)
                self.addCleanup(mutate)

        class T(testtools.TestCase):
            def test_x(self):
                self.useFixture(F())
        t = T("test_x")
        t.run(testtools.TestResult())
        cp = t.getDetails()["d"]
    same = bool(cp.content_type == c.content_type)
    c1 = _chunks(lambda: list(cp.iter_bytes()))
    c2 = _chunks(lambda: list(cp.iter_bytes()))
    orig = _chunks(lambda: list(c.iter_bytes()))
    return {"same": same, "c1": c1, "c2": c2, "orig": orig}


# ---------------------------------------------------------------------------
# Gallina
# ---------------------------------------------------------------------------
def g_str(s):
    b = s.encode("utf-8") if isinstance(s, str) else bytes(s)
    return g_bytes(b)       # no string literals in shards: importing Coq's String would shadow List.length


def g_bytes(b):
    return "(nb [%s])" % "; ".join(str(c) for c in b) if len(b) else "[]"


def g_cps(l):
    return "[%s]%%N" % "; ".join(str(c) for c in l) if l else "[]"


def g_ct(j):
    return q.record([("ct_type", g_str(j[0])), ("ct_sub", g_str(j[1])),
                     ("ct_params", q.lst([q.pair(g_str(k), g_str(v)) for k, v in j[2]]))])


def g_chunks(cs):
    return q.lst([g_bytes(c) for c in cs])


def g_tres(t):
    return "(Ok %s)" % g_cps(t["ok"]) if "ok" in t else "(Raised %s)" % t["raised"]


def g_bres(t):
    return "(Ok %s)" % g_chunks(t["ok"]) if "ok" in t else "(Raised %s)" % t["raised"]


def g_reader(c):
    sk = "None" if c["seek"] is None else "(Some (%s, %s))" % (q.Z(c["seek"][0]), {0: "SeekSet", 2: "SeekEnd"}[c["seek"][1]])
    return q.record([("r_kind", "KBytesIO" if c["kind"] == "bytesio" else "KFile"),
                     ("r_data0", g_bytes(c["data0"])), ("r_pos0", q.nat(c["pos0"])), ("r_seek", sk),
                     ("r_chunk", q.nat(c["chunk"])), ("r_buffer", q.boolean(c.get("buffer", False))),
                     ("r_data1", g_bytes(c["data1"])), ("r_pos1", q.nat(c["pos1"])),
                     ("r_sizes", q.lst([q.nat(x) for x in c.get("sizes", [])]))])


def term(case, o):
    k = case["k"]
    if k == "text":
        return q.pair("(IText %s)" % g_cps(case["s"]),
                      "(OText %s %s %s)" % (g_ct(o["ct"]), g_bytes(o["bytes"]), g_tres(o["text"])))
    if k == "json":
        return q.pair("(IJson %s)" % g_cps(case["dumped"]), "(OJson %s %s)" % (g_ct(o["ct"]), g_bytes(o["bytes"])))
    if k == "chunks":
        return q.pair("(IChunks %s %s)" % (g_ct(case["ct"]), g_chunks(case["chunks"])),
                      "(OChunks %s %s)" % (g_bytes(o["bytes"]), g_tres(o["text"])))
    if k == "splits":
        return q.pair("(ISplits %s %s)" % (q.option(case["charset"], g_str), g_bytes(case["data"])),
                      "(OSplits %s)" % q.lst([q.pair(g_tres(t), q.nat(n)) for t, n in o["runs"]]))
    if k == "reader":
        return q.pair("(IReader %s)" % g_reader(case),
                      "(OReader %s %s %s %s %s %s)" % (q.option(o["created"]), q.boolean(o["rc"]), g_bres(o["it1"]),
                                                       q.boolean(o["r1"]), g_bres(o["it2"]), q.boolean(o["r2"])))
    if k == "snap":
        return q.pair("(ISnap %s)" % g_reader(case),
                      "(OSnap %s %s %s %s %s %s)" % (q.option(o["copied"]), q.boolean(o["same"]), g_bres(o["c1"]),
                                                     g_bres(o["c2"]), q.boolean(o["ra"]), g_bres(o["orig"])))
    if k in ("snaplist", "readerlist"):
        ops = []
        for op in case["ops"]:
            if op[0] == "append":
                ops.append("(LAppend %s)" % g_bytes(op[1]))
            elif op[0] == "clear":
                ops.append("LClear")
            else:
                ops.append("(LReplace %s %s)" % (q.nat(op[1]), g_bytes(op[2])))
        i = q.record([("sl_tuple", q.boolean(case["src"] == "tuple")), ("sl_buf", g_chunks(case["buf"])),
                      ("sl_ops", q.lst(ops))])
        if k == "readerlist":
            return q.pair("(IReaderList %s %s)" % (q.boolean(case["buffer"]), i),
                          "(OReaderList %s %s)" % (g_bres(o["it1"]), g_bres(o["it2"])))
        return q.pair("(ISnapList %s)" % i,
                      "(OSnapList %s %s %s %s)" % (q.boolean(o["same"]), g_bres(o["c1"]), g_bres(o["c2"]), g_bres(o["orig"])))
    if k == "eq":
        return q.pair("(IEq %s %s %s %s)" % (g_ct(case["ta"]), g_chunks(case["ca"]), g_ct(case["tb"]),
                                             g_chunks(case["cb"])),
                      "(OEq %s %s)" % (q.boolean(o["eq"]), q.boolean(o["ne"])))
    if k == "hist":
        ops = []
        for op in case["ops"]:
            ops.append({"new": "HNew", "astext": "HAsText"}[op[0]] if len(op) == 1
                       else "(%s %s)" % ({"next": "HNext", "finish": "HFinish"}[op[0]], q.nat(op[1])))
        rs = []
        for r in o["rs"]:
            if r == "noiter":
                rs.append("RNoIter")
            elif r == "stepped":
                rs.append("RStepped")
            elif "new" in r:
                rs.append("(RNew %s)" % q.option(r["new"]))
            else:
                rs.append("(RRead %s)" % g_tres(r["read"]))
        return q.pair("(IHist %s %s %s %s)" % (g_ct(case["ct"]), g_chunks(case["chunks"]),
                                               q.option(case.get("oracle"), g_tres), q.lst(ops)),
                      "(OHist %s)" % q.lst(rs))
    if k == "mime":
        r = "(Ok %s)" % g_ct(o["ok"]) if "ok" in o else "(Raised %s)" % o["raised"]
        return q.pair("(IMime %s)" % g_ct(case["ct"]), "(OMime %s %s)" % (g_ct(case["ct"]), r))
    raise AssertionError(k)


def perturb(case, o):
    o = json.loads(json.dumps(o))
    k = case["k"]
    if k in ("text", "json"):
        o["bytes"] = o["bytes"] + [33]
    elif k == "chunks":
        o["bytes"] = o["bytes"] + [33]
    elif k == "splits":
        o["runs"] = o["runs"] + [[{"ok": [33, 33, 33]}, 1]]
    elif k == "reader":
        o["rc"] = not o["rc"]
    elif k == "snap":
        o["ra"] = not o["ra"]
    elif k == "snaplist":
        o["same"] = not o["same"]
    elif k == "readerlist":
        o["it1"] = {"ok": o["it1"].get("ok", []) + [[33]]}
    elif k == "eq":
        o["eq"] = not o["eq"]
    elif k == "hist":
        o["rs"] = o["rs"] + ["noiter"]
    elif k == "mime":       # compared by "did it come back": flip that
        ct = case["ct"]
        o = {"ok": ["perturbed", "x", []]} if wf_ct(ct) else {"ok": [ct[0], ct[1], sorted(ct[2])]}
    return o


# ---------------------------------------------------------------------------
# generation
# ---------------------------------------------------------------------------
BOUNDARY_CPS = [0, 1, 0x41, 0x7F, 0x80, 0xE9, 0x7FF, 0x800, 0x0FFF, 0x1000, 0xD7FF, 0xE000, 0xFFFD, 0xFFFF,
                0x10000, 0x1F600, 0x3FFFF, 0x40000, 0xFFFFF, 0x100000, 0x10FFFF, 0x301, 0x20D7, 0x200D, 0xFEFF]
COMBINING = [0x300, 0x301, 0x308, 0x20D7, 0x1AB0, 0xFE0F, 0x200D]


def rand_cp(rng):
    r = rng.random()
    if r < 0.25:
        return rng.randint(0, 0x7F)
    if r < 0.40:
        return rng.randint(0x80, 0x7FF)
    if r < 0.60:
        c = rng.randint(0x800, 0xFFFF)
        return c if not 0xD800 <= c <= 0xDFFF else 0xE000 + (c - 0xD800)
    if r < 0.80:
        return rng.randint(0x10000, 0x10FFFF)
    if r < 0.88:
        return rng.choice(COMBINING)
    if r < 0.92:
        return 0
    return rng.choice(BOUNDARY_CPS)


def rand_text(rng, maxlen=8):
    return [rand_cp(rng) for _ in range(rng.randint(0, maxlen))]


def enc(cp):
    return list(chr(cp).encode("utf-8"))


INVALID_UNITS = [[0x80], [0xBF], [0xC0, 0x80], [0xC1, 0xBF], [0xC2], [0xC2, 0x41], [0xE0, 0x80, 0x80], [0xE0, 0x9F, 0xBF],
                 [0xE0, 0xA0], [0xE1, 0x80], [0xED, 0xA0, 0x80], [0xED, 0xBF, 0xBF], [0xEF, 0xBF], [0xF0, 0x80, 0x80, 0x80],
                 [0xF0, 0x8F, 0xBF, 0xBF], [0xF0, 0x90, 0x80], [0xF4, 0x90, 0x80, 0x80], [0xF4, 0x8F, 0xBF], [0xF5, 0x80, 0x80, 0x80],
                 [0xF8, 0x88, 0x80, 0x80, 0x80], [0xFE], [0xFF], [0xE2, 0x28, 0xA1], [0xF0, 0x28, 0x8C, 0xBC], [0xF0, 0x90, 0x28, 0xBC]]


def rand_bytes(rng, maxlen):
    """a byte string made of valid encodings, with probability 1/2 spoilt by an invalid unit / truncation / random byte"""
    out = []
    while len(out) < maxlen and rng.random() < 0.85:
        out += enc(rand_cp(rng))
    r = rng.random()
    if r < 0.2:
        pos = rng.randint(0, len(out))
        out[pos:pos] = rng.choice(INVALID_UNITS)
    elif r < 0.35 and out:
        out = out[:-1]
    elif r < 0.5:
        out = [rng.randint(0, 255) for _ in range(rng.randint(0, maxlen))]
    elif r < 0.55 and out:
        out[rng.randrange(len(out))] = rng.randint(0, 255)
    return out[:maxlen]


def rand_chunking(rng, data):
    """cut data at random places, inserting empty chunks now and then"""
    cs, cur = [], []
    for b in data:
        if rng.random() < 0.4:
            cs.append(cur)
            cur = []
            if rng.random() < 0.2:
                cs.append([])
        cur.append(b)
    cs.append(cur)
    if rng.random() < 0.3:
        cs.append([])
    if rng.random() < 0.2:
        cs = [c for c in cs if c]
    return cs


UTF8_SPELLINGS = ["utf8", "utf-8", "UTF-8", "utf_8", "U8", "Utf 8"]
LATIN1_SPELLINGS = ["ISO-8859-1", "iso-8859-1", "latin-1", "latin1", "L1", "Latin_1", "iso8859-1"]


def rand_text_ct(rng):
    r = rng.random()
    sub = rng.choice(["plain", "plain", "x-traceback", "html"])
    extra = [["language", "python"]] if rng.random() < 0.2 else []
    if r < 0.45:
        p = [["charset", rng.choice(UTF8_SPELLINGS)]]
    elif r < 0.7:
        p = [["charset", rng.choice(LATIN1_SPELLINGS)]]
    elif r < 0.9:
        p = []
    else:
        return [rng.choice(["application", "image", "Text", "texts"]), rng.choice(["octet-stream", "json", "png"]),
                [["charset", "utf8"]] if rng.random() < 0.5 else []]
    ps = extra + p if rng.random() < 0.5 else p + extra
    return ["text", sub, ps]


# ---- content types for the MIME round trip ----
TOKEN_CHARS = "".join(chr(c) for c in range(33, 127) if chr(c) not in '()<>@,:;\\"[]/?=')
ATTR_CHARS = "".join(c for c in TOKEN_CHARS if c not in "*'%")
VALUE_ASCII = "".join(chr(c) for c in range(32, 127) if c != 34) + "\t"
NONASCII = "é ßЖ日本€‧﻿�\U0001F600\U0010FFFF́\u0080\u0084\u0086\u009f"


def odd_bs_end(v):
    n = 0
    while n < len(v) and v[len(v) - 1 - n] == "\\":
        n += 1
    return n % 2 == 1


def mime_dom(ct):
    def tok(s):
        return len(s) > 0 and all(c in TOKEN_CHARS and not c.isupper() for c in s)

    def name(s):
        return len(s) > 0 and all(c in ATTR_CHARS for c in s)

    def value(v):
        return (all(c in VALUE_ASCII or ord(c) >= 128 for c in v) and "=?" not in v and not odd_bs_end(v)
                and not any(c in v for c in "\u0085\u2028\u2029"))
    names = [k for k, _ in ct[2]]
    return tok(ct[0]) and tok(ct[1]) and all(name(k) and value(v) for k, v in ct[2]) and len(set(names)) == len(names)


def wf_ct(ct):
    return mime_dom(ct) and all(not any(c.isupper() for c in k) and "\\" not in v and
                                (k != "charset" or "," not in v) for k, v in ct[2])


def rand_token(rng, lower=True):
    r = rng.random()
    if r < 0.5:
        return rng.choice(["text", "plain", "application", "json", "x-traceback", "octet-stream", "image", "png",
                           "x.y+z-w_1", "*", "a", "vnd.api+json"])
    pool = TOKEN_CHARS if not lower else "".join(c for c in TOKEN_CHARS if not c.isupper())
    return "".join(rng.choice(pool) for _ in range(rng.randint(1, 6)))


def rand_name(rng, upper=False):
    r = rng.random()
    if r < 0.5:
        s = rng.choice(["charset", "language", "a", "b", "boundary", "format", "x-y", "name", "q"])
    else:
        s = "".join(rng.choice("".join(c for c in ATTR_CHARS if not c.isupper())) for _ in range(rng.randint(1, 5)))
    if upper:
        i = rng.randrange(len(s))
        s = s[:i] + s[i].upper() + s[i + 1:]
        if not any(c.isupper() for c in s):
            s = s + "X"
    return s


def rand_value(rng, backslash=False, comma=None):
    r = rng.random()
    if r < 0.3:
        v = rng.choice(["utf8", "python", "", "b c", " lead", "trail ", "x;y=z", "(c)", "%41", "x'y'z", "a\tb", "=x?", "?=",
                        "b  c", "utf-8", "flowed; delsp=yes", "été", "日本", "\U0001F600"])
    else:
        pool = VALUE_ASCII.replace("\\", "")
        if comma is False:
            pool = pool.replace(",", "")
        v = "".join(rng.choice(pool) if rng.random() < 0.85 else rng.choice(NONASCII) for _ in range(rng.randint(0, 8)))
    if comma is False:
        v = v.replace(",", "")
    if comma is True:
        i = rng.randint(0, len(v))
        v = v[:i] + "," + v[i:]
    if backslash:
        for _ in range(rng.choice([1, 1, 2])):
            i = rng.randint(0, len(v))
            v = v[:i] + rng.choice(["\\", "\\\\", "\\ ", "\\x", "\\\\\\\\"]) + v[i:]
        if odd_bs_end(v):
            v += rng.choice(["z", " ", "\\"])
    v = v.replace("=?", "= ?")
    return v


def rand_mime(rng, flavour):
    """flavour: 'wf' (survives), 'upper', 'backslash', 'comma', 'collide'"""
    n = rng.choice([0, 1, 1, 2, 2, 3]) if flavour == "wf" else rng.choice([1, 1, 2, 3])
    names = []
    while len(names) < n:
        k = rand_name(rng)
        if k not in names:
            names.append(k)
    ps = []
    for k in names:
        ps.append([k, rand_value(rng, comma=False if k == "charset" else None)])
    if flavour == "upper":
        i = rng.randrange(n)
        k = rand_name(rng, upper=True)
        if k not in names:
            ps[i][0] = k
    elif flavour == "backslash":
        i = rng.randrange(n)
        ps[i][1] = rand_value(rng, backslash=True, comma=False if ps[i][0] == "charset" else None)
    elif flavour == "comma":
        i = rng.randrange(n)
        ps[i] = [rng.choice(["charset", "charset", "Charset"]) if "charset" not in names or names[i] == "charset"
                 else ps[i][0], rand_value(rng, comma=True)]
        if ps[i][0] not in ("charset", "Charset"):
            ps.append(["charset", rand_value(rng, comma=True)]) if "charset" not in names else None
    elif flavour == "collide":
        k = rng.choice(["a", "q", "charset", "x-y"])
        ps = [p for p in ps if p[0].lower() != k]
        ps += [[k, rand_value(rng, comma=False)], [k.upper() if rng.random() < 0.5 else k.capitalize(), rand_value(rng, comma=False)]]
        rng.shuffle(ps)
    return [rand_token(rng), rand_token(rng), ps]


def rand_json(rng, d=0):
    r = rng.random()
    if d >= 3 or r < 0.45:
        c = rng.random()
        if c < 0.35:
            return "".join(chr(x) for x in rand_text(rng, 6))
        if c < 0.55:
            return rng.randint(-10 ** 6, 10 ** 6)
        if c < 0.7:
            return rng.choice([0.5, -1.25, 1e10, 3.0])
        return rng.choice([True, False, None])
    if r < 0.75:
        return [rand_json(rng, d + 1) for _ in range(rng.randint(0, 3))]
    return dict(("".join(chr(x) for x in rand_text(rng, 3)) + str(i), rand_json(rng, d + 1)) for i in range(rng.randint(0, 3)))


def mk_reader(kind, data0, pos0, seek, chunk, buffer, data1, pos1, sizes=(), flavour="plain"):
    """sizes: the read-size oracle (empty = every read fills the request); flavour of a 'bytesio' source: 'plain'
    (duck-typed wrapper of a BytesIO), 'raw' (io.RawIOBase subclass), 'pipe' (io.FileIO over a real OS pipe; cannot
    seek, so only without seek_offset).  A 'file' source with sizes is a path whose open() yields a device-like
    object with short reads."""
    if kind == "file":
        pos0 = pos1 = 0
        flavour = "plain"
    if flavour == "pipe" and seek is not None:
        flavour = "raw"
    return {"k": "reader", "kind": kind, "data0": data0, "pos0": pos0, "seek": seek, "chunk": chunk, "buffer": buffer,
            "data1": data1, "pos1": pos1, "sizes": list(sizes), "flavour": flavour}


def rand_sizes(rng, chunk):
    """a read-size oracle: mostly short reads (1..chunk-1), some full, a few out of range (clamped to 1..chunk)"""
    r = rng.random()
    if r < 0.45:
        return []
    out = []
    for _ in range(rng.choice([1, 1, 2, 3, 4, 6, 9])):
        c = rng.random()
        if c < 0.6:
            out.append(rng.randint(1, max(1, chunk - 1)))
        elif c < 0.8:
            out.append(chunk)
        elif c < 0.9:
            out.append(1)
        else:
            out.append(rng.choice([0, chunk + 1, chunk + 7]))
    return out


def seek_choices(n, chunk):
    return [None, [0, 0], [1, 0], [max(n - 1, 0), 0], [n, 0], [n + 1, 0], [n + chunk + 2, 0], [-1, 0],
            [0, 2], [-1, 2], [-n, 2], [-n - 1, 2], [-chunk, 2], [-chunk - 1, 2], [1, 2], [chunk + 1, 2]]


def rand_reader(rng):
    chunk = rng.choice([1, 2, 3, 4, 5, 8])
    m = rng.choice([0, 1, 2, 3])
    n0 = max(0, m * chunk + rng.choice([-1, 0, 0, 1]))
    m = rng.choice([0, 1, 2, 3])
    n1 = max(0, m * chunk + rng.choice([-1, 0, 0, 1]))
    data0 = [(i % 99) + 1 for i in range(n0)]
    data1 = [(i % 99) + 101 for i in range(n1)]
    seek = rng.choice(seek_choices(rng.choice([n0, n1]), chunk))
    sizes = rand_sizes(rng, chunk)
    if sizes and rng.random() < 0.5:
        seek = None
    return mk_reader(rng.choice(["bytesio", "bytesio", "file"]), data0, rng.choice([0, 0, 1, n0 // 2, n0, n0 + 2]), seek,
                     chunk, rng.random() < 0.5, data1, rng.choice([0, 0, 1, n1 // 2, n1, n1 + 2]), sizes,
                     rng.choice(["plain", "raw", "pipe"]) if sizes else rng.choice(["plain", "plain", "raw", "pipe"]))


# ---- histories of reads on one content ----
HIST_OPS = [["new"], ["next", 0], ["next", 1], ["finish", 0], ["finish", 1], ["astext"]]


def hist_sequences(maxlen):
    """every operation sequence up to maxlen over at most two readers that only addresses readers that exist"""
    out = []

    def go(seq, n):
        if seq:
            out.append(list(seq))
        if len(seq) == maxlen:
            return
        for op in HIST_OPS:
            if op[0] == "new":
                if n < 2:
                    go(seq + [op], n + 1)
            elif op[0] == "astext" or op[1] < n:
                go(seq + [op], n)
    go([], 0)
    # only histories in which some reader COMPLETES a read after something else happened
    return [q_ for q_ in out if q_[-1][0] in ("finish", "astext") and len(q_) >= 2]


def rand_hist_ops(rng, nchunks):
    ops, n = [], 0
    for _ in range(rng.randint(2, 9)):
        r = rng.random()
        if n == 0 or (r < 0.2 and n < 3):
            if n == 0 and r < 0.15:
                ops.append(["astext"])
                continue
            ops.append(["new"])
            n += 1
        elif r < 0.65:
            ops.append(["next", rng.randrange(n)])
        elif r < 0.8:
            ops.append(["finish", rng.randrange(n)])
        elif r < 0.97:
            ops.append(["astext"])
        else:
            ops.append([rng.choice(["next", "finish"]), n + rng.randint(0, 1)])     # no such reader
    if rng.random() < 0.8:                 # drain what is still open, in a random order (some stay abandoned)
        order = list(range(n))
        rng.shuffle(order)
        for i in order:
            if rng.random() < 0.8:
                ops.append(["finish", i])
    if rng.random() < 0.5:
        ops.append(["astext"])
    return ops


ORACLE_CODECS = ["utf-16", "utf-32", "utf-8-sig", "UTF-16", "utf_32", "utf-16-le", "utf-16-be", "utf-32-be", "cp1252",
                 "utf-7"]


def oracle_of(data, codec):
    try:
        return {"ok": [ord(ch) for ch in bytes(data).decode(codec)]}
    except UnicodeDecodeError:
        return {"raised": "UnicodeDecodeError"}



EQ_CTS = [["text", "plain", []], ["text", "plain", [["charset", "utf8"]]], ["text", "plain", [["charset", "utf-8"]]],
          ["text", "html", [["charset", "utf8"]]], ["application", "plain", [["charset", "utf8"]]],
          ["text", "plain", [["charset", "utf8"], ["language", "python"]]],
          ["text", "plain", [["language", "python"], ["charset", "utf8"]]],
          ["text", "plain", [["language", "python"]]], ["text", "plain", [["language", "utf8"]]],
          ["text", "plain", [["charset", "utf8"], ["language", "c"]]], ["application", "octet-stream", []],
          ["text", "plain", [["charset", ""]]], ["text", "plain", [["a", "1"], ["b", "2"], ["c", "3"]]],
          ["text", "plain", [["c", "3"], ["a", "1"], ["b", "2"]]], ["text", "plain", [["a", "1"], ["b", "2"], ["c", "4"]]],
          ["text", "plain", [["a", "1"], ["b", "2"], ["d", "3"]]]]


def generate(rng, tier):
    quick = tier == "quick"
    cases = []
    # ---- text_content ----
    fixed_texts = [[], [0], [0x41, 0, 0x42], [0xE9], [0x65, 0x301], [0x1F600], [0x10FFFF], [0xD7FF, 0xE000], [0xFFFF, 0x10000],
                   [0x7F, 0x80, 0x7FF, 0x800], [0x1F468, 0x200D, 0x1F469, 0x200D, 0x1F467], [0xFEFF, 0x61]]
    cases += [{"k": "text", "s": s} for s in fixed_texts]
    cases += [{"k": "text", "s": [c]} for c in BOUNDARY_CPS]
    for _ in range(250 if quick else 4000):
        cases.append({"k": "text", "s": rand_text(rng, 10)})
    # ---- json_content ----
    for d in [None, [], {}, "", "é\U0001F600\x00", {"a": [1, 2.5, None, True], "日": "本"}, [[[]]], -0.0]:
        cases.append({"k": "json", "data": d, "dumped": [ord(c) for c in json.dumps(d)]})
    for _ in range(100 if quick else 1500):
        d = rand_json(rng)
        cases.append({"k": "json", "data": d, "dumped": [ord(c) for c in json.dumps(d)]})
    # ---- explicit chunk lists ----
    fixed_chunks = [
        (["text", "plain", [["charset", "utf8"]]], [[0xE2, 0x82], [0xAC]]),            # cut inside a 3-byte sequence
        (["text", "plain", [["charset", "utf8"]]], [[0xF0], [0x9F], [], [0x98], [0x80]]),
        (["text", "plain", [["charset", "utf8"]]], [[0xE2, 0x82]]),                    # truncated tail: the flush must raise
        (["text", "plain", [["charset", "utf8"]]], [[0x41], [0xC3]]),
        (["text", "plain", [["charset", "utf8"]]], []),
        (["text", "plain", [["charset", "utf8"]]], [[], []]),
        (["text", "plain", []], [[0xE2, 0x82], [0xAC]]),                               # no charset: ISO-8859-1
        (["text", "plain", [["charset", "latin-1"]]], [[0xFF, 0x00], [0x80]]),
        (["application", "octet-stream", []], [[1, 2], [3]]),                          # as_text raises ValueError
        (["text", "x-traceback", [["language", "python"], ["charset", "utf8"]]], [[0x68, 0xC3], [0xA9]]),
        (["text", "plain", [["charset", "utf8"]]], [[0xED, 0xA0], [0x80]]),            # surrogate
        (["text", "plain", [["charset", "utf8"]]], [[0xC0], [0x80]]),                  # overlong
        (["text", "plain", [["charset", "utf8"]]], [[0xF4, 0x90], [0x80, 0x80]]),      # > U+10FFFF
    ]
    cases += [{"k": "chunks", "ct": ct, "chunks": cs} for ct, cs in fixed_chunks]
    for _ in range(500 if quick else 8000):
        data = rand_bytes(rng, 10)
        cases.append({"k": "chunks", "ct": rand_text_ct(rng), "chunks": rand_chunking(rng, data)})
    # ---- every split of a byte string ----
    maxn = 8 if quick else 12
    units = [enc(c) for c in [0x41, 0, 0x7F, 0x80, 0xE9, 0x7FF, 0x800, 0x20AC, 0xD7FF, 0xE000, 0xFFFF, 0x10000, 0x1F600,
                              0x10FFFF, 0x301]]
    sp = []
    pool = units + INVALID_UNITS
    for a in pool:                                   # bounded-exhaustive core: all pairs of units that fit
        for b in [[]] + pool:
            d = a + b
            if len(d) <= maxn:
                sp.append(d)
    sp.append([])
    seen = set()
    core = []
    for d in sp:
        if tuple(d) not in seen:
            seen.add(tuple(d))
            core.append(d)
    want_core = 220 if quick else 900
    if len(core) > want_core:
        keep = core[:len(pool) + 1]
        rest = core[len(pool) + 1:]
        rng.shuffle(rest)
        core = keep + rest[:want_core - len(keep)]
    for d in core:
        cases.append({"k": "splits", "charset": "utf8", "data": d})
    for d in core[::6]:
        cases.append({"k": "splits", "charset": rng.choice([None, "latin-1", "ISO-8859-1"]), "data": d})
    for _ in range(120 if quick else 700):
        n = rng.choice([3, 5, 6, 7, 8]) if quick else rng.choice([6, 8, 9, 10, 10, 11, 12, 12])
        d = rand_bytes(rng, n)
        cs = rng.choice(["utf8", "utf8", "utf-8", "UTF-8", None, "latin1"])
        cases.append({"k": "splits", "charset": cs, "data": d})
    # ---- content_from_stream / content_from_file ----
    for kind in ("bytesio", "file"):                 # lengths around multiples of chunk_size, no seek, both buffer_now values
        for chunk in (1, 2, 3, 4):
            for n in sorted(set([0, 1, chunk - 1, chunk, chunk + 1, 2 * chunk - 1, 2 * chunk, 2 * chunk + 1, 3 * chunk])):
                for buffer in (False, True):
                    cases.append(mk_reader(kind, list(range(1, n + 1)), 0, None, chunk, buffer,
                                           list(range(101, 101 + max(0, n - 1))), 0))
    for kind in ("bytesio", "file"):                 # every offset class, both origins
        for chunk, n in ((2, 5), (3, 6), (4, 0)):
            for seek in seek_choices(n, chunk):
                for buffer in (False, True):
                    cases.append(mk_reader(kind, list(range(1, n + 1)), 1, seek, chunk, buffer, list(range(101, 101 + n + 1)), 2))
    for _ in range(900 if quick else 12000):
        cases.append(rand_reader(rng))
    # ---- streams with short reads that are not end of file: every oracle of up to 3 (quick) / 4 sizes ----
    for chunk in (2, 3):
        seqs = [[]]
        for ln in range(1, (3 if quick else 4) + 1):
            seqs += [list(t) for t in itertools.product(range(1, chunk + 1), repeat=ln)]
        for n in range(0, 6 if quick else 8):
            for i, sizes in enumerate(seqs):
                if not sizes:
                    continue
                data = list(range(1, n + 1))
                cases.append(mk_reader("file" if i % 4 == 3 else "bytesio", data, 0, None, chunk, (i + n) % 2 == 0,
                                       [x + 100 for x in data] + [7], 0, sizes, ("raw", "pipe", "plain")[i % 3]))
    for fl in ("plain", "raw", "pipe"):        # the classic: a short first read, the rest follows
        for buffer in (False, True):
            cases.append(mk_reader("bytesio", list(range(1, 18)), 0, None, 16, buffer, list(range(50, 70)), 0, [8, 3], fl))
            cases.append(mk_reader("bytesio", list(range(1, 12)), 2, None, 4, buffer, list(range(50, 61)), 1, [1, 1, 1], fl))
            cases.append(mk_reader("bytesio", list(range(1, 12)), 0, [3, 0], 4, buffer, list(range(50, 61)), 0, [2, 4, 1], fl))
    # ---- histories of reads on ONE content object ----
    u8 = ["text", "plain", [["charset", "utf8"]]]
    hist_contents = [(u8, [[0xE2, 0x82], [0xAC]]), (u8, [[0x41, 0xF0, 0x9F], [0x98, 0x80, 0x42]]),
                     (u8, [[0xC3], [0xA9], [0xE2], [0x82, 0xAC]])]
    if not quick:
        hist_contents += [(u8, [[0xE2, 0x82]]), (["text", "plain", []], [[0xE2, 0x82], [0xAC]]), (u8, [[0xC3], [0x41]])]
    seqs = hist_sequences(4 if quick else 5)
    for ct, chunks in hist_contents:
        for ops in seqs:
            cases.append({"k": "hist", "ct": ct, "chunks": chunks, "oracle": None, "ops": ops})
    fixed_hist = [
        (u8, [[0xE2, 0x82], [0xAC]], [["new"], ["next", 0], ["astext"]]),                    # abandoned inside a sequence
        (u8, [[0xE2, 0x82], [0xAC]], [["new"], ["new"], ["next", 0], ["next", 1], ["finish", 0], ["finish", 1]]),
        (u8, [[0xE2, 0x82], [0xAC]], [["astext"], ["astext"]]),
        (u8, [[0xE2, 0x82]], [["astext"], ["astext"], ["new"], ["finish", 0]]),              # a read that fails, then again
        (["application", "octet-stream", []], [[1], [2]], [["new"], ["astext"], ["finish", 0]]),
        (["text", "plain", [["charset", "no-such-codec"]]], [[1], [2]], [["new"], ["next", 0], ["finish", 0], ["astext"]]),
        (u8, [], [["new"], ["finish", 0], ["finish", 0], ["astext"]]),
    ]
    for ct, chunks, ops in fixed_hist:
        cases.append({"k": "hist", "ct": ct, "chunks": chunks, "oracle": None, "ops": ops})
    for _ in range(500 if quick else 6000):
        data = rand_bytes(rng, 10)
        ct = rand_text_ct(rng)
        chunks = rand_chunking(rng, data)
        cases.append({"k": "hist", "ct": ct, "chunks": chunks, "oracle": None, "ops": rand_hist_ops(rng, len(chunks))})
    # sampled extension: codecs Python knows and the model does not (BOM-detecting, BOM-stripping, stateful), on
    # data a str.encode() of that codec produced; the whole-string decode is Python's answer carried by the case
    for _ in range(250 if quick else 3000):
        codec = rng.choice(ORACLE_CODECS)
        text = "".join(chr(x) for x in rand_text(rng, 5) if codec != "cp1252" or x < 0x80)
        data = list(text.encode(codec))
        chunks = rand_chunking(rng, data)
        ops = rand_hist_ops(rng, len(chunks)) if rng.random() < 0.7 else [["astext"], ["astext"], ["new"], ["finish", 0]]
        cases.append({"k": "hist", "ct": ["text", "plain", [["charset", codec]]], "chunks": chunks,
                      "oracle": oracle_of(data, codec), "ops": ops})
    # ---- snapshots ----
    for _ in range(350 if quick else 4000):
        c = rand_reader(rng)
        c["k"] = "snap"
        del c["buffer"]
        c["via"] = rng.choice(["copy", "gather"])
        cases.append(c)
    # ---- snapshots of details served from in-memory lists ----
    fixed_sl = [("same", [[1, 2], [3]], [["clear"]]), ("same", [[1]], [["append", [2]]]), ("same", [[1], [2]], [["replace", 0, [9]]]),
                ("gen", [[1, 2], [3]], [["clear"]]), ("fresh", [[1, 2], [3]], [["clear"]]), ("tuple", [[1, 2], [3]], [["clear"]]),
                ("same", [], [["append", [5]]]), ("same", [[]], [["clear"], ["append", [7]]])]
    for src, buf, ops in fixed_sl:
        for via in ("copy", "gather", "fixture"):
            cases.append({"k": "snaplist", "src": src, "buf": buf, "ops": ops, "via": via})
        for buffer in (False, True):
            cases.append({"k": "readerlist", "src": src, "buf": buf, "ops": ops, "buffer": buffer})
    for _ in range(300 if quick else 4000):
        buf = [[rng.randint(0, 255) for _ in range(rng.choice([0, 1, 1, 2, 3]))] for _ in range(rng.choice([0, 1, 2, 2, 3, 4]))]
        n = len(buf)
        ops = []
        for _ in range(rng.choice([1, 1, 2, 3])):
            r = rng.random()
            if r < 0.4:
                ops.append(["append", [rng.randint(0, 255) for _ in range(rng.choice([0, 1, 2]))]])
                n += 1
            elif r < 0.65 or n == 0:
                ops.append(["clear"])
                n = 0
            else:
                ops.append(["replace", rng.randrange(n), [rng.randint(0, 255) for _ in range(rng.choice([0, 1, 2]))]])
        if rng.random() < 0.3:
            cases.append({"k": "readerlist", "src": rng.choice(["gen", "same", "same", "fresh", "tuple"]), "buf": buf,
                          "ops": ops, "buffer": rng.random() < 0.6})
        else:
            cases.append({"k": "snaplist", "src": rng.choice(["gen", "same", "same", "fresh", "tuple"]), "buf": buf,
                          "ops": ops, "via": rng.choice(["copy", "gather", "fixture"])})
    # ---- __eq__ ----
    chunkings = [[], [[]], [[1, 2, 3]], [[1], [2, 3]], [[1, 2], [], [3]], [[1, 2]], [[1, 2, 4]], [[1, 2, 3, 0]], [[0]], [[3, 2, 1]]]
    for ta, tb in itertools.product(range(len(EQ_CTS)), repeat=2):
        if quick and (ta * 7 + tb) % 3:
            continue
        ca, cb = rng.choice(chunkings), rng.choice(chunkings)
        if rng.random() < 0.5:
            data = rand_bytes(rng, 6)
            ca, cb = rand_chunking(rng, data), rand_chunking(rng, data)
        cases.append({"k": "eq", "ta": EQ_CTS[ta], "ca": ca, "tb": EQ_CTS[tb], "cb": cb})
    for ca, cb in itertools.product(chunkings, repeat=2):
        cases.append({"k": "eq", "ta": EQ_CTS[1], "ca": ca, "tb": EQ_CTS[1], "cb": cb})
    for _ in range(150 if quick else 3000):
        ta = rng.choice(EQ_CTS)
        tb = rng.choice([ta, ta, rng.choice(EQ_CTS)])
        data = rand_bytes(rng, 8)
        d2 = data if rng.random() < 0.6 else rand_bytes(rng, 8)
        cases.append({"k": "eq", "ta": ta, "ca": rand_chunking(rng, data), "tb": tb, "cb": rand_chunking(rng, d2)})
    # ---- MIME round trip ----
    fixed_mime = [
        ["text", "plain", []], ["text", "plain", [["charset", "utf8"]]], ["application", "json", []],
        ["text", "x-traceback", [["language", "python"], ["charset", "utf8"]]],
        ["text", "plain", [["a", "b\\c"]]],                    # F16 witness
        ["text", "plain", [["a", "b\\\\c"]]], ["text", "plain", [["a", "b\\ c"]]], ["text", "plain", [["A", "b"]]],
        ["text", "plain", [["A", "1"], ["a", "2"]]], ["text", "plain", [["a", "2"], ["A", "1"]]],
        ["text", "plain", [["charset", "a,b"]]], ["text", "plain", [["Charset", "a,b"]]], ["text", "plain", [["charset", ","]]],
        ["text", "plain", [["b", "a,b"]]], ["text", "plain", [["a", ""]]], ["text", "plain", [["a", "x;y=z"]]],
        ["text", "plain", [["a", "b  c"]]], ["text", "plain", [["a", "\tb\t"]]], ["text", "plain", [["a", "=x?="]]],
        ["*", "*", []], ["a!#$&^_`{|}~+-.", "b", [["c!#$&^_`{|}~+-.", "x"]]], ["text", "plain", [["a", "é\U0001F600"]]],
        ["text", "plain", [["b", "1"], ["a", "2"], ["ab", "0"], ["a-", "3"]]],
    ]
    for ct in fixed_mime:
        assert mime_dom(ct), ct
        cases.append({"k": "mime", "ct": ct})
    n_m = 900 if quick else 12000
    for i in range(n_m):
        fl = rng.choice(["wf", "wf", "wf", "upper", "backslash", "comma", "collide"])
        ct = rand_mime(rng, fl)
        if mime_dom(ct):
            cases.append({"k": "mime", "ct": ct})
    return cases


# ---------------------------------------------------------------------------
# evidence helpers
# ---------------------------------------------------------------------------
def nontrivial(case):
    k = case["k"]
    if k == "text":
        return any(c >= 128 or c == 0 for c in case["s"])
    if k == "json":
        return isinstance(case["data"], (list, dict, str)) and len(case["data"]) > 0
    if k == "chunks":
        return len(case["chunks"]) >= 2
    if k == "splits":
        return len(case["data"]) >= 2
    if k in ("reader", "snap"):
        return len(case["data0"]) + len(case["data1"]) >= 1
    if k in ("snaplist", "readerlist"):
        return len(case["buf"]) >= 1
    if k == "eq":
        return len(case["ca"]) + len(case["cb"]) >= 1
    if k == "mime":
        return len(case["ct"][2]) >= 1
    if k == "hist":
        return len(case["chunks"]) >= 2 and len(case["ops"]) >= 2
    return False


def _shorter(l):
    for i in range(len(l)):
        yield l[:i] + l[i + 1:]


def shrink(case):
    k = case["k"]
    c = dict(case)
    if k == "text":
        for s in _shorter(case["s"]):
            yield dict(c, s=s)
    elif k == "chunks":
        for s in _shorter(case["chunks"]):
            yield dict(c, chunks=s)
        for i, ch in enumerate(case["chunks"]):
            for s in _shorter(ch):
                yield dict(c, chunks=case["chunks"][:i] + [s] + case["chunks"][i + 1:])
        for i in range(len(case["chunks"]) - 1):
            yield dict(c, chunks=case["chunks"][:i] + [case["chunks"][i] + case["chunks"][i + 1]] + case["chunks"][i + 2:])
    elif k == "splits":
        for s in _shorter(case["data"]):
            yield dict(c, data=s)
    elif k in ("reader", "snap"):
        for f in ("data0", "data1"):
            if len(case[f]) > 3:
                yield dict(c, **{f: case[f][:len(case[f]) // 2]})
            if case[f]:
                yield dict(c, **{f: case[f][:-1]})
        if case["chunk"] > 2:
            yield dict(c, chunk=2)
        for f in ("pos0", "pos1"):
            if case[f]:
                yield dict(c, **{f: 0})
        if case["seek"] is not None:
            yield dict(c, seek=None)
            if case["seek"][0]:
                yield dict(c, seek=[case["seek"][0] - (1 if case["seek"][0] > 0 else -1), case["seek"][1]])
        if case["chunk"] > 1:
            yield dict(c, chunk=case["chunk"] - 1)
        if case.get("sizes"):
            for s_ in _shorter(case["sizes"]):
                yield dict(c, sizes=s_)
        if case.get("flavour", "plain") != "plain":
            yield dict(c, flavour="plain")
    elif k == "hist":
        for o in _shorter(case["ops"]):
            yield dict(c, ops=o)
        if case.get("oracle") is None:
            for i in range(len(case["chunks"]) - 1):
                yield dict(c, chunks=case["chunks"][:i] + [case["chunks"][i] + case["chunks"][i + 1]] + case["chunks"][i + 2:])
    elif k in ("snaplist", "readerlist"):
        for o in _shorter(case["ops"]):
            if all(op[0] != "replace" for op in o):
                yield dict(c, ops=o)
        if all(op[0] != "replace" for op in case["ops"]):
            for b in _shorter(case["buf"]):
                yield dict(c, buf=b)
        if case.get("via", "copy") != "copy":
            yield dict(c, via="copy")
    elif k == "eq":
        for f in ("ca", "cb"):
            for s in _shorter(case[f]):
                yield dict(c, **{f: s})
        for f in ("ta", "tb"):
            for s in _shorter(case[f][2]):
                yield dict(c, **{f: [case[f][0], case[f][1], s]})
    elif k == "mime":
        ct = case["ct"]
        for s in _shorter(ct[2]):
            yield dict(c, ct=[ct[0], ct[1], s])
        for i, (kk, v) in enumerate(ct[2]):
            for s in _shorter(list(v)):
                n = [ct[0], ct[1], ct[2][:i] + [[kk, "".join(s)]] + ct[2][i + 1:]]
                if mime_dom(n):
                    yield dict(c, ct=n)
        for t in (["text", ct[1], ct[2]], [ct[0], "plain", ct[2]]):
            if t != ct:
                yield dict(c, ct=t)


def distribution(cases):
    d = {"kind": {}, "splits_len": {}, "reader": {"bytesio": 0, "file": 0, "buffer_now": 0, "seek_set": 0, "seek_end": 0,
                                                   "no_seek": 0, "len_multiple_of_chunk": 0, "start_past_eof": 0},
         "mime": {"wf_ct": 0, "F16": 0}, "chunks_invalid_utf8": 0, "text_astral": 0}
    for c in cases:
        k = c["k"]
        d["kind"][k] = d["kind"].get(k, 0) + 1
        if k == "splits":
            n = len(c["data"])
            d["splits_len"][n] = d["splits_len"].get(n, 0) + 1
        elif k in ("reader", "snap"):
            r = d["reader"]
            r[c["kind"]] += 1
            r["buffer_now"] += bool(c.get("buffer"))
            r["no_seek" if c["seek"] is None else ("seek_set" if c["seek"][1] == 0 else "seek_end")] += 1
            r["len_multiple_of_chunk"] += len(c["data0"]) % c["chunk"] == 0
            if c.get("sizes"):
                r["short_reads"] = r.get("short_reads", 0) + 1
                fk = "short_reads:" + (c["kind"] if c["kind"] == "file" else c.get("flavour", "plain"))
                r[fk] = r.get(fk, 0) + 1
            if c["seek"] is not None and c["seek"][1] == 0 and c["seek"][0] > len(c["data1"]):
                r["start_past_eof"] += 1
        elif k in ("snaplist", "readerlist"):
            sl = d.setdefault(k, {})
            for key in ("src:" + c["src"], "via:" + c["via"] if k == "snaplist" else "buffer_now:%s" % c["buffer"]):
                sl[key] = sl.get(key, 0) + 1
        elif k == "hist":
            h = d.setdefault("hist", {"oracle_codec": 0, "two_or_more_readers": 0, "abandoned_reader": 0, "ops": 0})
            h["oracle_codec"] += c.get("oracle") is not None
            news = sum(1 for op in c["ops"] if op[0] == "new")
            h["two_or_more_readers"] += news >= 2
            h["abandoned_reader"] += news > len(set(op[1] for op in c["ops"] if op[0] == "finish"))
            h["ops"] += len(c["ops"])
        elif k == "mime":
            d["mime"]["wf_ct" if wf_ct(c["ct"]) else "F16"] += 1
        elif k == "chunks":
            try:
                bytes(b for ch in c["chunks"] for b in ch).decode("utf8")
            except UnicodeDecodeError:
                d["chunks_invalid_utf8"] += 1
        elif k == "text":
            d["text_astral"] += any(x >= 0x10000 for x in c["s"])
    return d


# ---------------------------------------------------------------------------
# information only: F16 probes outside the modelled domain (never fail the check)
# ---------------------------------------------------------------------------
OUT_OF_DOMAIN_PROBES = [
    ["text", "plain", [["a", "=?utf-8?q?x?="]]],        # RFC 2047 look-alike
    ["text", "plain", [["a*", "x"]]],                   # RFC 2231 look-alikes
    ["text", "plain", [["a*0", "x"]]],
    ["text", "plain", [["a*", "utf-8''x"]]],
    ["text", "plain", [["a", "b\\"]]],                  # backslash escapes the closing quote
    ["text", "plain", [["a b", "x"]]],
    ["text", "plain", [["a;b", "x"]]],
]


def extra_checks(tier, rng):
    from testtools.testresult.real import _make_content_type
    out = []
    for j in OUT_OF_DOMAIN_PROBES:
        ct = _ct(j)
        try:
            ct2 = _make_content_type(repr(ct))
            got = _ct_obs(ct2)
            survives = bool(ct2 == ct)
        except Exception as e:      # noqa
            got, survives = type(e).__name__, False
        out.append({"ok": True, "information_only": "F16 probe outside mime_dom (not modelled, never counted)",
                    "content_type": j, "rendered": repr(ct), "parsed": got, "survives": survives})
    return out
