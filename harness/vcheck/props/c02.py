"""C02 - stages in order; every cleanup exactly once, LIFO; state restored; re-run repeats (runtest.py,
testcase.py, monkey.py)."""
from .. import coqio as q
from . import runprog as R

PROP = "C02"
CORR = "Corr.C02"
REQUIRES = ["Gen.Handlers", "Model.Run", "Spec.Run", "Spec.C02"]
PROOF_FILES = ["Proof/RunCore.v", "Proof/RunExtra.v", "Proof/C02.v"]
MANIFEST = {
    "text": "Coq theorems over all finite test programs (cleanups registered in setUp, test, tearDown and inside "
            "other cleanups to any depth, patch() of attributes of an instance, its class and the base class - held "
            "by the target, inherited, missing, served by a property or an inherited slot -, useFixture with failing "
            "setUp/cleanUp, any exception incl. KeyboardInterrupt/SystemExit in any body) about a hand-written Gallina "
            "model of RunTest._run_core/_run_cleanups, TestCase._reset/patch/useFixture and MonkeyPatcher: the "
            "execution log is setUp, (test, tearDown iff setUp returned), then the stack discipline of DESIGN A.1; "
            "every registered cleanup runs exactly once; no cleanup is left; the namespace of every patched object "
            "is what it was (no value changed, no shadow of an inherited value left behind); a second run() of the "
            "instance repeats log and outcome. Proved by induction on the fuel of the literal "
            "pop-run-repeat machine with the pending stack in the invariant. Tied to /repo on every run by "
            "differential execution of model and implementation inside coqc; the oracle is the executable statement "
            "spec_okb, proved to imply the readable Spec.",
    "note": "Trusted: Coq kernel + vm_compute; the harness (generator, driver building real TestCase subclasses, a "
            "scratch object that logs setattr/delattr, real fixtures.Fixture subclasses, Gallina printer). "
            "fixtures.Fixture setUp/cleanUp behaviour is modelled and validated by correspondence, not verified. "
            "Attributes are changed only through patch(). All theorems closed under the global context.",
    "technique": "Coq proof (induction on fuel over a stack machine, nested structural recursion over the program "
                 "tree for the specification) + model/implementation correspondence in coqc",
    "ref": "6 C02",
}
RULE = ("programs as in C01 with cleanups registered in setUp (before/after the upcall), test, tearDown and inside "
        "cleanups (depth <= 3), patches of existing (values incl. None) and missing attributes of a scratch object, fixtures (new and old "
        "style, failing set-up, failing cleanups), each run twice on one instance; exhaustive: every assignment of 10 "
        "behaviours to setUp/test/tearDown/cleanup over 4 registration sites; non-trivial = a nested cleanup, or a "
        "patch/fixture together with a raising statement, or at least 2 raising statements; distinct = distinct JSON; patch "
        "targets: attributes of an instance, of its class and of the base class (own, inherited, missing), attributes of the "
        "instance served by a property or an inherited slot, each present/absent before, alone, twice, and in pairs that share "
        "a name along the lookup chain; plus fixtures one of whose details cannot be evaluated when it is gathered (set-up ok / failing old and new style), @unittest.expectedFailure tests ending in every behaviour, force_failure set on the failed-setUp path, and - sampled outside the Coq model - an addOnException handler that raises while the exception of the test method / tearDown is processed, and a fixture that is set up but whose getDetails() raises when useFixture() asks for it (observed as the fixture followed by a raising statement)")
TRUSTED = ["fixtures.Fixture setUp/cleanUp (fixtures 4.3.2) is modelled, not verified",
           "the __setattr__/__delattr__ log of the patched instance and of the metaclass of its classes is the observation "
           "device for patch undo actions; vars() of each patched object (getattr for property / slot attributes) "
           "before/after is the attribute observation"]
ASSUMPTIONS = ["configured RunTest factories: the Gallina input has no configuration; 300 (quick) / 8000 (thorough) cases run "
               "on a test case with a factory of its own (run_tests_with / runTest= / "
               "@run_test_with x subclasses, functions, partial, callable objects, factories of the API before last_resort) and are judged as the same program under "
               "the default RunTest (C02_factory_irrelevant)",
               "the result object does not raise; addOnException handlers do not raise (theorems); sampled beyond "
               "that: a handler raising while the exception of the test method or tearDown is processed",
               "patched attributes are changed only through patch(); patch targets are the 15 keys of Model.Run.universe; "
               "properties have setter and deleter; class-level targets are ordinary class attributes (patching a class "
               "attribute that is itself a descriptor - staticmethod, property object - is not generated)",

               "fixtures raise single exceptions; new-style _setUp and fixture cleanups raise Exception-derived ones"]
EXPLANATION = ("Theorems in coq/Props/C02.v over all programs; correspondence: two run() calls on one generated "
               "testtools.TestCase instance, compared with coq/Model/Run.v on the execution log, len(_cleanups), "
               "the namespaces of the patched objects and on whether the second run repeats the outcome of the first.")

FEATS = frozenset(["patch", "fixture", "details", "onexc", "badfx"])


def _num(v):
    """attribute values as numbers: 0 stands for None (patch() never writes 0 in generated programs)"""
    return 0 if v is None else v


def drive(case):
    # attrs: the namespaces of the patch targets before the test, key -> value (runprog: patch keys)
    attrs0 = [[a, None if v == 0 else v] for a, v in case["attrs"]]
    rs = R.run_program(case["prog"], "FExtended", attrs0=attrs0, runs=2, runner=case.get("runner"))
    return [{"log": [[e[0], e[1], _num(e[2])] if e[0] == "set" else e for e in o["log"]], "left": o["leftover"],
             "attrs": [[a, _num(v)] for a, v in o["attrs"]],
             "outs": [e[1] for e in o["trace"] if e[0] == "out"]} for o in rs]


def t_run(o):
    return q.record([("r_log", q.lst([R.t_lev(e) for e in o["log"]])), ("r_left", q.nat(o["left"])),
                     ("r_attrs", R.t_attrs(o["attrs"])), ("r_outs", q.lst([R.COQ_OUT[k] for k in o["outs"]]))])


def _without_raising_handlers(p):
    """The Coq input of a program with "onexcraise" statements: the statements are left out.  The model and
    C02_holds do not cover handlers that raise; the statement's own reading of the program (expected_log: which
    bodies and undo actions run, in which order) does not depend on them, and Corr.C02.alpha does not look at the
    outcome or at what run() lets out, so model and unchanged implementation still agree on these cases."""
    def go(acts):
        out = []
        for a in acts:
            if a[0] == "onexcraise":
                continue
            if a[0] == "cleanup":
                out.append(["cleanup", a[1], go(a[2])])
            elif a[0] == "fixture" and a[1].get("gdraise") is not None:
                # second sampled extension: useFixture() of a fixture whose setUp succeeds and whose getDetails() then
                # raises.  For what C02 observes (which bodies and undo actions run, in which order, what is left)
                # this is the same fixture followed by a statement raising that exception: the fixture is set up,
                # so its undo must be registered whatever fails afterwards.
                out.append(["fixture", {k: v for k, v in a[1].items() if k != "gdraise"}])
                out.append(["raise", a[1]["gdraise"]])
            else:
                out.append(a)
        return out
    p = dict(p)
    for k in ("setup", "body", "teardown"):
        p[k] = dict(p[k], acts=go(p[k]["acts"]))
    return p


def with_raising_handler(p, where):
    """setUp first registers a handler that raises when an exception of class MARKER is processed; the test
    method and/or tearDown end by raising MARKER (only there: a handler raising while setUp's or a cleanup's
    exception is processed leaves cleanups unrun on the unchanged code - outside this sampled extension)."""
    p = dict(p)
    p["setup"] = dict(p["setup"], acts=[["onexcraise", R.MARKER]] + p["setup"]["acts"])
    for k in where:
        p[k] = dict(p[k], acts=p[k]["acts"] + [["raise", R.E(R.MARKER)]])
    return p


def term(case, o):
    i = q.record([("i_prog", R.t_prog(_without_raising_handlers(case["prog"]))), ("i_attrs", R.t_attrs(case["attrs"]))])
    return q.pair(i, q.record([("o_first", t_run(o[0])), ("o_second", t_run(o[1]))]))


def perturb(case, o):
    o = [dict(o[0]), o[1]]
    o[0]["log"] = list(reversed(o[0]["log"])) + [["t", 77]]
    return o


def nontrivial(case):
    p = case["prog"]
    import json
    s = json.dumps(p)
    n = len(R.raising_acts(p))
    return (max(R.depth(a) for a in R.stages(p)) >= 2 or n >= 2 or (n >= 1 and ('"patch"' in s or '"fixture"' in s)))


SITES = ["setup-first", "setup-last", "body", "teardown", "nested"]


def site_program(site, combo):
    """behaviours combo = (setUp, test, tearDown, cleanup); the cleanup registered at `site`"""
    cl = ["cleanup", 10, list(R.ALLB[combo[3]])]
    s, b, t = list(R.ALLB[combo[0]]), list(R.ALLB[combo[1]]), list(R.ALLB[combo[2]])
    up = "first"
    if site == "setup-first":
        s = [cl] + s
        up = "last"
    elif site == "setup-last":
        s = [cl] + s
    elif site == "body":
        b = [["patch", 0, 7], cl] + b
    elif site == "teardown":
        t = [cl, ["patch", 1, 7]] + t
    else:
        s = [["cleanup", 11, [["patch", 0, 8], cl]]] + s
    return R.mkprog(setup=s, body=b, teardown=t, up_s=up, handlers=[(R.CUSTOM, "skip")])


def rand_attrs(rng):
    # value 0 = the attribute exists and is None
    return R.rand_attrs(rng)


def _glue_attrs(rng):
    return [[a, rng.randint(0, 3)] for a in (0, 1, 2) if rng.random() < 0.5]


def target_programs():
    """patch() of every kind of target - an attribute the instance holds itself, one it inherits from its class or
    from the base class, a class attribute, an inherited class attribute patched on the subclass, a missing one, an
    attribute served by a property, by an inherited slot (set / unset) - present or absent before, patched in setUp /
    the test / a cleanup, once or twice, the test returning / failing / interrupted; and two targets that share a
    name along the lookup chain, in both orders (base class first, then the inheriting class: the input of F25)"""
    E = R.E
    ends = [[], [["raise", E("Fail")]], [["raise", E("Kbd")]]]
    singles = [(0, []), (0, [[0, 2]]), (0, [[0, 0]]), (3, [[4, 2]]), (3, [[5, 2]]), (3, [[3, 1], [4, 2]]), (6, [[7, 0]]),
               (1, []), (1, [[1, 2]]), (1, [[2, 3]]), (1, [[0, 1], [2, 3]]), (2, []), (2, [[2, 2]]), (2, [[0, 1]]),
               (30, [[30, 1]]), (30, [[30, 0]]), (30, []), (31, [[31, 2], [30, 1]]),
               (33, [[33, 1]]), (33, []), (34, [[34, 0]])]
    k = 0
    for key, attrs in singles:
        for end in ends:
            k += 1
            site = k % 3
            acts = [["patch", key, 5]] + ([["patch", key, 6]] if k % 2 else [])
            if site == 0:
                p = R.mkprog(setup=acts, body=end)
            elif site == 1:
                p = R.mkprog(body=acts + end)
            else:
                p = R.mkprog(setup=[["cleanup", 10, acts + [["cleanup", 11, [["patch", key, 7]]]]]], body=end)
            yield p, attrs, (key, len(attrs), site)
    pairs = [(2, 1), (1, 2), (2, 0), (0, 2), (1, 0), (0, 1), (5, 3), (3, 5), (8, 7), (7, 8), (30, 0), (33, 30)]
    for a, b in pairs:
        for attrs in ([], [[max(a, b), 1]], [[a, 1], [b, 2]], [[min(a, b), 1]]):
            for end in ends[:2]:
                yield R.mkprog(body=[["patch", a, 5], ["patch", b, 6]] + end), attrs, ("pair", a, b)
            yield R.mkprog(setup=[["patch", a, 5]], body=[["cleanup", 10, [["patch", b, 6]]]],
                           teardown=[["patch", b, 7]]), attrs, ("pair-spread", a, b)


def generate(rng, tier):
    import itertools
    E, M = R.E, R.M
    cases = []
    fixed = [
        R.mkprog(setup=[["patch", 0, 5], ["patch", 0, 6], ["patch", 1, 7]], body=[["raise", E("Kbd")]]),
        R.mkprog(setup=[["cleanup", 10, [["cleanup", 11, [["cleanup", 12, []], ["raise", E("Fail")]]], ["raise", E("SysExit")]]],
                        ["cleanup", 13, []]], teardown=[["raise", E("Skip")]]),
        R.mkprog(body=[["fixture", {"tok": 10, "old": False, "details": [], "cleanups": [[11, E("ValueError")], [12, None],
                                                                                        [13, E("Fail")]], "fail": None}],
                       ["raise", E("Kbd")]]),
        R.mkprog(setup=[["fixture", {"tok": 10, "old": False, "details": [], "cleanups": [[11, None], [12, E("ValueError")]],
                                     "fail": E("ValueError")}]], body=[["cleanup", 14, []]]),
        R.mkprog(setup=[["patch", 0, 5]], up_s="none", body=[["cleanup", 10, []]]),
        R.mkprog(body=[["cleanup", 10, [["patch", 0, 1], ["cleanup", 11, [["patch", 0, 2]]]]], ["patch", 0, 3]],
                 teardown=[["raise", M()]]),
        R.mkprog(skip=["method", 1], setup=[["patch", 0, 1]]),
    ]
    for p in fixed:
        cases.append({"prog": p, "attrs": [[0, 1]]})
        cases.append({"prog": p, "attrs": []})
        cases.append({"prog": p, "attrs": [[0, 0], [1, 0]]})
    # every kind of patch target
    for p, attrs, _ in target_programs():
        cases.append({"prog": p, "attrs": attrs})
    # force_failure set in setUp / in a cleanup, setUp ending in every behaviour (fix 889980a): both runs
    for k, (p, _) in enumerate(R.setup_force_programs()):
        cases.append({"prog": p, "attrs": []})
    # fixtures with a detail that cannot be evaluated when it is gathered
    for k, (p, _) in enumerate(R.badfx_programs()):
        cases.append({"prog": p, "attrs": [[0, 1]] if k % 2 else []})
    for k, (p, _) in enumerate(R.xfail_programs()):
        if tier == "thorough" or k % 3 == 0:
            cases.append({"prog": p, "attrs": []})
    # sampled extension (not in the Coq model): an addOnException handler raises while the exception of the test
    # method / tearDown is processed; tearDown and every cleanup still have to run, nothing may be left
    hr = [R.mkprog(setup=[["patch", 0, 5], ["cleanup", 10, []]], body=[["cleanup", 11, [["patch", 1, 6]]]]),
          R.mkprog(setup=[["cleanup", 10, [["raise", E("ValueError")]]]], teardown=[["patch", 0, 5]]),
          fixed[2], fixed[5]]
    for k, p in enumerate(hr):
        for where in (["body"], ["teardown"], ["body", "teardown"]):
            cases.append({"prog": with_raising_handler(p, where), "attrs": [[0, 1]] if k % 2 else []})
    # sampled extension (not in the Coq model): a fixture that is set up but whose getDetails() raises when
    # useFixture() asks for it - from setUp, the test method, tearDown and a cleanup, new and old style, with
    # cleanups of its own that raise; run twice like every case
    fxg = lambda tok, **kw: dict({"tok": tok, "old": False, "details": [], "cleanups": [[tok + 1, None]], "fail": None,  # noqa: E731
                                  "gdraise": E("ValueError", 4)}, **kw)
    for k, p in enumerate([
            R.mkprog(setup=[["fixture", fxg(20)]]),
            R.mkprog(body=[["patch", 0, 5], ["fixture", fxg(20, old=True)], ["patch", 1, 6]]),
            R.mkprog(teardown=[["fixture", fxg(20, cleanups=[[21, E("Fail")], [22, None]])]]),
            R.mkprog(setup=[["cleanup", 10, [["fixture", fxg(20)]]]], body=[["raise", E("Fail", 1)]]),
            R.mkprog(body=[["fixture", fxg(20, gdraise=E("Skip", 1))], ["fixture", fxg(30)]]),
            R.mkprog(body=[["fixture", fxg(20, gdraise=E("Kbd"))]])]):
        cases.append({"prog": R.retoken(p), "attrs": [[0, 1]] if k % 2 else []})
    r4 = __import__("random").Random(rng.random())
    made = 0
    for _ in range(3000 if tier == "quick" else 40000):
        if made >= (250 if tier == "quick" else 4000):
            break
        p = R.rand_prog(r4, feats=FEATS, p_raise=r4.choice([0.0, 0.3, 0.5]))
        fx = [a[1] for a in R.all_acts(p) if a[0] == "fixture" and a[1]["fail"] is None and not a[1].get("bad")]
        if not fx:
            continue
        r4.choice(fx)["gdraise"] = R.E(r4.choice(["ValueError", "Fail", "Skip"]), r4.randint(1, 5))
        cases.append({"prog": p, "attrs": rand_attrs(r4)})
        made += 1
    r3 = __import__("random").Random(rng.random())
    for _ in range(300 if tier == "quick" else 6000):
        p = R.rand_prog(r3, feats=FEATS, p_raise=r3.choice([0.0, 0.3, 0.5]))
        cases.append({"prog": with_raising_handler(p, r3.choice([["body"], ["teardown"], ["body", "teardown"]])),
                      "attrs": rand_attrs(r3)})
    combos = list(itertools.product(list(R.BEHAVIOURS), repeat=4))
    stride = 1 if tier == "thorough" else 16
    off = rng.randrange(stride)
    for k, combo in enumerate(combos):
        if k % stride != off:
            continue
        for site in (SITES if tier == "thorough" else [SITES[(k // stride) % 5], SITES[(k // stride + 2) % 5]]):
            cases.append({"prog": site_program(site, combo), "attrs": [[[0, 1]], [], [[0, 0], [1, 2]]][k % 3]})
    n = 3000 if tier == "quick" else 60000
    for _ in range(n):
        p = R.rand_prog(rng, feats=FEATS if rng.random() < 0.8 else frozenset(["patch"]),
                        p_raise=rng.choice([0.3, 0.5, 0.8]))
        cases.append({"prog": p, "attrs": rand_attrs(rng)})
    # the same programs on cases configured with a RunTest factory of their own (the Gallina input leaves it out)
    cases += R.configured(cases, rng, 300 if tier == "quick" else 8000)
    return cases


GLUE = r"""
import json, sys
from testtools.monkey import MonkeyPatcher
samples = json.loads(sys.argv[1])
out = []
for before, patches, boom in samples:
    class O:
        pass
    o = O()
    for a, v in before:
        setattr(o, "a%d" % a, None if v == 0 else v)
    snap = dict(vars(o))
    mp = MonkeyPatcher(*[(o, "a%d" % a, v) for a, v in patches])
    if boom:
        def f():
            raise ValueError("boom")
        try:
            mp.run_with_patches(f)
        except ValueError:
            pass
    else:
        mp.patch()
        mp.restore()
    out.append(dict(vars(o)) == snap)
print(json.dumps(out))
"""


def extra_checks(tier, rng):
    """MonkeyPatcher used directly with several patches, also of one attribute, existing (incl. None) and
    missing: restore() / run_with_patches leave vars(obj) as before (TestCase.patch makes one MonkeyPatcher
    per call, so its restore order inside one patcher is not visible through the model)."""
    import json
    import os
    import subprocess
    import sys
    n = 40 if tier == "quick" else 400
    samples = [[[[0, 1]], [[0, 5], [0, 6]], False], [[], [[1, 5], [1, 6], [1, 7]], False], [[[2, 0]], [[2, 5], [2, 6]], True]]
    for _ in range(n):
        samples.append([_glue_attrs(rng), [[rng.randint(0, 2), rng.randint(1, 4)] for _ in range(rng.randint(1, 4))],
                        rng.random() < 0.3])
    repo = os.environ.get("VERIF_REPO", "/repo")
    env = dict(os.environ, PYTHONPATH=repo, PYTHONHASHSEED="0", PYTHONDONTWRITEBYTECODE="1")
    p = subprocess.run([sys.executable, "-c", GLUE, json.dumps(samples)], capture_output=True, text=True, env=env, timeout=300)
    try:
        oks = json.loads(p.stdout)
    except ValueError:
        return [{"ok": False, "what": "MonkeyPatcher glue script failed", "stderr": p.stderr[-400:]}]
    return [{"ok": bool(ok), "what": "MonkeyPatcher patch/restore leaves vars(obj) unchanged", "before": s0[0], "patches": s0[1],
             "run_with_patches_raising": s0[2]} for ok, s0 in zip(oks, samples)]


def _shrink(case):
    for p in R.shrink_prog(case["prog"]):
        yield {"prog": p, "attrs": case["attrs"]}
    for i in range(len(case["attrs"])):
        yield {"prog": case["prog"], "attrs": case["attrs"][:i] + case["attrs"][i + 1:]}


def shrink(case):
    return R.shrink_configured(case, _shrink(case))


def distribution(cases):
    d = R.prog_distribution([c["prog"] for c in cases])
    d["initial_attrs"] = {}
    for c in cases:
        k = len(c["attrs"])
        d["initial_attrs"][k] = d["initial_attrs"].get(k, 0) + 1
    d["runtest_factory"] = R.runner_distribution(cases)
    return d
