"""Generators for C06: typed exhaustive enumeration of matcher expressions and seeded random
domain-directed expressions.  Everything is JSON (see c06.py for the encoding)."""
import itertools
import json


def I(n):
    return ["i", n]


def T(b):                    # bool
    return ["t", bool(b)]


def F(h):                    # the float h/2
    return ["f", h]


def S(s):
    return ["s", s]


def B(bs):
    return ["b", list(bs)]


NONE = ["n"]


def Z(xs):                   # frozenset of ints: members that < orders only partially
    return ["z", sorted(set(xs))]


def L(xs):
    return ["l", list(xs)]


def D(pairs):
    return ["d", [list(p) for p in pairs]]


def X(c, args):
    return ["x", c, list(args)]


def XI(c, args):            # exception instance: generator-internal, never a matchee by itself
    return ["xi", c, list(args)]


def RET(v):
    return ["ret", v]


def RAISE(c, args):
    return ["raise", c, list(args)]


RECS = [["r", 0, [[0, I(1)], [1, S("ab")]]], ["r", 1, [[0, I(2)], [1, S("a")]]],
        ["r", 2, [[0, I(1)], [1, S("ab")]]], ["r", 3, [[0, I(3)], [1, S("")], [2, L([I(1)])]]],
        ["r", 4, [[0, I(0)], [1, S("")], [2, L([])]]],
        ["r", 5, [[0, T(False)], [1, S("")], [2, D([])], [3, NONE]]],
        ["r", 6, [[0, F(2)], [1, S("ab")], [2, L([L([])])], [3, T(True)]]]]
REC_EMPTY = ["r", 7, []]     # an object without attributes
FALSY = [I(0), S(""), B(b""), NONE, L([]), D([]), T(False), F(0), Z([])]
SETS = [Z([]), Z([1]), Z([1, 2]), Z([3]), Z([2, 3]), Z([0]), Z([1, 2, 3])]
NUMS = [I(0), I(1), T(False), T(True), F(0), F(2), F(1), I(2), I(-1), F(3), F(4)]
SCALAR_KINDS = ("i", "t", "f", "s", "b", "n", "z")
NUM_KINDS = ("i", "t", "f")
USER_EXC = (1, 2, 3, 4, 7)
STRS = ["", "a", "ab", "abc", "b", "c", "abcabc", "f1", "d1", "nope", "d1/g", "d1/../f1", "a\nc", "xé"]
BYTESS = [b"", b"a", b"ab", b"abc", b"\x00\xff"]


def is_plain(v):
    k = v[0]
    if k in SCALAR_KINDS:
        return True
    if k == "l":
        return all(is_plain(x) for x in v[1])
    if k == "d":
        return all(is_plain(x) for _, x in v[1])
    if k == "r":
        return all(is_plain(x) for _, x in v[2])
    return False


def is_scalar(v):
    return v[0] in SCALAR_KINDS


def num2(v):
    """twice the numeric value of an int / bool / float value"""
    return 2 * v[1] if v[0] == "i" else (2 if v[1] else 0) if v[0] == "t" else v[1]


def knorm(k):
    from .c06 import key_norm
    return key_norm(k)


def twin(rng, v):
    """a value == v of another type where one exists (1 / True / 1.0, 0 / False / 0.0), inside containers too"""
    k = v[0]
    if k in NUM_KINDS:
        n = num2(v)
        alts = [F(n)]
        if n % 2 == 0:
            alts.append(I(n // 2))
        if n in (0, 2):
            alts.append(T(n == 2))
        alts = [a for a in alts if a != v]
        return rng.choice(alts) if alts else v
    if k == "l":
        return L([twin(rng, x) if rng.random() < 0.6 else x for x in v[1]])
    if k == "d":
        return D([[twin(rng, kk) if kk[0] in NUM_KINDS and rng.random() < 0.5 else kk,
                   twin(rng, x) if rng.random() < 0.5 else x] for kk, x in v[1]])
    return v


def strings_in(v, out):
    k = v[0]
    if k == "s":
        out.add(v[1])
    elif k == "l":
        for x in v[1]:
            strings_in(x, out)
    elif k == "d":
        for _, x in v[1]:
            strings_in(x, out)
    elif k == "r":
        for _, x in v[2]:
            strings_in(x, out)
    elif k in ("x", "raise", "xi"):
        for x in v[2]:
            strings_in(x, out)
    elif k == "ret":
        strings_in(v[1], out)
    return out


def mk_case(m, v, leafdefs=()):
    from .c06 import leaf_oracle, ensure_scratch
    ensure_scratch()
    pool = sorted(strings_in(v, set()))
    return {"m": m, "v": v, "leafdefs": [list(d) for d in leafdefs],
            "accept": [[s for s in pool if leaf_oracle(d, s)] for d in leafdefs]}


# ---------------------------------------------------------------------------
# typed exhaustive enumeration
# ---------------------------------------------------------------------------
# leaf ids used by the enumeration refer to this fixed table
ENUM_LEAFDEFS = [["regex", "a.c"], ["pathexists"], ["direxists"], ["doctest", "a...c"]]

FAM = {
    "INT": {
        "vals": [I(-1), I(0), I(1), I(2), I(3), I(5)],
        "leaves": [["Equals", I(1)], ["LessThan", I(2)], ["Never"], ["NotEquals", I(2)], ["GreaterThan", I(1)],
                   ["IsInstance", ["int"]], ["Always"], ["Is", NONE], ["Equals", I(0)], ["GreaterThan", I(0)]],
    },
    "STR": {
        "vals": [S(""), S("a"), S("ab"), S("abc"), S("f1"), S("d1"), S("nope")],
        "leaves": [["StartsWith", S("a")], ["Leaf", 0], ["Leaf", 1], ["Equals", S("ab")], ["EndsWith", S("c")],
                   ["Contains", S("b")], ["HasLength", 2], ["Leaf", 2], ["Leaf", 3], ["LessThan", S("b")],
                   ["Equals", S("")], ["StartsWith", S("")], ["Contains", S("")], ["HasLength", 0]],
    },
    "BYTES": {
        "vals": [B(b""), B(b"a"), B(b"ab"), B(b"abc")],
        "leaves": [["StartsWith", B(b"a")], ["Contains", I(98)], ["Contains", B(b"bc")], ["EndsWith", B(b"c")],
                   ["GreaterThan", B(b"a")], ["Equals", B(b"ab")], ["Equals", B(b"")], ["StartsWith", B(b"")],
                   ["Contains", B(b"")], ["Contains", I(0)]],
    },
    "LIST_INT": {
        "vals": [L([]), L([I(1)]), L([I(1), I(2)]), L([I(2), I(1)]), L([I(1), I(1)]), L([I(1), I(2), I(3)]), L([I(0)]),
                 L([I(0), I(1)])],
        "leaves": [["Equals", L([I(1), I(2)])], ["SameMembers", [I(2), I(1)]], ["HasLength", 2], ["Contains", I(2)],
                   ["Equals", L([])], ["SameMembers", []], ["HasLength", 0], ["Contains", I(0)]],
        "elem": "INT",
    },
    "LIST_STR": {
        "vals": [L([]), L([S("abc")]), L([S("f1"), S("d1")]), L([S("nope"), S("abc"), S("a")])],
        "leaves": [["SameMembers", [S("d1"), S("f1")]], ["Contains", S("abc")]],
        "elem": "STR",
    },
    "DICT": {
        "vals": [D([]), D([[S("a"), I(1)]]), D([[S("a"), I(1)], [S("b"), I(2)]]), D([[S("b"), I(2)], [S("a"), I(1)]]),
                 D([[S("a"), I(2)], [S("c"), I(3)]]), D([[S("a"), I(1)], [S("b"), I(2)], [S("c"), I(3)]]),
                 # falsy values under common and under surplus keys
                 D([[S("a"), I(0)]]), D([[S("a"), I(1)], [S("b"), I(2)], [S("z"), I(0)]]),
                 D([[S("a"), I(1)], [S("z"), NONE]]), D([[S("z"), S("")]]),
                 D([[S("a"), I(0)], [S("b"), I(0)], [S("z"), L([])], [S("y"), D([])]]),
                 D([[S("a"), I(1)], [S("b"), I(2)], [S("y"), B(b"")]])],
        "leaves": [["KeysEqual", [S("a"), S("b")]], ["Equals", D([[S("a"), I(1)], [S("b"), I(2)]])], ["HasLength", 2],
                   ["Contains", S("a")], ["KeysEqual", []], ["Equals", D([])], ["HasLength", 0]],
    },
    "REC": {
        "vals": RECS,
        "leaves": [["Is", RECS[0]], ["Equals", RECS[0]], ["IsInstance", ["rec"]], ["Never"]],
    },
    "FALSY": {
        "vals": FALSY + [I(1)],
        "leaves": [["Equals", I(0)], ["Equals", S("")], ["Equals", NONE], ["Equals", L([])], ["Equals", D([])],
                   ["Equals", B(b"")], ["Is", NONE], ["NotEquals", I(0)], ["IsInstance", ["none"]], ["Contains", S("")],
                   ["Contains", NONE], ["Equals", T(False)], ["IsInstance", ["int"]], ["NotEquals", F(0)]],
    },
    # members that < orders only partially (frozensets: subset), so sorting does not canonicalise a collection
    "SET": {
        "vals": [Z([]), Z([1]), Z([1, 2]), Z([3]), Z([0, 1])],
        "leaves": [["Equals", Z([1, 2])], ["Contains", I(1)], ["HasLength", 1], ["IsInstance", ["set"]],
                   ["Contains", T(True)], ["NotEquals", Z([])], ["Contains", F(0)], ["Equals", L([])]],
    },
    "LIST_SET": {
        "vals": [L([]), L([Z([1, 2]), Z([3])]), L([Z([3]), Z([1, 2])]), L([Z([]), Z([1])]), L([Z([1]), Z([1])]),
                 L([Z([1, 2]), Z([1]), Z([3])]), L([Z([3]), Z([1]), Z([1, 2])]), L([Z([2, 3]), Z([1, 3]), Z([1, 2])])],
        "leaves": [["SameMembers", [Z([3]), Z([1, 2])]], ["SameMembers", [Z([1, 2]), Z([3])]],
                   ["SameMembers", [Z([1]), Z([])]], ["Contains", Z([3])], ["HasLength", 2],
                   ["SameMembers", [Z([1, 2]), Z([3]), Z([1])]], ["SameMembers", [Z([1, 2]), Z([1, 3]), Z([2, 3])]],
                   ["Equals", L([Z([1, 2]), Z([3])])], ["SameMembers", [Z([1]), Z([1])]]],
        "elem": "SET",
    },
    # numbers equal across types: 1 == True == 1.0, 0 == False == 0.0; bool is an int
    "NUM": {
        "vals": [I(0), I(1), T(False), T(True), F(0), F(2), F(1), I(2)],
        "leaves": [["Equals", I(1)], ["Equals", T(False)], ["LessThan", T(True)], ["IsInstance", ["int"]],
                   ["NotEquals", F(2)], ["GreaterThan", F(1)], ["IsInstance", ["bool"]], ["IsInstance", ["float"]],
                   ["Equals", F(0)], ["Is", NONE], ["AfterPreprocessing", 4, False, ["Equals", I(2)]],
                   ["AfterPreprocessing", 3, True, ["SameMembers", [I(1)]]]],
    },
    "LIST_NUM": {
        "vals": [L([]), L([T(False)]), L([I(0), T(False), F(0)]), L([I(1), T(True)]), L([F(2), I(0)]), L([F(1), T(True)]),
                 L([T(True), T(True)])],
        "leaves": [["SameMembers", [T(True), I(1)]], ["Contains", T(True)], ["Equals", L([I(1), I(1)])],
                   ["SameMembers", [F(0), F(0), F(0)]], ["Contains", F(0)], ["SameMembers", [I(0), F(2)]],
                   ["Equals", L([F(0)])], ["HasLength", 2], ["Contains", F(1)]],
        "elem": "NUM",
    },
    # dict keys that collide across types; falsy / cross-type values under common, surplus and missing keys
    "DICT_NUM": {
        "vals": [D([]), D([[I(1), I(1)]]), D([[T(True), I(1)]]), D([[F(2), T(True)], [I(0), I(0)]]),
                 D([[I(0), F(2)], [I(1), T(False)]]), D([[T(False), I(1)], [T(True), F(0)], [I(7), T(False)]]),
                 D([[I(1), F(2)], [F(14), F(0)]]), D([[I(7), T(False)]]), D([[F(0), I(1)], [I(7), I(1)]])],
        "leaves": [["KeysEqual", [I(0), T(True)]], ["Contains", T(True)], ["Equals", D([[I(1), I(1)]])],
                   ["KeysEqual", [F(2)]], ["Contains", F(0)], ["Contains", F(1)], ["HasLength", 2],
                   ["Equals", D([[T(False), T(True)], [T(True), I(0)]])], ["KeysEqual", [I(1), T(True)]]],
        "dkeys": [I(1), T(False)], "delem": "NUM",
    },
    # what sits under a dict key / in a list / in an attribute is itself a container, possibly empty: the inner
    # matchers return every sort of mismatch object (MismatchesAll with no children, DictMismatches, ...)
    "DICT_LIST": {
        "vals": [D([]), D([[S("a"), L([])]]), D([[S("a"), L([I(1)])], [S("b"), L([])]]),
                 D([[S("a"), L([I(0)])], [S("z"), L([])]]), D([[S("a"), L([I(1), I(2)])], [S("b"), L([I(0)])]])],
        "leaves": [["HasLength", 1], ["Contains", S("b")]],
        "dkeys": [S("a"), S("b")], "delem": "LIST_INT", "cap": 14,
    },
    "LIST_LIST": {
        "vals": [L([]), L([L([])]), L([L([I(1)]), L([])]), L([L([]), L([I(1), I(2)])]), L([L([I(1)]), L([I(1)])]),
                 L([L([I(0)])])],
        "leaves": [["HasLength", 1], ["Contains", L([])], ["Equals", L([L([])])]],
        "elem": "LIST_INT", "cap": 14,
    },
    "EXC": {
        "vals": [X(2, [S("a")]), X(2, []), X(4, [S("k")]), X(7, [I(1)]), X(5, []), X(1, [S("a"), I(1)]), X(2, [S("")]),
                 X(2, [I(0)])],
        "leaves": [["MatchesException", True, [2], [S("a")], None], ["MatchesException", True, [2], [S("")], None],
                   ["MatchesException", True, [2], [], None], ["MatchesException", False, [2], [], None],
                   ["MatchesException", False, [3, 2], [], None], ["MatchesException", False, [0], [], None],
                   ["MatchesException", False, [], [], None], ["IsInstance", ["tuple"]], ["HasLength", 3], ["Never"]],
    },
    "XI": {
        "vals": [],
        "leaves": [["IsInstance", [["exc", 2]]], ["IsInstance", [["exc", 3], ["exc", 5]]], ["Always"], ["Never"],
                   ["AfterPreprocessing", 2, False, ["Equals", L([S("a")])]],
                   ["AfterPreprocessing", 2, True, ["HasLength", 1]]],
    },
    # callables that return or raise an Exception subclass (a nested Raises lets nothing through)
    "CALLU": {
        "vals": [RET(I(1)), RAISE(2, [S("a")]), RAISE(4, [S("k")]), RAISE(7, []), RET(I(0)), RET(NONE), RAISE(2, [I(0)])],
        "leaves": [["Raises", None], ["Raises", ["MatchesException", False, [2], [], None]],
                   ["Raises", ["MatchesException", True, [2], [S("a")], None]], ["IsInstance", ["func"]], ["Never"]],
    },
}
CALL_ALL = [RET(I(0)), RET(NONE), RET(I(1)), RAISE(2, [S("a")]), RAISE(4, [S("k")]), RAISE(7, []), RAISE(5, []), RAISE(8, [I(1)]),
            RAISE(6, [I(3)])]


def spread(el, cap):
    """at most cap of the expressions, spread evenly over the list (all when cap is None)"""
    if not cap or len(el) <= cap:
        return el
    return [el[(i * len(el)) // cap] for i in range(cap)]


def enum(fam, d, nleaves=None, _memo={}):
    """every expression of depth <= d of family fam over its first nleaves leaves (all when None)"""
    key = (fam, d, nleaves)
    if key in _memo:
        return _memo[key]
    f = FAM[fam]
    leaves = f["leaves"][:nleaves] if nleaves else f["leaves"]
    out = list(leaves)
    if d > 0:
        sub = enum(fam, d - 1, nleaves)
        out += [["MatchesAll", False, []], ["MatchesAll", True, []], ["MatchesAny", []]]
        for e in sub:
            out += [["Not", e], ["Annotate", 0, e], ["AfterPreprocessing", 0, True, e]]
        for e1 in sub:
            for e2 in sub:
                out += [["MatchesAll", False, [e1, e2]], ["MatchesAll", True, [e1, e2]], ["MatchesAny", [e1, e2]]]
        if "elem" in f:
            el = enum(f["elem"], d - 1, nleaves)
            pel = spread(el, f.get("cap"))
            out += [["MatchesListwise", False, []], ["MatchesListwise", True, []], ["MatchesSetwise", 0, []]]
            for e in el:
                out += [["AllMatch", e], ["AnyMatch", e], ["MatchesListwise", False, [e]],
                        ["MatchesListwise", True, [e]], ["MatchesSetwise", 0, [e]],
                        ["AfterPreprocessing", 1, False, e] if f["elem"] == "INT" else ["AllMatch", ["Not", e]]]
            for e1 in pel:
                for e2 in pel:
                    out += [["MatchesListwise", False, [e1, e2]], ["MatchesListwise", True, [e1, e2]],
                            ["MatchesSetwise", 0, [e1, e2]]]
        if fam == "DICT" or "dkeys" in f:
            k1, k2 = f.get("dkeys", [S("a"), S("b")])
            el = enum(f.get("delem", "INT"), d - 1, nleaves)
            pel = spread(el, f.get("cap"))
            for K in ("MatchesDict", "ContainsDict", "ContainedByDict"):
                out.append([K, []])
                for e in el:
                    out.append([K, [[k1, e]]])
                for e1 in pel:
                    for e2 in pel:
                        out.append([K, [[k1, e1], [k2, e2]]])
        if fam == "REC":
            for e in enum("INT", d - 1, nleaves):
                out.append(["MatchesStructure", [[0, e]]])
                for e2 in FAM["STR"]["leaves"][:4]:
                    out.append(["MatchesStructure", [[1, e2], [0, e]]])
        if fam == "EXC":
            for e in enum("XI", d - 1, nleaves):
                out.append(["MatchesException", False, [1], [], e])
                out.append(["MatchesException", False, [4, 7], [], e])
    _memo[key] = out
    return out


def renumber(m, counter):
    """give every MatchesSetwise node its own set id"""
    k = m[0]
    if k == "MatchesSetwise":
        sid = counter[0]
        counter[0] += 1
        return ["MatchesSetwise", sid, [renumber(x, counter) for x in m[2]]]
    if k in ("Not", "AllMatch", "AnyMatch"):
        return [k, renumber(m[1], counter)]
    if k == "Raises":
        return [k, renumber(m[1], counter) if m[1] is not None else None]
    if k == "MatchesException":
        return m[:4] + [renumber(m[4], counter) if m[4] is not None else None]
    if k in ("MatchesAll", "MatchesListwise"):
        return [k, m[1], [renumber(x, counter) for x in m[2]]]
    if k == "MatchesAny":
        return [k, [renumber(x, counter) for x in m[1]]]
    if k in ("MatchesDict", "ContainsDict", "ContainedByDict", "MatchesStructure"):
        return [k, [[kk, renumber(x, counter)] for kk, x in m[1]]]
    if k == "AfterPreprocessing":
        return [k, m[1], m[2], renumber(m[3], counter)]
    if k == "Annotate":
        return [k, m[1], renumber(m[2], counter)]
    return m


def enum_cases(fam, d, nleaves, vals=None):
    for e in enum(fam, d, nleaves):
        e = renumber(e, [0])
        for v in (vals if vals is not None else FAM[fam]["vals"]):
            yield (e, v)


# ---------------------------------------------------------------------------
# seeded random, domain-directed
# ---------------------------------------------------------------------------
class St:
    def __init__(self, rng):
        self.rng = rng
        self.leafdefs = []
        self.sid = 0

    def leaf(self):
        from .c06 import LEAFDEFS
        d = self.rng.choice(LEAFDEFS)
        if d not in self.leafdefs:
            self.leafdefs.append(d)
        return ["Leaf", self.leafdefs.index(d)]


def rand_scalar(rng, kind=None):
    if kind is None and rng.random() < 0.2:
        return rng.choice([x for x in FALSY if is_scalar(x)])
    kind = kind or rng.choice("iiissbntf#z")
    if kind == "z":
        return rng.choice(SETS) if rng.random() < 0.7 else Z(rng.sample(range(0, 5), rng.randint(0, 3)))
    if kind == "#":                 # a number of any of the three types, small so that equal ones meet
        return rng.choice(NUMS)
    if kind == "i":
        return I(rng.randint(-1, 4))
    if kind == "t":
        return T(rng.random() < 0.5)
    if kind == "f":
        return F(rng.choice([0, 0, 1, 2, 2, 3, 4, -2, 6]))
    if kind == "s":
        return S(rng.choice(STRS))
    if kind == "b":
        return B(rng.choice(BYTESS))
    return NONE


def rand_numkey(rng, k):
    """the dict key k as an int, or as the bool / float that is the same key"""
    r = rng.random()
    if r < 0.6:
        return I(k)
    if r < 0.8 or k > 1:
        return F(2 * k)
    return T(k == 1)


def rand_plain(rng, d=2):
    if rng.random() < 0.12:
        return rng.choice(FALSY)
    r = rng.random()
    if d == 0 or r < 0.45:
        return rand_scalar(rng)
    if r < 0.75:
        kind = rng.choice(["i", "i", "s", "b", "#", "#", "z", None])
        return L([rand_scalar(rng, kind) if kind else rand_plain(rng, d - 1) for _ in range(rng.randint(0, 4))])
    if r < 0.93:
        ks = rng.sample(["a", "b", "c", "d"], rng.randint(0, 3)) if rng.random() < 0.65 else None
        if ks is None:
            return D([[rand_numkey(rng, k), rand_plain(rng, d - 1)] for k in rng.sample([0, 1, 2, 3], rng.randint(0, 3))])
        return D([[S(k), rand_plain(rng, d - 1)] for k in ks])
    return rng.choice(RECS + [REC_EMPTY])


ARGS = [[], [S("a")], [S("k")], [I(1)], [S("a"), I(1)], [S("abc")], [L([I(1)])], [S("")], [I(0)], [NONE], [L([])]]


def rand_value(rng):
    r = rng.random()
    if r < 0.72:
        return rand_plain(rng, 2)
    if r < 0.86:
        return X(rng.choice([1, 2, 2, 3, 4, 5, 7, 8]), rng.choice(ARGS))
    if r < 0.9:
        return RET(rand_scalar(rng))
    return RAISE(rng.choice([1, 2, 2, 4, 7, 7, 5, 6, 8]), rng.choice(ARGS))


TYS = ["int", "bool", "float", "set", "str", "bytes", "none", "list", "dict", "rec", "object", "tuple", "func", ["exc", 0], ["exc", 1],
       ["exc", 2], ["exc", 3], ["exc", 7], ["exc", 5]]


def near(rng, vals, fallback):
    """a reference value likely to be related to the values matched: one of them, or one == it of another type"""
    if vals and rng.random() < 0.6:
        v = rng.choice(vals)
        return twin(rng, v) if rng.random() < 0.3 else v
    return fallback()


def succ(v):
    """x + 1 as Python computes it on int / bool / float"""
    return I(v[1] + 1) if v[0] == "i" else I(2 if v[1] else 1) if v[0] == "t" else F(v[1] + 2)


def gm(rng, d, vals, st, top=False):
    """a matcher expression (JSON) of depth <= d in the domain of every value in vals"""
    shapes = set(v[0] for v in vals)
    plain = all(is_plain(v) for v in vals)
    lw = 4 if d == 0 else 0.35
    opts = []

    def add(w, f):
        opts.append((w, f))

    add(lw, lambda: ["Always"])
    add(lw, lambda: ["Never"])
    add(lw, lambda: ["IsInstance", rng.sample(TYS, rng.choice([0, 1, 1, 2]))])
    add(lw, lambda: ["Is", rng.choice([NONE] + RECS)])
    if plain:
        add(2 * lw, lambda: [rng.choice(["Equals", "Equals", "NotEquals"]), near(rng, vals, lambda: rand_plain(rng, 2))])
    if "x" in shapes or rng.random() < 0.1:
        def mexc():
            if rng.random() < 0.4:
                return ["MatchesException", True, [rng.choice([1, 2, 4, 7, 5])], rng.choice(ARGS), None]
            cs = rng.sample([0, 1, 2, 3, 4, 5, 7, 8], rng.choice([0, 1, 1, 1, 2]))
            vm = None
            if d > 0 and rng.random() < 0.6:
                vm = gm(rng, d - 1, [XI(v[1], v[2]) for v in vals if v[0] == "x"], st)
            return ["MatchesException", False, cs, [], vm]
        add(3 * lw, mexc)
    # Contains: needle in matchee; a TypeError is a mismatch
    def contains():
        if "b" in shapes:
            n = rng.choice([I(rng.choice([0, 97, 98, 255])), B(rng.choice(BYTESS)), S("a"), T(rng.random() < 0.5),
                            F(rng.choice([0, 2, 194]))])
        elif "s" in shapes:
            n = rng.choice([S(rng.choice(STRS)), I(1), B(b"a")])
        elif "z" in shapes:
            n = rng.choice(NUMS + [S("a"), NONE, L([]), Z([1])])
        elif "l" in shapes:
            elems = [x for v in vals if v[0] == "l" for x in v[1]]
            n = near(rng, elems, lambda: rand_plain(rng, 1))
        elif "d" in shapes:
            keys = [k for v in vals if v[0] == "d" for k, _ in v[1]]
            n = near(rng, keys, lambda: rand_scalar(rng))
        else:
            n = rand_scalar(rng)
        return ["Contains", n]
    add(lw, contains)
    if shapes and shapes <= set(NUM_KINDS):
        add(2 * lw, lambda: [rng.choice(["LessThan", "GreaterThan"]),
                             I(rng.randint(-1, 4)) if shapes <= {"i"} and rng.random() < 0.7 else rng.choice(NUMS)])
        if d > 0:
            add(1, lambda: ["AfterPreprocessing", 4, rng.random() < 0.5, gm(rng, d - 1, [succ(v) for v in vals], st)])
    if shapes and shapes <= {"s"}:
        add(lw, lambda: [rng.choice(["LessThan", "GreaterThan"]), S(rng.choice(STRS))])
        add(2 * lw, lambda: [rng.choice(["StartsWith", "EndsWith"]), S(rng.choice(STRS)[:2] if rng.random() < 0.5
                                                                         else rng.choice(STRS)[-2:])])
        add(4 * lw, st.leaf)
    if shapes and shapes <= {"b"}:
        add(lw, lambda: [rng.choice(["LessThan", "GreaterThan"]), B(rng.choice(BYTESS))])
        add(2 * lw, lambda: [rng.choice(["StartsWith", "EndsWith"]), B(rng.choice(BYTESS)[:2])])
    if shapes and shapes <= {"s", "b", "l", "d", "x", "z"}:
        add(lw, lambda: ["HasLength", rng.randint(0, 3)])
        if d > 0:
            def lens():
                ls = [I(3 if v[0] == "x" else len(v[1])) for v in vals]
                return ["AfterPreprocessing", 1, rng.random() < 0.5, gm(rng, d - 1, ls, st)]
            add(1, lens)
    if shapes and shapes <= {"l"}:
        elems = [x for v in vals for x in v[1]]
        if all(is_scalar(x) for x in elems):
            def same():
                base = list(rng.choice(vals)[1]) if rng.random() < 0.7 else [rand_scalar(rng) for _ in range(rng.randint(0, 3))]
                rng.shuffle(base)
                if base and rng.random() < 0.3:
                    base[rng.randrange(len(base))] = rand_scalar(rng)
                if rng.random() < 0.3:
                    base = [twin(rng, x) if rng.random() < 0.6 else x for x in base]
                return ["SameMembers", base]
            add(2 * lw, same)
        if d > 0:
            add(2, lambda: [rng.choice(["AllMatch", "AnyMatch"]), gm(rng, d - 1, elems, st)])

            def listwise():
                n = rng.choice([len(rng.choice(vals)[1]), rng.randint(0, 3)])
                return ["MatchesListwise", rng.random() < 0.35,
                        [gm(rng, d - 1, [v[1][j] for v in vals if len(v[1]) > j], st) for j in range(n)]]
            add(3, listwise)

            def setwise():
                n = rng.choice([len(rng.choice(vals)[1]), rng.randint(0, 3)])
                n = min(n, 4)
                sid = st.sid
                st.sid += 1
                return ["MatchesSetwise", sid, [gm(rng, d - 1, elems, st) for _ in range(n)]]
            add(3, setwise)
            add(1, lambda: ["AfterPreprocessing", 5, rng.random() < 0.5, gm(rng, d - 1, [L(v[1][::-1]) for v in vals], st)])
    if shapes and shapes <= {"d"}:
        keys = [k for v in vals for k, _ in v[1]]
        kinds = set(knorm(k)[0] for k in keys)          # 's' or 'i': ints, bools and floats sort together
        if len(kinds) <= 1:
            kind = (list(kinds) or ["s"])[0]

            def keyseq():
                base = [k for k, _ in rng.choice(vals)[1]] if rng.random() < 0.7 else []
                extra = S(rng.choice("abcd")) if kind == "s" else rand_numkey(rng, rng.randint(0, 3))
                if rng.random() < 0.4:
                    base = base + [extra]
                if base and rng.random() < 0.2:
                    base = base[1:]
                if rng.random() < 0.3:
                    base = [twin(rng, k) if k[0] in NUM_KINDS else k for k in base]
                rng.shuffle(base)
                return ["KeysEqual", base]
            add(2 * lw, keyseq)
        if d > 0:
            def dictm():
                ks = []
                for k in keys + [S("zz"), I(9)]:
                    if knorm(k) not in [knorm(x) for x in ks] and rng.random() < 0.6:
                        ks.append(k)
                rng.shuffle(ks)
                ks = ks[:3]
                # the matcher may name a key by another value that is the same key (1 / True / 1.0)
                return [rng.choice(["MatchesDict", "ContainsDict", "ContainedByDict"]),
                        [[twin(rng, k) if k[0] in NUM_KINDS and rng.random() < 0.3 else k,
                          gm(rng, d - 1, [x for v in vals for kk, x in v[1] if knorm(kk) == knorm(k)], st)]
                         for k in ks]]
            add(5, dictm)
            add(1, lambda: ["AfterPreprocessing", 6, rng.random() < 0.5,
                            gm(rng, d - 1, [L([x for _, x in v[1]]) for v in vals], st)])
    if shapes and shapes <= {"r"} and d > 0:
        common = set(a for a, _ in vals[0][2])
        for v in vals:
            common &= set(a for a, _ in v[2])

        def struct():
            attrs = [a for a in sorted(common) if rng.random() < 0.7]
            rng.shuffle(attrs)
            return ["MatchesStructure", [[a, gm(rng, d - 1, [x for v in vals for aa, x in v[2] if aa == a], st)]
                                         for a in attrs]]
        add(5, struct)
    if shapes and shapes <= {"xi"} and d > 0:
        add(3, lambda: ["AfterPreprocessing", 2, rng.random() < 0.5, gm(rng, d - 1, [L(v[2]) for v in vals], st)])
    if shapes and shapes <= {"ret", "raise"}:
        quiet = all(v[0] == "ret" or v[1] in USER_EXC for v in vals)
        if top or quiet:
            def raises():
                if d == 0 or rng.random() < 0.3:
                    return ["Raises", None]
                return ["Raises", gm(rng, d - 1, [X(v[1], v[2]) for v in vals if v[0] == "raise"], st)]
            add(8, raises)
    if d > 0:
        add(2, lambda: ["Not", gm(rng, d - 1, vals, st)])
        add(1, lambda: ["Annotate", rng.randint(0, 3), gm(rng, d - 1, vals, st)])
        add(3, lambda: ["MatchesAll", rng.random() < 0.35, [gm(rng, d - 1, vals, st) for _ in range(rng.randint(0, 3))]])
        add(3, lambda: ["MatchesAny", [gm(rng, d - 1, vals, st) for _ in range(rng.randint(0, 3))]])
        add(1, lambda: ["AfterPreprocessing", 0, rng.random() < 0.5, gm(rng, d - 1, vals, st)])
        if plain:
            add(1, lambda: ["AfterPreprocessing", 3, rng.random() < 0.5, gm(rng, d - 1, [L([v]) for v in vals], st)])
    total = sum(w for w, _ in opts)
    r = rng.random() * total
    for w, f in opts:
        r -= w
        if r <= 0:
            return f()
    return opts[-1][1]()


def setwise_special(rng):
    """MatchesSetwise over small int lists with overlapping matchers (the F13 region) and without"""
    pool = [["Equals", I(1)], ["Equals", I(2)], ["Equals", I(3)], ["LessThan", I(3)], ["GreaterThan", I(1)],
            ["MatchesAny", [["Equals", I(1)], ["Equals", I(2)]]], ["Always"], ["Never"], ["Not", ["Equals", I(2)]]]
    n = rng.randint(0, 4)
    ms = [rng.choice(pool) for _ in range(n)]
    k = rng.choice([n, n, n, rng.randint(0, 4)])
    v = L([I(rng.randint(1, 3)) for _ in range(k)])
    m = ["MatchesSetwise", 0, ms]
    r = rng.random()
    if r < 0.15:
        m = ["Not", m]
    elif r < 0.3:
        m, v = ["AllMatch", m], L([v, L([I(rng.randint(1, 3)) for _ in range(k)])])
    return m, v


def dict_special(rng):
    """dict matchers whose verdict is decided by the key sets alone: every per-key matcher matches, values are
    mostly falsy (0, False, 0.0, '', b'', None, [], {}) under common, surplus and missing keys; in a third of the
    cases the keys are numbers and matcher and matchee name the same key by different values (1 / True / 1.0)"""
    numeric = rng.random() < 0.35
    if numeric:
        keys = [rand_numkey(rng, k) for k in rng.sample([0, 1, 2, 7], rng.randint(0, 4))]
        spare = [rand_numkey(rng, k) for k in (0, 1, 5)]
    else:
        keys = [S(k) for k in rng.sample(["a", "b", "c", "z"], rng.randint(0, 4))]
        spare = [S("a"), S("b"), S("m")]
    obs = [[k, rng.choice(FALSY) if rng.random() < 0.75 else rand_plain(rng, 1)] for k in keys]
    have = [knorm(k) for k in keys]
    mkeys = [k for k in keys if rng.random() < 0.6] + [k for k in spare if knorm(k) not in have and rng.random() < 0.25]
    rng.shuffle(mkeys)
    vals = dict((knorm(k), v) for k, v in obs)
    kms = []
    for k in mkeys:
        x = vals.get(knorm(k))
        if x is not None and is_plain(x):
            sub = rng.choice([["Equals", x], ["Equals", twin(rng, x)], ["Always"], ["Not", ["Never"]],
                              ["IsInstance", ["object"]]])
            if rng.random() < 0.15:
                sub = rng.choice([["NotEquals", x], ["Never"]])
        else:
            sub = rng.choice([["Always"], ["Never"]])
        kms.append([twin(rng, k) if numeric and rng.random() < 0.5 else k, sub])
    m = [rng.choice(["MatchesDict", "ContainsDict", "ContainedByDict"]), kms]
    v = D(obs)
    r = rng.random()
    if r < 0.15:
        m = ["Not", m]
    elif r < 0.3:
        m, v = ["AllMatch", m], L([v, D(obs[:1])])
    elif r < 0.4:
        m = ["MatchesAll", rng.random() < 0.5, [["IsInstance", ["dict"]], m]]
    elif r < 0.5 and not numeric:
        # the same verdict one level down: the dict sits under a key of an outer dict
        m, v = [rng.choice(["MatchesDict", "ContainsDict", "ContainedByDict"]), [[S("k"), m]]], D([[S("k"), v]])
    return m, v


def twins_special(rng):
    """collections in which values that are == but of different types (0 False 0.0, 1 True 1.0, 2 2.0) sit side by
    side, under matchers that tell them apart (IsInstance) or do not (Equals, LessThan): a combinator that treats
    == elements as one element, or picks 'the' element by ==, gives a wrong verdict only here"""
    def flav(n):
        return rng.choice([I(n), F(2 * n)] + ([T(n == 1)] if n in (0, 1) else []))
    tyof = {"i": "int", "t": "bool", "f": "float"}
    xs = []
    if rng.random() < 0.6:      # every flavour of one number, perhaps one more value
        n = rng.choice([0, 1, 1, 2])
        xs = [I(n), F(2 * n)] + ([T(n == 1)] if n in (0, 1) else [])
        if rng.random() < 0.3:
            xs.pop(rng.randrange(len(xs)))
        if rng.random() < 0.4:
            xs.append(flav((n + 1) % 3))
        rng.shuffle(xs)
    else:
        for _ in range(rng.choice([1, 2, 2, 3, 3, 4])):
            x = flav(rng.choice([0, 1, 1, 2]))
            if x not in xs:
                xs.append(x)

    def leaf():
        return rng.choice([
            ["IsInstance", [rng.choice(["int", "bool", "float"])]], ["IsInstance", [rng.choice(["int", "bool", "float"])]],
            ["IsInstance", ["int", "float"]], ["Not", ["IsInstance", [rng.choice(["bool", "float"])]]],
            ["Equals", flav(rng.choice([0, 1, 2]))], ["LessThan", F(rng.choice([1, 3]))], ["Always"],
            ["MatchesAll", rng.random() < 0.5, [["IsInstance", [rng.choice(["int", "float"])]], ["Equals", I(1)]]]])

    def exact(x):           # matches x and nothing else in xs (the members of xs are distinct as typed values)
        t = ["IsInstance", [tyof[x[0]]]]
        if x[0] == "i":
            t = ["MatchesAll", False, [t, ["Not", ["IsInstance", ["bool"]]]]]
        return ["MatchesAll", rng.random() < 0.5, [t, ["Equals", twin(rng, x) if rng.random() < 0.5 else x]]]
    kind = rng.choice(["AllMatch", "AllMatch", "AnyMatch", "Listwise", "Setwise", "Setwise", "SameMembers", "Contains",
                       "Rev", "Dict"])
    v = L(xs)
    if kind in ("AllMatch", "AnyMatch"):
        m = [kind, leaf() if rng.random() < 0.4 else ["IsInstance", rng.sample(["int", "bool", "float"], rng.choice([1, 1, 2]))]]
    elif kind == "Listwise":
        m = ["MatchesListwise", rng.random() < 0.4, [exact(x) if rng.random() < 0.7 else leaf() for x in xs]]
    elif kind == "Setwise":
        ms = [exact(x) for x in xs]
        rng.shuffle(ms)
        if ms and rng.random() < 0.2:
            ms[rng.randrange(len(ms))] = exact(flav(rng.choice([0, 1, 2])))
        m = ["MatchesSetwise", 0, ms]
    elif kind == "SameMembers":
        e = [twin(rng, x) if rng.random() < 0.6 else x for x in xs]
        rng.shuffle(e)
        if e and rng.random() < 0.3:
            e[rng.randrange(len(e))] = flav(rng.choice([0, 1, 2]))
        m = ["SameMembers", e]
    elif kind == "Contains":
        m = ["Contains", flav(rng.choice([0, 1, 2]))]
    elif kind == "Rev":
        m = ["AfterPreprocessing", 5, rng.random() < 0.5, ["MatchesListwise", False, [exact(x) for x in xs[::-1]]]]
    else:
        m, v = [rng.choice(["MatchesDict", "ContainsDict", "ContainedByDict"]), [[S("k"), ["AllMatch", leaf()]]]], D([[S("k"), v]])
    r = rng.random()
    if r < 0.15:
        m = ["Not", m]
    elif r < 0.25:
        m = ["Annotate", 3, m]
    return m, v


def members_special(rng):
    """SameMembers where sorting cannot stand in for comparing members: members that < orders only partially
    (frozensets), members equal across types (1 / True / 1.0), members of several types; the expected list is a
    permutation of the observed one, sometimes with one member changed, dropped or repeated"""
    r = rng.random()
    if r < 0.6:
        pool = SETS + [Z([1, 3]), Z([0, 2])]
    elif r < 0.85:
        pool = NUMS
    else:
        pool = SETS[:4] + NUMS[:6] + [NONE, S(""), S("a"), B(b"")]
    obs = [rng.choice(pool) for _ in range(rng.choice([0, 1, 2, 2, 3, 3, 4]))]
    exp = list(obs)
    rng.shuffle(exp)
    c = rng.random()
    if exp and c < 0.15:
        exp[rng.randrange(len(exp))] = rng.choice(pool)
    elif exp and c < 0.25:
        exp.pop(rng.randrange(len(exp)))
    elif exp and c < 0.35:
        exp.append(rng.choice(exp))
    elif c < 0.45:
        exp = [twin(rng, x) for x in exp]
    m, v = ["SameMembers", exp], L(obs)
    w = rng.random()
    if w < 0.15:
        m = ["Not", m]
    elif w < 0.3:
        m, v = ["AllMatch", m], L([v, L(obs[::-1])])
    elif w < 0.4:
        m = ["Annotate", 2, m]
    elif w < 0.5:
        m, v = ["MatchesDict", [[S("k"), m]]], D([[S("k"), v]])
    return m, v


def struct_special(rng):
    """MatchesStructure over objects whose attribute values are mostly falsy (0, False, 0.0, '', b'', None, [], {}):
    per-attribute matchers that match or mismatch on exactly that value; also objects without attributes"""
    n = rng.choice([0, 1, 2, 2, 3, 4])
    attrs = [[a, rng.choice(FALSY) if rng.random() < 0.8 else rand_plain(rng, 1)] for a in range(n)]
    ams = []
    for a, x in attrs:
        if rng.random() < 0.75:
            if is_plain(x):
                sub = rng.choice([["Equals", x], ["Equals", twin(rng, x)], ["Always"], ["Not", ["Never"]],
                                  ["IsInstance", ["object"]], ["Not", ["Is", RECS[0]]]])
                if rng.random() < 0.3:
                    sub = rng.choice([["NotEquals", x], ["Never"], ["Is", RECS[0]], ["Not", ["Equals", x]],
                                      ["Equals", rng.choice([y for y in FALSY + [I(1)]])]])
            else:
                sub = rng.choice([["Always"], ["Never"]])
            ams.append([a, sub])
    rng.shuffle(ams)
    m, v = ["MatchesStructure", ams], ["r", 20 + rng.randrange(4), attrs]
    r = rng.random()
    if r < 0.15:
        m = ["Not", m]
    elif r < 0.3:
        m, v = ["AllMatch", m], L([v])
    elif r < 0.4:
        m, v = ["MatchesDict", [[S("o"), m]]], D([[S("o"), v]])
    return m, v


def nested_special(rng):
    """a combinator that inspects the verdicts of its children, directly over children whose mismatch is an
    unusual object (a MismatchesAll without children from AnyMatch over [] or MatchesAny(), DictMismatches,
    annotated / prefixed mismatches, MatchedUnexpectedly ...), applied to containers that are often empty"""
    rid = [8]                   # every object built here gets its own identity

    def elem():
        return L([I(rng.choice([0, 1, 1, 2])) for _ in range(rng.choice([0, 0, 0, 1, 1, 2]))])

    def inner(x):
        e = ["Equals", I(rng.choice([0, 1, 1, 2]))]
        c = rng.choice([
            ["AnyMatch", e], ["AnyMatch", e], ["AllMatch", e], ["AnyMatch", ["Never"]], ["AllMatch", ["Never"]],
            ["MatchesAny", []], ["MatchesAll", rng.random() < 0.5, []], ["MatchesAny", [["AnyMatch", e]]],
            ["MatchesAll", rng.random() < 0.5, [["AnyMatch", e]]], ["MatchesListwise", rng.random() < 0.5, []],
            ["MatchesListwise", rng.random() < 0.5, [e] * len(x[1])], ["MatchesSetwise", 0, []],
            ["MatchesSetwise", 0, [e][:len(x[1])]], ["HasLength", rng.choice([0, 1])], ["Equals", L([])],
            ["Not", ["Equals", L([])]], ["Not", ["AnyMatch", e]], ["Annotate", 0, ["AnyMatch", e]],
            ["AfterPreprocessing", 0, rng.random() < 0.5, ["AnyMatch", e]], ["Contains", I(1)], ["SameMembers", []],
            ["AfterPreprocessing", 1, rng.random() < 0.5, ["Equals", I(0)]], ["Always"], ["Never"],
            ["AfterPreprocessing", 3, False, ["AnyMatch", ["AnyMatch", e]]],
        ])
        return c

    def outer(lvl):
        """(matcher, value) with children built by inner() / outer(lvl - 1)"""
        def child():
            if lvl > 0 and rng.random() < 0.5:
                return outer(lvl - 1)
            x = elem()
            return inner(x), x
        kind = rng.choice(["AllMatch", "AnyMatch", "Listwise", "Setwise", "MatchesDict", "ContainsDict",
                           "ContainedByDict", "Structure", "Not", "All", "Any", "Annotate", "Pre"])
        if kind in ("AllMatch", "AnyMatch"):
            m, x = child()
            xs = [x] + ([elem() for _ in range(rng.randint(0, 2))] if x[0] == "l" and m[0] not in
                        ("MatchesListwise", "MatchesSetwise") and all(y[0] == "i" for y in x[1]) and lvl == 0 else [])
            rng.shuffle(xs)
            return [kind, m], L(xs)
        if kind == "Listwise":
            cs = [child() for _ in range(rng.randint(0, 3))]
            return ["MatchesListwise", rng.random() < 0.4, [c for c, _ in cs]], L([x for _, x in cs])
        if kind == "Setwise":
            cs = [child() for _ in range(rng.randint(0, 1))]
            return ["MatchesSetwise", 0, [c for c, _ in cs]], L([x for _, x in cs])
        if kind in ("MatchesDict", "ContainsDict", "ContainedByDict"):
            cs = [child() for _ in range(rng.randint(0, 3))]
            ks = rng.sample(["a", "b", "c", "d"], len(cs))
            obs = [[S(k), x] for k, (_, x) in zip(ks, cs)]
            if rng.random() < 0.3:
                obs.append([S("z"), rng.choice(FALSY)])
            kms = [[S(k), c] for k, (c, _) in zip(ks, cs)]
            if rng.random() < 0.2:
                kms.append([S("m"), ["Always"]])
            rng.shuffle(obs)
            return [kind, kms], D(obs)
        if kind == "Structure":
            cs = [child() for _ in range(rng.randint(0, 3))]
            rid[0] += 1
            return (["MatchesStructure", [[a, c] for a, (c, _) in enumerate(cs)]],
                    ["r", rid[0], [[a, x] for a, (_, x) in enumerate(cs)]])
        m, x = child()
        if kind == "Not":
            return ["Not", m], x
        if kind == "All":
            return ["MatchesAll", rng.random() < 0.5, [["Always"], m][::rng.choice([1, -1])]], x
        if kind == "Any":
            return ["MatchesAny", [["Never"], m][::rng.choice([1, -1])]], x
        if kind == "Annotate":
            return ["Annotate", 1, m], x
        return ["AfterPreprocessing", 3, rng.random() < 0.5, ["AllMatch", m]], x
    m, v = outer(rng.choice([0, 0, 1, 1, 2]))
    return renumber(m, [0]), v


F13_WITNESS = {"m": ["MatchesSetwise", 0, [["MatchesAny", [["Equals", I(1)], ["Equals", I(2)]]], ["Equals", I(1)]]],
               "v": L([I(1), I(2)]), "leafdefs": [], "accept": []}


def pick(rng, items, want):
    """a seeded random subset of the given size, in the original order"""
    if len(items) <= want:
        return items
    return [items[i] for i in sorted(rng.sample(range(len(items)), want))]


def generate(rng, tier):
    quick = tier == "quick"
    cases = [F13_WITNESS]
    # fixed corners
    fixed = [
        (["MatchesAny", []], I(1)), (["MatchesAll", False, []], I(1)), (["AnyMatch", ["Always"]], L([])),
        (["AllMatch", ["Never"]], L([])), (["MatchesListwise", True, [["Equals", I(1)]]], L([I(1), I(2)])),
        (["MatchesListwise", True, [["Equals", I(1)], ["Never"]]], L([I(1)])),
        (["MatchesListwise", False, []], L([])), (["MatchesSetwise", 0, []], L([])),
        (["MatchesSetwise", 0, [["Always"]]], L([])), (["MatchesSetwise", 0, []], L([I(1)])),
        (["MatchesDict", []], D([])), (["ContainedByDict", [[S("a"), ["Never"]]]], D([])),
        (["ContainsDict", [[S("a"), ["Always"]]]], D([])), (["Raises", None], RAISE(5, [])),
        (["Raises", None], RAISE(2, [])), (["Raises", None], RET(I(1))),
        (["Raises", ["MatchesException", False, [5], [], None]], RAISE(5, [])),
        (["Raises", ["MatchesException", False, [2], [], None]], RAISE(5, [])),
        (["Raises", ["MatchesException", False, [2], [], None]], RAISE(4, [S("k")])),
        (["Raises", ["Never"]], RAISE(8, [I(1)])), (["Raises", ["Always"]], RAISE(6, [I(3)])),
        (["Contains", I(1)], I(2)), (["Contains", S("a")], B(b"abc")), (["Contains", I(97)], B(b"abc")),
        (["Contains", L([I(1)])], D([[S("a"), I(1)]])), (["Equals", I(1)], S("1")), (["Equals", B(b"a")], S("a")),
        (["Equals", D([[S("a"), I(1)], [S("b"), I(2)]])], D([[S("b"), I(2)], [S("a"), I(1)]])),
        (["KeysEqual", [S("a"), S("a")]], D([[S("a"), I(1)]])), (["KeysEqual", []], D([])),
        (["SameMembers", [I(1), I(1), I(2)]], L([I(1), I(2), I(2)])),
        (["SameMembers", [I(1), S("1"), NONE]], L([NONE, S("1"), I(1)])),
        (["IsInstance", []], I(1)), (["HasLength", 3], X(2, [])),
        (["MatchesStructure", []], RECS[0]),
        (["MatchesDict", [[S("a"), ["Equals", I(1)]]]], D([[S("a"), I(1)], [S("zzz"), I(0)]])),
        (["ContainedByDict", [[S("a"), ["Equals", I(1)]]]], D([[S("zzz"), NONE]])),
        (["ContainsDict", [[S("a"), ["Equals", I(0)]], [S("m"), ["Always"]]]], D([[S("a"), I(0)]])),
        (["MatchesDict", [[S("a"), ["Equals", S("")]]]], D([[S("a"), S("")], [S("b"), L([])], [S("c"), D([])]])),
        (["MatchesStructure", [[0, ["Equals", I(0)]], [1, ["Equals", S("")]], [2, ["Equals", L([])]]]], RECS[4]),
        (["AllMatch", ["Equals", I(0)]], L([I(0), I(0)])), (["AnyMatch", ["Equals", NONE]], L([NONE])),
        (["MatchesListwise", False, [["Equals", S("")], ["Equals", L([])]]], L([S(""), L([])])),
        (["MatchesSetwise", 0, [["Equals", I(0)], ["Equals", NONE]]], L([NONE, I(0)])),
        (["Raises", None], RET(I(0))), (["Raises", None], RET(NONE)),
        (["AfterPreprocessing", 1, True, ["Equals", I(0)]], S("")),
        (["MatchesException", False, [2], [], ["AfterPreprocessing", 2, True, ["Equals", L([S("a")])]]], X(7, [S("a")])),
        # False and 0.0 under surplus / common / missing keys; 1, True and 1.0 are one key and one value
        (["MatchesDict", [[S("a"), ["Equals", I(1)]]]], D([[S("a"), I(1)], [S("zzz"), T(False)]])),
        (["ContainedByDict", [[S("a"), ["Equals", I(1)]]]], D([[S("zzz"), F(0)]])),
        (["MatchesDict", [[S("a"), ["Equals", T(True)]]]], D([[S("a"), F(2)]])),
        (["MatchesDict", [[I(1), ["Always"]]]], D([[T(True), I(0)]])),
        (["ContainedByDict", [[F(0), ["Never"]]]], D([[T(False), T(False)]])),
        (["ContainsDict", [[T(True), ["Equals", F(0)]], [I(0), ["Equals", L([])]]]], D([[I(1), T(False)], [F(0), L([])]])),
        (["MatchesDict", [[I(1), ["Always"]]]], D([[T(True), I(0)], [I(2), T(False)]])),
        (["KeysEqual", [T(True), I(0)]], D([[F(0), I(1)], [I(1), I(2)]])),
        (["KeysEqual", [T(True), I(1)]], D([[I(1), I(2)]])),
        (["Equals", D([[I(1), L([T(True)])]])], D([[T(True), L([F(2)])]])),
        (["Equals", I(1)], T(True)), (["Equals", F(2)], T(True)), (["NotEquals", F(0)], T(False)),
        (["Equals", T(False)], NONE), (["Is", NONE], T(False)), (["IsInstance", ["int"]], T(True)),
        (["IsInstance", ["bool"]], I(1)), (["IsInstance", ["float", "bool"]], F(2)), (["LessThan", T(True)], F(1)),
        (["GreaterThan", F(1)], T(True)), (["Contains", T(True)], B(b"\x01")), (["Contains", F(2)], B(b"\x01")),
        (["Contains", T(True)], L([F(2)])), (["Contains", F(0)], D([[T(False), I(1)]])), (["Contains", F(1)], D([[I(0), I(1)]])),
        (["SameMembers", [I(1), T(True), F(0)]], L([F(2), T(False), F(2)])),
        (["SameMembers", [I(1), T(True), F(0)]], L([F(2), T(False), F(0)])),
        (["AllMatch", ["Equals", I(0)]], L([T(False), F(0), I(0)])), (["AnyMatch", ["IsInstance", ["bool"]]], L([I(0), F(2)])),
        (["MatchesListwise", False, [["Equals", I(1)], ["Equals", I(1)]]], L([T(True), F(2)])),
        (["MatchesSetwise", 0, [["IsInstance", ["bool"]], ["IsInstance", ["float"]]]], L([F(2), T(True)])),
        (["MatchesStructure", [[0, ["Equals", I(0)]], [3, ["Is", NONE]]]], RECS[5]),
        (["MatchesStructure", [[0, ["Equals", T(True)]], [3, ["Equals", I(1)]]]], RECS[6]),
        (["MatchesStructure", []], REC_EMPTY), (["Not", ["MatchesStructure", []]], REC_EMPTY),
        (["AfterPreprocessing", 4, False, ["Equals", I(2)]], T(True)), (["AfterPreprocessing", 4, True, ["Equals", I(1)]], F(0)),
        (["Raises", None], RET(T(False))), (["Raises", None], RET(F(0))),
        (["MatchesException", True, [2], [T(True)], None], X(2, [I(1)])),
        (["AllMatch", ["IsInstance", ["bool"]]], L([T(True), I(1)])), (["AnyMatch", ["IsInstance", ["float"]]], L([I(1), F(2)])),
        (["AllMatch", ["IsInstance", ["int"]]], L([T(False), F(0)])),
        # members that are only partially ordered: the same members in another order
        (["SameMembers", [Z([1, 2]), Z([3])]], L([Z([3]), Z([1, 2])])),
        (["SameMembers", [Z([1, 2]), Z([3])]], L([Z([3]), Z([1])])),
        (["Not", ["SameMembers", [Z([1]), Z([2]), Z([1, 2])]]], L([Z([1, 2]), Z([2]), Z([1])])),
        (["SameMembers", [Z([]), I(0), NONE]], L([NONE, Z([]), T(False)])),
        (["Contains", T(True)], Z([1, 2])), (["Contains", L([])], Z([1])), (["Equals", Z([])], L([])),
        (["AfterPreprocessing", 1, False, ["Equals", I(0)]], Z([])), (["IsInstance", ["set"]], Z([])),
        # empty containers one level down
        (["AllMatch", ["AnyMatch", ["Equals", I(1)]]], L([L([I(1)]), L([])])),
        (["AnyMatch", ["AnyMatch", ["Equals", I(1)]]], L([L([])])),
        (["MatchesListwise", False, [["AnyMatch", ["Equals", I(1)]]]], L([L([])])),
        (["MatchesDict", [[S("k"), ["AnyMatch", ["Equals", I(1)]]]]], D([[S("k"), L([])]])),
        (["ContainsDict", [[S("k"), ["MatchesAny", []]]]], D([[S("k"), I(0)]])),
        (["ContainedByDict", [[S("k"), ["MatchesDict", []]]]], D([[S("k"), D([[S("x"), I(0)]])]])),
        (["MatchesStructure", [[2, ["AnyMatch", ["Always"]]]]], RECS[4]),
        (["MatchesSetwise", 0, [["AnyMatch", ["Always"]]]], L([L([])])),
        (["Not", ["AllMatch", ["AnyMatch", ["Equals", I(1)]]]], L([L([])])),
    ]
    for m, v in fixed:
        cases.append(mk_case(m, v))
    # exhaustive to depth 1 over the full leaf sets (every family), strided in the quick tier
    d1 = []
    for fam in ("INT", "STR", "BYTES", "LIST_INT", "LIST_STR", "DICT", "REC", "EXC", "CALLU", "FALSY", "NUM", "LIST_NUM",
                "DICT_NUM", "DICT_LIST", "LIST_LIST", "SET", "LIST_SET"):
        d1 += list(enum_cases(fam, 1, None))
    for e in [["Raises", None]] + [["Raises", x] for x in enum("EXC", 1, 4)]:
        d1 += [(e, v) for v in CALL_ALL]
    # (a seeded random subset, not every n-th pair: a stride that shares a factor with the number of values of a
    # family would pair every expression of that family with the same value)
    for m, v in pick(rng, d1, 2800 if quick else len(d1)):
        cases.append(mk_case(m, v, ENUM_LEAFDEFS))
    # exhaustive to depth 2 over three leaves per family (subsampled in the quick tier)
    d2 = []
    for fam in ("INT", "LIST_INT", "DICT", "DICT_NUM", "DICT_LIST", "LIST_LIST"):
        d2 += list(enum_cases(fam, 2, 3))
    for m, v in pick(rng, d2, 900 if quick else 60000):
        cases.append(mk_case(m, v, ENUM_LEAFDEFS))
    # MatchesSetwise around the finding
    for _ in range(250 if quick else 4000):
        m, v = setwise_special(rng)
        cases.append(mk_case(m, v))
    # dict matchers decided by their key sets, falsy values everywhere, keys that collide across types
    for _ in range(450 if quick else 6000):
        m, v = dict_special(rng)
        cases.append(mk_case(m, v))
    # == values of different types side by side
    for _ in range(250 if quick else 4000):
        m, v = twins_special(rng)
        cases.append(mk_case(m, v))
    # SameMembers over partially ordered / cross-type members
    for _ in range(150 if quick else 3000):
        m, v = members_special(rng)
        cases.append(mk_case(m, v))
    # MatchesStructure over falsy attribute values
    for _ in range(200 if quick else 3000):
        m, v = struct_special(rng)
        cases.append(mk_case(m, v))
    # verdict-inspecting combinators over children with unusual mismatch objects, empty containers
    for _ in range(400 if quick else 6000):
        m, v = nested_special(rng)
        cases.append(mk_case(m, v))
    # random, depth <= 4
    for _ in range(1550 if quick else 40000):
        st = St(rng)
        v = rand_value(rng)
        m = gm(rng, rng.choice([1, 2, 2, 3, 3, 4]), [v], st, top=True)
        cases.append(mk_case(m, v, st.leafdefs))
    return cases


# ---------------------------------------------------------------------------
def shrink(case):
    """domain-preserving reductions: a sub-matcher applied to the same value, fewer children, fewer elements"""
    from .c06 import kids_of
    m, v = case["m"], case["v"]

    def again(m2, v2):
        return mk_case(renumber(m2, [0]), v2, case.get("leafdefs", ()))
    k = m[0]
    if k in ("Not", "Annotate", "MatchesAll", "MatchesAny") or (k == "AfterPreprocessing" and m[1] == 0):
        for c in kids_of(m):
            yield again(c, v)
    if k in ("MatchesAll", "MatchesAny", "MatchesSetwise"):
        ms = m[2] if k != "MatchesAny" else m[1]
        for i in range(len(ms)):
            rest = ms[:i] + ms[i + 1:]
            yield again([k, rest] if k == "MatchesAny" else [k, m[1], rest], v)
    if k in ("AllMatch", "AnyMatch", "MatchesSetwise") and v[0] == "l":
        for i in range(len(v[1])):
            yield again(m, L(v[1][:i] + v[1][i + 1:]))
        if k != "MatchesSetwise":
            for x in v[1]:
                yield again(m[1], x)
    if k == "MatchesListwise" and v[0] == "l":
        for i in range(min(len(m[2]), len(v[1]))):
            yield again(m[2][i], v[1][i])
            yield again([k, m[1], m[2][:i] + m[2][i + 1:]], L(v[1][:i] + v[1][i + 1:]))
    if k in ("MatchesDict", "ContainsDict", "ContainedByDict") and v[0] == "d":
        for i in range(len(m[1])):
            yield again([k, m[1][:i] + m[1][i + 1:]], v)
        for kk, c in m[1]:
            for k2, x in v[1]:
                if knorm(k2) == knorm(kk):
                    yield again(c, x)
        for i in range(len(v[1])):
            yield again(m, D(v[1][:i] + v[1][i + 1:]))
    if k == "MatchesStructure" and v[0] == "r":
        for i in range(len(m[1])):
            yield again([k, m[1][:i] + m[1][i + 1:]], v)
        for a, c in m[1]:
            for a2, x in v[2]:
                if a2 == a:
                    yield again(c, x)


def distribution(cases):
    from .c06 import depth, walk
    d = {"depth": {}, "top": {}, "value_shape": {}, "with_setwise": 0, "with_abstract_leaf": 0, "nodes": {}}
    for c in cases:
        dd = depth(c["m"])
        d["depth"][dd] = d["depth"].get(dd, 0) + 1
        d["top"][c["m"][0]] = d["top"].get(c["m"][0], 0) + 1
        d["value_shape"][c["v"][0]] = d["value_shape"].get(c["v"][0], 0) + 1
        kinds = [x[0] for x in walk(c["m"])]
        d["with_setwise"] += "MatchesSetwise" in kinds
        d["with_abstract_leaf"] += "Leaf" in kinds
        n = min(len(kinds), 12)
        d["nodes"][n] = d["nodes"].get(n, 0) + 1
    return d
