"""C04 - run verdict and stop control are consistent with the outcomes reported
(testresult/real.py: TestResult, TextTestResult, MultiTestResult, ThreadsafeForwardingResult,
ExtendedToOriginalDecorator, TestResultDecorator/Tagger, ExtendedToStreamDecorator+StreamFailFast; run.py)."""
import io
import itertools
import json
import os
import re
import subprocess
import sys
import tempfile

from .. import coqio as q

PROP = "C04"
CORR = "Corr.C04"
REQUIRES = ["Model.Result", "Spec.C04"]
CASE_TIMEOUT = 20
PROOF_FILES = ["Proof/C04.v"]
MANIFEST = {
    "text": "Coq theorems over all call histories and all adapter stacks (leaf-wise transition lemma proved by "
            "induction on the stack, then invariants over fold_left on each underlying result: verdict = no "
            "error/failure/unexpected success since the last startTestRun; TextTestResult summary; shouldStop iff "
            "stop() reached the result or failfast is set and a bad outcome occurred since the last startTestRun; "
            "stop() on any node reaches every result below it; ExtendedToOriginalDecorator over a foreign result of "
            "any capability record stops it on every path of its outcome methods exactly when failfast is set) about "
            "a hand-written Gallina model of the failfast/shouldStop/stop plumbing of real.py, tied to /repo on every run by differential execution of "
            "model and real classes inside coqc, with status-word tables regenerated from the live code; plus "
            "python -m testtools.run subprocess samples for the exit status (the status the operating system "
            "reports, including runs with 255 / 256 / 257 / 512 problems, and runs in which few or no tests are started: "
            "nothing loaded, a --load-list selecting nothing / only the failing / only the passing test, classes and "
            "methods skipped by decorator, everything skipped, a failing setUpClass - through python -m testtools.run "
            "and through TestProgram). Calls from several threads, each through "
            "its own ThreadsafeForwardingResult over one target and semaphore: Coq model of the harness scheduler "
            "(acquire / release as yield points), proved to let every call of every thread take effect exactly once "
            "under every schedule, and to reduce to the sequential theorems.",
    "note": "Trusted: Coq kernel + vm_compute; the harness (generators, drivers, text parser, Gallina printer). "
            "Known finding F18 (failfast assigned on a ThreadsafeForwardingResult/TestResultDecorator/Tagger stack "
            "after wrapping, or failfast=True results inside a MultiTestResult) is delimited by Spec.C04.finding_F18; "
            "C04_holds is proved for all other inputs. ExtendedToStreamDecorator and stacks ending in a foreign result "
            "(unittest.TestResult, the doubles) are outside the verdict clause (the statement does not list them); a "
            "foreign result never clears shouldStop at startTestRun, so for it 'not earlier than the first bad "
            "outcome' is stated over the whole history. Capability records of the foreign classes are probed on the "
            "live classes by the harness. Exit status: sampled, not proved beyond run.py's one line (C04_exit is about "
            "the model's exit_status = sys.exit argument mod 256). Threads: real threads under vcheck.sched's "
            "deterministic scheduler with the shared semaphore as the only yield points; the Coq scheduler model "
            "mirrors sched.py's pick rule; true parallelism / other synchronisation objects are not explored.",
    "technique": "Coq proof (induction on adapter stacks + invariants over histories) + model/implementation "
                 "correspondence in coqc + CLI samples",
    "ref": "6 C04",
}
RULE = ("histories over startTestRun / startTest / six outcome kinds / stopTest / stopTestRun / stop() on any node of "
        "the stack: exhaustive over a 7-letter alphabet to length 4 (quick) / 5 (thorough), random to length 40 with "
        "restarts, every outcome reported either with a details dict or the original way (exc_info / reason / "
        "nothing; exhaustive words in three renderings: mixed, all details, none); each through a stack (fixed list "
        "+ random to depth 4 over TestResult/TextTestResult(failfast?)/E2S leaves, ExtendedToOriginalDecorator over "
        "a foreign result (unittest.TestResult, doubles Python26/Python27/Extended/Twisted) and "
        "Multi/TFR/E2O/Decorator/Tagger) with failfast optionally assigned on the outermost object "
        "after wrapping; plus concurrent cases: a sequential prefix, then 2-4 threads each with its own "
        "ThreadsafeForwardingResult over one target (12 fixed targets or random) and one semaphore, programs over "
        "stop() / outcomes / startTestRun / stopTestRun (all pairs of programs of <= 2 calls over stop / bad / good "
        "outcome under 3 (quick) or 8 schedules, fixed stop-while-sibling-holds-the-semaphore scenarios, random to 4 "
        "calls per thread with random schedules); non-trivial = a bad outcome, plus failfast somewhere or a stop(), plus a second startTestRun "
        "or a stopTestRun; distinct = distinct JSON")
TRUSTED = ["the parser of TextTestResult's text (section headers, 'Ran N test(s)', OK / FAILED (failures=n)); "
           "elapsed time ignored"]
ASSUMPTIONS = ["a stack containing a TextTestResult or an ExtendedToStreamDecorator is driven with startTestRun "
               "first (TextTestResult.stopTestRun needs the start time; ExtendedToStreamDecorator starts itself "
               "lazily, which would reset shouldStop)",
               "failfast is assigned through constructors and on the outermost object only; MultiTestResult has at "
               "least one member",
               "concurrent cases: the shared semaphore's acquire and release are the only yield points (a non-blocking "
               "acquire is a yield point too and fails when the semaphore is held); each call is observed on the "
               "target when the calling adapter releases the semaphore, or at its return if it never did; the "
               "adapters of the threads have no failfast assigned (atomicity of the forwarded blocks is C12)",
               "a foreign result is always driven through an ExtendedToOriginalDecorator (explicit; MultiTestResult "
               "and ThreadsafeForwardingResult add their own on top); its shouldStop is read on the object itself "
               "where it has the attribute, else on that decorator"]
EXPLANATION = ("Theorems in coq/Props/C04.v; correspondence: wasSuccessful()/shouldStop of the outermost real object "
               "and shouldStop of every underlying result after every call, parsed TextTestResult summaries, against "
               "coq/Model/Result.v; exit status of python -m testtools.run on generated modules.")

OUTCOMES = ["addSuccess", "addError", "addFailure", "addSkip", "addExpectedFailure", "addUnexpectedSuccess"]
KINDS = ["KSuccess", "KError", "KFailure", "KSkip", "KXfail", "KUxsuccess"]
BAD = (1, 2, 5)
LABELS = {"ERROR": 0, "FAIL": 1, "UNEXPECTED SUCCESS": 2}

# foreign results put under an ExtendedToOriginalDecorator: unittest.TestResult and the doubles of
# testtools.testresult.doubles (2.6-style, 2.7-style, extended, Twisted-style reporter)
FLAVOURS = ["ut", "26", "27", "ext", "tw"]
CAP_FIELDS = ["fc_uxs", "fc_uxs_details", "fc_details", "fc_failfast", "fc_acts", "fc_stop", "fc_uxs_counts",
              "fc_resets"]
_CAPS = {}


def foreign_class(flavour):
    import unittest
    from testtools.testresult import doubles
    return {"ut": unittest.TestResult, "26": doubles.Python26TestResult, "27": doubles.Python27TestResult,
            "ext": doubles.ExtendedTestResult, "tw": doubles.TwistedTestResult}[flavour]


def _exc_info():
    try:
        raise RuntimeError("boom")
    except RuntimeError:
        return sys.exc_info()


def _accepts_details(method):
    import inspect
    try:
        return "details" in inspect.signature(method).parameters
    except (TypeError, ValueError):
        return False


def caps(flavour):
    """capability record of a foreign result class (Model.Result.fcaps), probed on the live class itself -
    never through ExtendedToOriginalDecorator"""
    if flavour not in _CAPS:
        from testtools import PlaceHolder
        cls = foreign_class(flavour)
        t = PlaceHolder("probe")
        obj = cls()
        has_uxs = hasattr(obj, "addUnexpectedSuccess")
        has_ff = hasattr(obj, "failfast")
        has_stop = hasattr(obj, "stop") and hasattr(obj, "shouldStop")
        acts = False
        if has_ff and has_stop:
            fired = []
            for m in ("addError", "addFailure") + (("addUnexpectedSuccess",) if has_uxs else ()):
                o = cls()
                o.failfast = True
                if m == "addUnexpectedSuccess":
                    o.addUnexpectedSuccess(t)
                else:
                    getattr(o, m)(t, _exc_info())
                fired.append(bool(o.shouldStop))
            if any(fired) != all(fired):
                raise AssertionError("foreign result %s acts on failfast in some outcome methods only" % flavour)
            acts = all(fired)
        uxs_counts = False
        if has_uxs:
            o = cls()
            o.addUnexpectedSuccess(t)
            uxs_counts = not o.wasSuccessful()
        resets = False
        if hasattr(obj, "startTestRun"):
            o = cls()
            o.addError(t, _exc_info())
            o.startTestRun()
            resets = bool(o.wasSuccessful())
        _CAPS[flavour] = [has_uxs, has_uxs and _accepts_details(obj.addUnexpectedSuccess),
                          _accepts_details(obj.addError) and _accepts_details(obj.addFailure), has_ff, acts,
                          has_stop, uxs_counts, resets]
    return _CAPS[flavour]


# ---------------- building real stacks ----------------
def build(tree, path, nodes, leaves):
    import threading
    from testtools.testresult import real
    k = tree[0]
    if k == "R":
        if tree[2]:
            stream = io.StringIO()
            r = real.TextTestResult(stream, failfast=tree[1])
        else:
            stream = None
            r = real.TestResult(failfast=tree[1])
        leaves.append((r, stream))
    elif k == "S":
        r = real.ExtendedToStreamDecorator(real.StreamResult())
        leaves.append((r, None))
    elif k == "X":
        raw = foreign_class(tree[1])()
        r = real.ExtendedToOriginalDecorator(raw)
        # shouldStop of the target itself where it has one, else what the decorator keeps for it
        leaves.append((raw if hasattr(raw, "shouldStop") else r, None))
    elif k == "M":
        r = real.MultiTestResult(*[build(c, path + (j,), nodes, leaves) for j, c in enumerate(tree[1])])
    elif k == "F":
        r = real.ThreadsafeForwardingResult(build(tree[1], path + (0,), nodes, leaves), threading.Semaphore(1))
    elif k == "O":
        r = real.ExtendedToOriginalDecorator(build(tree[1], path + (0,), nodes, leaves))
    elif k == "D":
        child = build(tree[2], path + (0,), nodes, leaves)
        r = real.Tagger(child, set(), set()) if tree[1] else real.TestResultDecorator(child)
    else:
        raise ValueError(k)
    nodes[path] = r
    return r


_SECTION = re.compile(r"^={70}\n(ERROR|FAIL|UNEXPECTED SUCCESS): t(\d+)\n-{70}\n", re.M)
_RAN = re.compile(r"^Ran (\d+) tests? in -?[0-9.]+s\n(OK|FAILED \(failures=(\d+)\))\n", re.M)


def parse_summary(text):
    """the structured record of one stopTestRun's output"""
    rans = _RAN.findall(text)
    if len(rans) != 1:
        raise ValueError("cannot parse summary: %r" % text[-300:])
    ran, verdict, n = rans[0]
    if (int(ran) == 1) != ("Ran %s test in" % ran in text):
        raise ValueError("plural wrong: %r" % text[-200:])
    return {"ran": int(ran), "failed": None if verdict == "OK" else int(n),
            "sections": [[LABELS[l], int(t)] for l, t in _SECTION.findall(text)]}


def with_details(op):
    """an outcome op is ["O", kind, test, details?]; without the flag (older replay files): details for
    addError / addFailure / addExpectedFailure, the original form otherwise"""
    return bool(op[3]) if len(op) > 3 else op[1] in (1, 2, 4)


def call_op(r, nodes, op, T, err):
    """one call of the history on the object r (stop() on the node the path names)"""
    from testtools.content import text_content
    k = op[0]
    if k == "R":
        r.startTestRun()
    elif k == "S":
        r.startTest(T(op[1]))
    elif k == "E":
        r.stopTest(T(op[1]))
    elif k == "O":
        m = OUTCOMES[op[1]]
        if with_details(op):
            if m == "addSkip":
                r.addSkip(T(op[2]), details={"reason": text_content("why")})
            else:
                getattr(r, m)(T(op[2]), details={"log": text_content("some log")})
        elif m in ("addError", "addFailure", "addExpectedFailure"):
            getattr(r, m)(T(op[2]), err)
        elif m == "addSkip":
            r.addSkip(T(op[2]), "why")
        else:
            getattr(r, m)(T(op[2]))
    elif k == "Q":
        r.stopTestRun()
    elif k == "X":
        (nodes[tuple(op[1])] if op[1] else r).stop()
    else:
        raise ValueError(op)


def drive_conc(case):
    """several ThreadsafeForwardingResults over one target with one semaphore, one per thread, the threads
    interleaved by the deterministic scheduler (vcheck.sched); the semaphore's acquire and release are the yield
    points.  Every call is observed once: when the adapter releases the semaphore during the call (the state of
    the target at the end of the critical section), else when the call returns."""
    import threading
    from testtools import PlaceHolder
    from testtools.testresult import real
    from .. import sched as S

    class Sem(S.SchedSemaphore):
        """SchedSemaphore that honours acquire(blocking=False) / acquire(timeout=...) (one attempt, still a
        yield point) and reports every release before it happens"""

        def acquire(self, blocking=True, timeout=None):
            if blocking and timeout is None:
                return S.SchedSemaphore.acquire(self)
            self.sched.park()
            if self.count > 0:
                self.count -= 1
                return True
            return False

        def release(self, n=1):
            on_release()
            S.SchedSemaphore.release(self, n)

    nodes, leaves = {}, []
    err = _exc_info()
    target = build(case["stack"][1], (0,), nodes, leaves)
    sch = S.Scheduler(case["sched"], step_timeout=8.0)
    sem = Sem(sch, 1)
    r0 = real.ThreadsafeForwardingResult(target, sem)
    nodes[()] = r0
    adapters = [real.ThreadsafeForwardingResult(target, sem) for _ in case["threads"]]
    tests = {}
    lock = threading.Lock()

    def T(t):
        with lock:
            if t not in tests:
                tests[t] = PlaceHolder("t%d" % t)
            return tests[t]
    ok, stop, leaf_stop, order = [], [], [], []
    sums = [[] for _ in leaves]
    last = [0 for _ in leaves]
    current = {}          # thread -> [op, observed?]

    def observe(tid):
        op = current[tid][0]
        current[tid][1] = True
        ok.append(bool(target.wasSuccessful()))
        stop.append(bool(target.shouldStop))
        leaf_stop.append([bool(l.shouldStop) for l, _ in leaves])
        for j, (_, stream) in enumerate(leaves):
            if stream is not None:
                text = stream.getvalue()
                if op[0] == "Q":
                    sums[j].append(parse_summary(text[last[j]:]))
                last[j] = len(text)
        if tid >= 0:
            order.append(tid)

    def on_release():
        tid = sch.current_tid()
        if tid in current and not current[tid][1]:
            observe(tid)

    def run_calls(tid, r, ops):
        for op in ops:
            current[tid] = [op, False]
            call_op(r, nodes, op, T, err)
            if not current[tid][1]:
                observe(tid)
        current.pop(tid, None)

    run_calls(-1, r0, case["hist"])           # harness thread: no scheduling
    tasks = [sch.spawn(lambda j=j: run_calls(j, adapters[j], case["threads"][j]), name="worker%d" % j)
             for j in range(len(case["threads"]))]
    sch.run()
    if sch.deadlock or sch.hung:
        raise RuntimeError("deadlock" if sch.deadlock else "hang")
    for t in tasks:
        if t.exc is not None:
            raise t.exc
    return {"ok": ok, "stop": stop, "leaf_stop": leaf_stop, "sums": sums, "order": order}


def drive(case):
    if case.get("threads") is not None:
        return drive_conc(case)
    from testtools import PlaceHolder
    from testtools.content import text_content
    nodes, leaves = {}, []
    err = _exc_info()
    r = build(case["stack"], (), nodes, leaves)
    if case["set"] is not None:
        r.failfast = case["set"]
    tests = {}

    def T(t):
        if t not in tests:
            tests[t] = PlaceHolder("t%d" % t)
        return tests[t]
    ok, stop, leaf_stop = [], [], []
    sums = [[] for _ in leaves]
    for op in case["hist"]:
        k = op[0]
        if k == "R":
            r.startTestRun()
        elif k == "S":
            r.startTest(T(op[1]))
        elif k == "E":
            r.stopTest(T(op[1]))
        elif k == "O":
            m = OUTCOMES[op[1]]
            if with_details(op):
                if m == "addSkip":
                    r.addSkip(T(op[2]), details={"reason": text_content("why")})
                else:
                    getattr(r, m)(T(op[2]), details={"log": text_content("some log")})
            elif m in ("addError", "addFailure", "addExpectedFailure"):
                getattr(r, m)(T(op[2]), err)
            elif m == "addSkip":
                r.addSkip(T(op[2]), "why")
            else:
                getattr(r, m)(T(op[2]))
        elif k == "Q":
            marks = [s.tell() if s is not None else 0 for _, s in leaves]
            r.stopTestRun()
            for j, (_, s) in enumerate(leaves):
                if s is not None:
                    s.seek(marks[j])
                    sums[j].append(parse_summary(s.read()))
        elif k == "X":
            nodes[tuple(op[1])].stop()
        else:
            raise ValueError(op)
        ok.append(bool(r.wasSuccessful()))
        stop.append(bool(r.shouldStop))
        leaf_stop.append([bool(l.shouldStop) for l, _ in leaves])
    return {"ok": ok, "stop": stop, "leaf_stop": leaf_stop, "sums": sums}


# ---------------- Gallina ----------------
def t_stack(t):
    k = t[0]
    if k == "R":
        return "(ATR %s %s)" % (q.boolean(t[1]), q.boolean(t[2]))
    if k == "S":
        return "AE2S"
    if k == "X":
        return "(AFor %s)" % q.record([(f, q.boolean(b)) for f, b in zip(CAP_FIELDS, caps(t[1]))])
    if k == "M":
        return "(AMulti %s)" % q.lst([t_stack(c) for c in t[1]])
    if k == "D":
        return "(ADeco %s %s)" % (q.boolean(t[1]), t_stack(t[2]))
    return "(%s %s)" % ({"F": "ATFR", "O": "AE2O"}[k], t_stack(t[1]))


def t_op(op):
    k = op[0]
    if k == "R":
        return "StartRun"
    if k == "Q":
        return "StopRun"
    if k == "S":
        return "StartTest %s" % q.nat(op[1])
    if k == "E":
        return "StopTest %s" % q.nat(op[1])
    if k == "O":
        return "Outcome %s %s %s" % (KINDS[op[1]], q.boolean(with_details(op)), q.nat(op[2]))
    if k == "X":
        return "StopAt %s" % q.lst([q.nat(j) for j in op[1]])
    raise ValueError(op)


def t_summary(s):
    return q.record([("s_ran", q.nat(s["ran"])), ("s_failed", q.option(s["failed"], q.nat)),
                     ("s_sections", q.lst([q.pair(q.nat(a), q.nat(b)) for a, b in s["sections"]]))])


def t_bools(l):
    return q.lst([q.boolean(b) for b in l])


def term(case, o):
    if case.get("threads") is not None:
        conc = "(Some (%s, %s))" % (q.lst([q.lst([t_op(op) for op in p]) for p in case["threads"]]),
                                   q.lst([q.nat(x) for x in case["sched"]]))
    else:
        conc = "None"
    i = q.record([("stack", t_stack(case["stack"])), ("set_after", q.option(case["set"], q.boolean)),
                  ("hist", q.lst([t_op(op) for op in case["hist"]])), ("conc", conc)])
    ob = q.record([("o_ok", t_bools(o["ok"])), ("o_stop", t_bools(o["stop"])),
                   ("o_leaf_stop", q.lst([t_bools(l) for l in o["leaf_stop"]])),
                   ("o_sums", q.lst([q.lst([t_summary(s) for s in l]) for l in o["sums"]])),
                   ("o_order", q.lst([q.nat(x) for x in o.get("order", [])]))])
    return q.pair(i, ob)


def perturb(case, o):
    o = dict(o)
    if o["ok"]:
        o["ok"] = o["ok"][:-1] + [not o["ok"][-1]]
    else:
        o["ok"] = [True]
    return o


# ---------------- generation ----------------
def R(ff=False, txt=False):
    return ["R", ff, txt]


def X(flavour):
    return ["X", flavour]


STACKS = [
    R(), R(True), R(False, True), R(True, True), ["S"],
    ["M", [R()]], ["M", [R(), R(False, True)]], ["M", [R(True), R()]], ["M", [["S"], R()]],
    ["F", R()], ["F", R(True)], ["F", R(True, True)], ["F", ["S"]],
    ["O", R()], ["O", R(True)], ["O", ["S"]], ["D", False, R()], ["D", True, R(True)], ["D", False, ["S"]],
    ["M", [["F", R()], ["O", R(False, True)]]], ["M", [["F", R(True)], R()]], ["M", [["D", False, R(True)], ["S"]]],
    ["F", ["M", [R(), R(False, True)]]], ["O", ["F", R()]], ["O", ["D", False, ["M", [R(), R()]]]],
    ["D", False, ["M", [R(), ["F", R()]]]], ["F", ["F", R(False, True)]], ["M", [["M", [R(), R()]], R()]],
    ["O", ["O", R(True)]], ["M", [["F", ["M", [R(), R(False, True)]]], ["D", True, ["O", R()]]]],
    ["F", ["D", False, ["O", R(True, True)]]], ["M", [["O", ["S"]], ["F", ["S"]]]],
    # ExtendedToOriginalDecorator over foreign results, alone and inside stacks
    X("ut"), X("26"), X("27"), X("ext"), X("tw"), ["O", X("ext")], ["M", [X("ext"), R()]], ["M", [X("26"), X("tw")]],
    ["F", X("ext")], ["F", X("ut")], ["D", False, X("ext")], ["D", True, X("27")],
    ["M", [["F", X("tw")], ["O", X("27")]]],
]


def needs_start(stack):
    s = json.dumps(stack)
    return '"S"' in s or re.search(r'\["R", (true|false), true\]', s) is not None


def paths(t, pre=()):
    out = [list(pre)]
    k = t[0]
    if k == "M":
        for j, c in enumerate(t[1]):
            out += paths(c, pre + (j,))
    elif k in "FO":
        out += paths(t[1], pre + (0,))
    elif k == "D":
        out += paths(t[2], pre + (0,))
    return out


def rand_stack(rng, d):
    if d == 0 or rng.random() < 0.3:
        x = rng.random()
        if x < 0.15:
            return ["S"]
        if x < 0.45:
            return X(rng.choice(FLAVOURS))
        return R(rng.random() < 0.3, rng.random() < 0.4)
    k = rng.choice("MMFFOD")
    if k == "M":
        return ["M", [rand_stack(rng, d - 1) for _ in range(rng.choice([1, 2, 2, 3]))]]
    if k == "D":
        return ["D", rng.random() < 0.5, rand_stack(rng, d - 1)]
    return [k, rand_stack(rng, d - 1)]


def rand_hist(rng, n, stack):
    ps = paths(stack)
    h = []
    t = 0
    sloppy = rng.random() < 0.15
    p_bad = rng.choice([0.1, 0.3, 0.6])
    p_stop = rng.choice([0.0, 0.03, 0.1])
    p_det = rng.choice([0.0, 0.5, 0.5, 1.0])       # how outcomes are reported: exc_info / reason, or details=
    while len(h) < n:
        x = rng.random()
        if x < 0.08:
            h.append(["R"])
        elif x < 0.14:
            h.append(["Q"])
        elif x < 0.14 + p_stop:
            h.append(["X", rng.choice(ps)])
        elif sloppy and x < 0.35:
            h.append(rng.choice([["S", t], ["E", t], ["O", rng.randrange(6), t, rng.random() < 0.5],
                                 ["O", rng.choice(BAD), t + 1, rng.random() < 0.5]]))
        else:
            t += 1
            k = rng.choice(BAD) if rng.random() < p_bad else rng.choice([0, 0, 3, 4])
            d = rng.random() < p_det
            if rng.random() < 0.1:
                h += [["O", k, t, d], ["E", t]]          # startTest-less
            elif rng.random() < 0.08:
                h += [["S", t], ["E", t]]             # no outcome
            else:
                h += [["S", t], ["O", k, t, d], ["E", t]]
    return h[:n]


ALPHA = [["R"], ["S", 1], ["O", 1, 1], ["O", 0, 1], ["O", 5, 1], ["Q"], ["X", []]]


def fix(stack, hist):
    return ([["R"]] + hist) if needs_start(stack) and hist[:1] != [["R"]] else hist


def reported(hist, mode):
    """the same calls with every outcome reported the given way: 0 as written, 1 with details=, 2 without"""
    if mode == 0:
        return hist
    return [op[:3] + [mode == 1] if op[0] == "O" else op for op in hist]


def generate(rng, tier):
    cases = []
    t1 = [["S", 1], ["O", 1, 1], ["E", 1]]
    fixed_h = [
        [["R"]] + t1 + [["S", 2], ["O", 0, 2], ["E", 2], ["Q"]],
        [["R"], ["S", 1], ["O", 0, 1], ["E", 1], ["S", 2], ["O", 5, 2], ["E", 2], ["S", 3], ["O", 2, 3], ["E", 3], ["Q"],
         ["R"], ["S", 4], ["O", 3, 4], ["E", 4], ["Q"]],
        [["R"], ["X", []], ["R"]] + t1 + [["Q"], ["Q"]],
        t1 + [["R"]] + [["S", 2], ["O", 4, 2], ["E", 2]],
        [["R"], ["O", 3, 1], ["E", 1], ["O", 2, 2], ["Q"]],
        [],
        # every outcome reported with a details dict, the way testtools.TestCase does; the first problem is an
        # unexpected success
        [["R"], ["S", 1], ["O", 4, 1, True], ["E", 1], ["S", 2], ["O", 3, 2, True], ["E", 2], ["S", 3], ["O", 5, 3, True],
         ["E", 3], ["S", 4], ["O", 0, 4, True], ["E", 4], ["Q"]],
        # ... and everything the original way
        [["S", 1], ["O", 4, 1, False], ["E", 1], ["S", 2], ["O", 5, 2, False], ["E", 2], ["R"], ["S", 3],
         ["O", 1, 3, False], ["E", 3]],
    ]
    for h in fixed_h:
        for s in STACKS:
            for st in (None, True, False):
                cases.append({"stack": s, "set": st, "hist": fix(s, h)})
    maxlen = 4 if tier == "quick" else 5
    k = 0
    for n in range(1, maxlen + 1):
        for w in itertools.product(ALPHA, repeat=n):
            s = STACKS[k % len(STACKS)]
            st = (None, True, None, False, True)[(k // len(STACKS)) % 5]
            mode = (k // 3) % 3
            k += 1
            cases.append({"stack": s, "set": st, "hist": fix(s, reported([list(x) for x in w], mode))})
    n_rand = 1700 if tier == "quick" else 60000
    for _ in range(n_rand):
        s = rng.choice(STACKS) if rng.random() < 0.4 else rand_stack(rng, rng.choice([1, 2, 3, 4]))
        st = rng.choice([None, None, True, True, False])
        h = rand_hist(rng, rng.choice([4, 8, 12, 20, 30, 40]), s)
        cases.append({"stack": s, "set": st, "hist": fix(s, h)})
    cases += generate_conc(rng, tier)
    return cases


# ---------------- several adapters over one target, one thread each ----------------
CONC_TARGETS = [R(), R(True), R(False, True), R(True, True), ["S"], X("ext"), X("26"), X("tw"),
                ["M", [R(), R(False, True)]], ["O", R()], ["D", False, R(True)], ["M", [X("ut"), ["S"]]]]
CONC_SCHEDS = [[], [1], [0, 1], [1, 0, 0], [0, 1, 1, 0], [1, 1, 0], [0, 0, 1, 1], [1, 0, 1, 0, 1]]


def conc_case(target, threads, sched, prefix=()):
    s = ["F", target]
    return {"stack": s, "set": None, "hist": fix(s, [list(op) for op in prefix]),
            "threads": [[list(op) for op in p] for p in threads], "sched": list(sched)}


def conc_programs(maxlen):
    """all programs of 1..maxlen calls over stop() / a bad outcome / a good outcome"""
    alpha = [("X",), ("B",), ("G",)]
    out = []
    for n in range(1, maxlen + 1):
        out += [list(w) for w in itertools.product(alpha, repeat=n)]
    return out


def conc_instantiate(j, prog, k):
    """the calls of thread j; k varies the kind of outcome and the way it is reported"""
    ops = []
    for n, (c,) in enumerate(prog):
        t = 10 * (j + 1) + n
        if c == "X":
            ops.append(["X", []])
        elif c == "B":
            ops.append(["O", BAD[(k + j + n) % 3], t, (k + n) % 2 == 0])
        else:
            ops.append(["O", (0, 3, 4)[(k + j + n) % 3], t, (k + j) % 2 == 0])
    return ops


def rand_conc_ops(rng, j, n):
    ops = []
    for m in range(n):
        x = rng.random()
        t = 10 * (j + 1) + m
        if x < 0.22:
            ops.append(["X", []])
        elif x < 0.30:
            ops.append(["R"])
        elif x < 0.38:
            ops.append(["Q"])
        elif x < 0.65:
            ops.append(["O", rng.choice(BAD), t, rng.random() < 0.5])
        else:
            ops.append(["O", rng.choice([0, 0, 3, 4]), t, rng.random() < 0.5])
    return ops


def generate_conc(rng, tier):
    cases = []
    # fixed: stop() on one adapter while its sibling is inside the target / between two tests / before anything
    b1, g1, g2 = ["O", 2, 11, True], ["O", 0, 11, True], ["O", 0, 12, False]
    for tg in CONC_TARGETS:
        for sc in ([], [0, 1], [0, 1, 1], [1, 0, 0, 0], [0, 1, 0, 1, 0]):
            cases.append(conc_case(tg, [[g1, g2], [["X", []]]], sc))
            cases.append(conc_case(tg, [[b1, g2, ["Q"]], [["O", 0, 21, True], ["X", []]]], sc, prefix=[["R"]]))
        cases.append(conc_case(tg, [[["X", []]], [["R"]], [g1]], [2, 1, 0, 0]))
        cases.append(conc_case(tg, [[], [["X", []]]], [1]))
    # two threads, every pair of programs over stop / bad outcome / good outcome, under several schedules
    progs = conc_programs(2)
    k = 0
    for p0 in progs:
        for p1 in progs:
            scheds = CONC_SCHEDS if tier != "quick" else [CONC_SCHEDS[(k + d) % len(CONC_SCHEDS)] for d in (0, 3, 5)]
            for sc in scheds:
                tg = CONC_TARGETS[k % len(CONC_TARGETS)]
                cases.append(conc_case(tg, [conc_instantiate(0, p0, k), conc_instantiate(1, p1, k)], sc))
                k += 1
    for _ in range(300 if tier == "quick" else 12000):
        tg = rng.choice(CONC_TARGETS) if rng.random() < 0.6 else rand_stack(rng, rng.choice([1, 2]))
        n = rng.choice([2, 2, 2, 3, 3, 4])
        threads = [rand_conc_ops(rng, j, rng.choice([0, 1, 2, 2, 3, 4])) for j in range(n)]
        total = sum(len(p) for p in threads)
        sc = [rng.randrange(n) for _ in range(rng.randint(0, 2 * total + 2))]
        prefix = rand_hist(rng, rng.choice([0, 0, 3, 6]), ["F", tg])
        cases.append(conc_case(tg, threads, sc, prefix=prefix))
    return cases


def nontrivial(case):
    if case.get("threads") is not None:
        # a stop() or a bad outcome from one thread and calls from another
        busy = [p for p in case["threads"] if p]
        return len(busy) >= 2 and any(op[0] == "X" or (op[0] == "O" and op[1] in BAD) for p in busy for op in p)
    h = case["hist"]
    bad = any(op[0] == "O" and op[1] in BAD for op in h)
    ff = case["set"] is not None or '"R", true' in json.dumps(case["stack"])
    stopped = any(op[0] == "X" for op in h)
    runs = sum(1 for op in h if op[0] == "R") >= 2 or any(op[0] == "Q" for op in h)
    return bad and (ff or stopped) and runs


def _sub_stacks(t):
    k = t[0]
    if k == "R":
        if t[2]:
            yield R(t[1], False)
        if t[1]:
            yield R(False, t[2])
        return
    if k == "S":
        yield R()
        return
    if k == "X":
        yield R()
        if t[1] != "ext":
            yield X("ext")
        return
    if k == "M":
        for c in t[1]:
            yield c
        for i in range(len(t[1])):
            if len(t[1]) > 1:
                yield ["M", t[1][:i] + t[1][i + 1:]]
        for i, c in enumerate(t[1]):
            for s in _sub_stacks(c):
                yield ["M", t[1][:i] + [s] + t[1][i + 1:]]
        return
    yield t[-1]
    for s in _sub_stacks(t[-1]):
        yield t[:-1] + [s]


def shrink_conc(case):
    th, sc, tg = case["threads"], case["sched"], case["stack"][1]
    pre = [op for op in case["hist"]]
    for j in range(len(th)):
        if len(th) > 1:
            yield conc_case(tg, th[:j] + th[j + 1:], [x for x in sc if x < len(th) - 1], prefix=pre)
        for n in range(len(th[j])):
            yield conc_case(tg, th[:j] + [th[j][:n] + th[j][n + 1:]] + th[j + 1:], sc, prefix=pre)
    for n in range(len(sc)):
        yield conc_case(tg, th, sc[:n] + sc[n + 1:], prefix=pre)
    for n in range(len(pre)):
        yield conc_case(tg, th, sc, prefix=pre[:n] + pre[n + 1:])
    for t2 in _sub_stacks(tg):
        if not any(op[0] == "X" and op[1] for op in pre):
            yield conc_case(t2, th, sc, prefix=pre)
    for j in range(len(th)):
        for n, op in enumerate(th[j]):
            if op[0] == "O" and op[1] not in (0, 1):
                op2 = ["O", 1 if op[1] in BAD else 0, op[2], with_details(op)]
                yield conc_case(tg, th[:j] + [th[j][:n] + [op2] + th[j][n + 1:]] + th[j + 1:], sc, prefix=pre)


def shrink(case):
    if case.get("threads") is not None:
        for c in shrink_conc(case):
            yield c
        return
    h, s, st = case["hist"], case["stack"], case["set"]
    for i in range(len(h)):
        h2 = h[:i] + h[i + 1:]
        if needs_start(s) and h2[:1] != [["R"]]:
            continue
        yield {"stack": s, "set": st, "hist": h2}
    valid = None
    for s2 in _sub_stacks(s):
        ps = paths(s2)
        h2 = [op if op[0] != "X" or op[1] in ps else ["X", []] for op in h]
        yield {"stack": s2, "set": st, "hist": fix(s2, h2)}
    if st is not None:
        yield {"stack": s, "set": None, "hist": h}
    for i, op in enumerate(h):
        if op[0] == "X" and op[1]:
            yield {"stack": s, "set": st, "hist": h[:i] + [["X", op[1][:-1]]] + h[i + 1:]}
        if op[0] == "O" and op[1] not in (0, 1):
            yield {"stack": s, "set": st,
                   "hist": h[:i] + [["O", 1 if op[1] in BAD else 0, op[2], with_details(op)]] + h[i + 1:]}
        if op[0] == "O" and with_details(op):
            yield {"stack": s, "set": st, "hist": h[:i] + [["O", op[1], op[2], False]] + h[i + 1:]}


def distribution(cases):
    d = {"hist_len": {}, "stack_kinds": {}, "foreign_flavours": {}, "set_after": {"none": 0, "true": 0, "false": 0},
         "with_stop": 0, "with_bad_outcome": 0, "bad_outcome_with_details": 0, "bad_outcome_without_details": 0,
         "uxsuccess_with_details_on_foreign": 0, "restarts": 0, "ctor_failfast": 0, "nontrivial": 0,
         "concurrent": {"cases": 0, "threads": {}, "calls": {}, "schedule_len": {}, "stop_from_a_thread": 0,
                        "with_prefix": 0}}
    for c in cases:
        if c.get("threads") is not None:
            cc = d["concurrent"]
            cc["cases"] += 1
            for key, val in (("threads", len(c["threads"])), ("calls", sum(len(p) for p in c["threads"])),
                             ("schedule_len", len(c["sched"]))):
                cc[key][str(val)] = cc[key].get(str(val), 0) + 1
            cc["stop_from_a_thread"] += any(op[0] == "X" for p in c["threads"] for op in p)
            cc["with_prefix"] += bool(c["hist"])
        n = len(c["hist"])
        b = "0-4" if n <= 4 else "5-10" if n <= 10 else "11-25" if n <= 25 else "26+"
        d["hist_len"][b] = d["hist_len"].get(b, 0) + 1
        s = json.dumps(c["stack"])
        for k, nm in (("M", "Multi"), ("D", "Decorator/Tagger"), ("O", "E2O"), ("F", "TFR"), ("S", "E2S"),
                      ("X", "E2O over foreign result")):
            if '"%s"' % k in s:
                d["stack_kinds"][nm] = d["stack_kinds"].get(nm, 0) + 1
        for fl in FLAVOURS:
            if '["X", "%s"]' % fl in s:
                d["foreign_flavours"][fl] = d["foreign_flavours"].get(fl, 0) + 1
        bad_ops = [op for op in c["hist"] if op[0] == "O" and op[1] in BAD]
        d["bad_outcome_with_details"] += any(with_details(op) for op in bad_ops)
        d["bad_outcome_without_details"] += any(not with_details(op) for op in bad_ops)
        d["uxsuccess_with_details_on_foreign"] += ('"X"' in s and any(op[1] == 5 and with_details(op) for op in bad_ops))
        if re.search(r'\["R", (true|false), true\]', s):
            d["stack_kinds"]["TextTestResult"] = d["stack_kinds"].get("TextTestResult", 0) + 1
        d["set_after"]["none" if c["set"] is None else "true" if c["set"] else "false"] += 1
        d["with_stop"] += any(op[0] == "X" for op in c["hist"])
        d["with_bad_outcome"] += any(op[0] == "O" and op[1] in BAD for op in c["hist"])
        d["restarts"] += sum(1 for op in c["hist"] if op[0] == "R") >= 2
        d["ctor_failfast"] += '"R", true' in s
        d["nontrivial"] += nontrivial(c)
    return d


# ---------------- command-line glue samples: exit status of python -m testtools.run ----------------
MODULE = '''
import unittest, testtools
from testtools.testsuite import ConcurrentTestSuite, iterate_tests
KINDS = %r
SUITE = %r
def mk(i, spec):
    style, _, kind = spec.rpartition(":")
    base = testtools.TestCase if style in ("", "tt") else unittest.TestCase
    class T(base):
        def id(self): return "t%%03d" %% i
        def test_x(self):
            if kind in ("fail", "xfail"): self.fail("boom")
            if kind == "error": raise RuntimeError("boom")
            if kind == "skip": self.skipTest("why")
    if kind in ("xfail", "uxsuccess"):
        T.test_x = unittest.expectedFailure(T.test_x)
    if style == "deco":                      # skipped by a decorator on the method
        T.test_x = unittest.skip("why")(T.test_x)
    if style == "cls":                       # the whole class skipped by a decorator
        T = unittest.skip("whole class")(T)
    if style == "clserr":                    # setUpClass fails: an error is reported, no test is started
        T.setUpClass = classmethod(lambda cls: 1 // 0)
    return T("test_x")
class NoneSuite(unittest.TestSuite):
    \"\"\"like FixtureSuite: run() does not return the result\"\"\"
    def run(self, result):
        super().run(result)
def test_suite():
    tests = [mk(i, k) for i, k in enumerate(KINDS)]
    if SUITE == "plain":
        return unittest.TestSuite(tests)
    if SUITE == "none":
        return NoneSuite(tests)
    return ConcurrentTestSuite(unittest.TestSuite(tests), lambda s: list(iterate_tests(s)))
'''
# TestProgram.runTests with the suite handed to the runner as it is (a loader that does not wrap the loaded suite
# in another TestSuite): exit status = not runner.run(suite).wasSuccessful()
DIRECT = '''
import sys, unittest
from testtools.run import TestProgram
class Loader(unittest.TestLoader):
    def loadTestsFromNames(self, names, module=None):
        return self.loadTestsFromName(names[0], module)
TestProgram(module=None, argv=["prog"] + %r + ["vc04mod.test_suite"], testLoader=Loader(), stdout=sys.stdout)
'''
GLUE_KINDS = ["pass", "fail", "error", "skip", "xfail", "uxsuccess"]
GLUE_BAD = ("fail", "error", "uxsuccess")
# other ways a test can be written / not run: a unittest.TestCase whose outcome arises at run time (ut:), skipped by
# a decorator on the method (deco:skip) or on the class (cls:skip) - on Python >= 3.12.1 such skips are reported
# without startTest, so testsRun does not count them -, a class whose setUpClass fails (clserr:error: an error is
# reported though no test is started; only suites that run class fixtures, i.e. not ConcurrentTestSuite)
GLUE_STYLED = ["ut:pass", "ut:fail", "ut:error", "ut:skip", "deco:skip", "cls:skip", "clserr:error"]


def glue_kind(spec):
    return spec.rpartition(":")[2]


def glue_expect(kinds, suite, selected=None):
    """(number of problems, least and greatest number of tests the summary may count) for the tests that are
    selected (all, or those whose id is in the --load-list file)"""
    nbad = lo = hi = 0
    for i, spec in enumerate(kinds):
        if selected is not None and "t%03d" % i not in selected:
            continue
        style = spec.rpartition(":")[0]
        if style == "clserr" and suite == "concurrent":
            style = "ut"                      # class fixtures are not run: the test method itself runs
        nbad += glue_kind(spec) in GLUE_BAD
        if style in ("deco", "cls"):
            hi += 1                           # counted or not: depends on the Python version
        elif style != "clserr":
            lo += 1
            hi += 1
    return nbad, lo, hi


def selection_runs(tier, rng):
    """runs in which few or no tests are started: nothing loaded, a --load-list that selects nothing / only the
    failing / only the passing test, whole classes or methods skipped by decorator, everything skipped at run
    time, a failing setUpClass with and without other tests - for both verdicts"""
    runs = [
        ([], "plain", None), ([], "concurrent", None), ([], "none", None),
        (["pass", "fail"], "plain", []), (["ut:pass", "error", "uxsuccess"], "none", ["nothing.matches"]),
        (["pass", "fail"], "plain", ["t001"]), (["pass", "fail", "skip"], "plain", ["t000", "t002"]),
        (["cls:skip"], "plain", None), (["cls:skip", "cls:skip", "deco:skip"], "concurrent", None),
        (["deco:skip"], "none", None), (["ut:skip", "skip", "skip"], "plain", None),
        (["clserr:error"], "plain", None), (["clserr:error"], "none", None),
        (["cls:skip", "fail"], "plain", None), (["deco:skip", "clserr:error", "cls:skip"], "plain", None),
        (["cls:skip", "clserr:error", "pass"], "plain", ["t000"]),
    ]
    for _ in range(0 if tier == "quick" else 40):
        kinds = [rng.choice(GLUE_STYLED + ["pass", "skip", "fail"] if rng.random() < 0.7 else
                            ["cls:skip", "deco:skip", "skip"]) for _ in range(rng.randint(0, 5))]
        suite = rng.choice(["plain", "plain", "none", "concurrent"])
        sel = None
        if suite != "concurrent" and rng.random() < 0.4:
            sel = ["t%03d" % i for i in range(len(kinds)) if rng.random() < 0.4]
        runs.append((kinds, suite, sel))
    return runs


def big_runs(tier, rng):
    """runs whose number of problems is around a multiple of 256: the operating system reports sys.exit's
    argument modulo 256, so a status that grows with the number of problems would read 0 (success) there"""
    def mix(total, rng):
        e = rng.randint(1, 9)
        u = rng.randint(1, 5)
        kinds = ["error"] * e + ["uxsuccess"] * u + ["fail"] * (total - e - u)
        kinds += ["pass"] * rng.randint(0, 3) + ["skip", "xfail"]
        rng.shuffle(kinds)
        return kinds
    runs = [["fail"] * 256, mix(256, rng), mix(255, rng), mix(257, rng), mix(128, rng)]
    if tier != "quick":
        runs += [["error"] * 256, ["uxsuccess"] * 256, mix(512, rng), mix(511, rng), mix(513, rng), mix(768, rng),
                 ["pass"] * 256]
    return runs


def extra_checks(tier, rng):
    n = 12 if tier == "quick" else 60
    samples = []                                  # (kinds, suite, through TestProgram?, --load-list ids or None)
    for k in range(n):
        suite = ("plain", "concurrent", "none")[k % 3]
        if k < 3:
            kinds = ["pass", "skip", "xfail"]          # all good: exit 0 also for suites whose run() returns None (F17)
        elif k < 9:
            kinds = ["pass", ("fail", "error", "uxsuccess", "fail", "uxsuccess", "error")[k - 3]]
        else:
            kinds = [rng.choice(GLUE_KINDS if rng.random() < 0.6 else ["pass", "skip", "xfail"])
                     for _ in range(rng.randint(0, 6))]
        samples.append((kinds, suite, (k // 3) % 2 == 0, None))
    for k, kinds in enumerate(big_runs(tier, rng)):
        samples.append((kinds, ("plain", "concurrent")[k % 2], k % 2 == 1, None))
    for k, (kinds, suite, sel) in enumerate(selection_runs(tier, rng)):
        samples.append((kinds, suite, k % 2 == 1, sel))
    out = []
    repo = os.environ.get("VERIF_REPO", "/repo")
    root = os.path.dirname(os.path.dirname(os.path.dirname(os.path.dirname(os.path.abspath(__file__)))))
    os.makedirs(os.path.join(root, ".work"), exist_ok=True)
    for kinds, suite, direct, sel in samples:
        nbad, lo, hi = glue_expect(kinds, suite, None if sel is None else set(sel))
        d = tempfile.mkdtemp(prefix="c04cli", dir=os.path.join(root, ".work"))
        try:
            with open(os.path.join(d, "vc04mod.py"), "w") as f:
                f.write(MODULE % (kinds, suite))
            args = []
            if sel is not None:
                with open(os.path.join(d, "ids.txt"), "w") as f:
                    f.write("".join(x + "\n" for x in sel))
                args = ["--load-list", "ids.txt"]
            env = dict(os.environ, PYTHONPATH=repo + os.pathsep + d)
            if direct:
                with open(os.path.join(d, "vc04direct.py"), "w") as f:
                    f.write(DIRECT % (args,))
                cmd = [sys.executable, "vc04direct.py"]
            else:
                cmd = [sys.executable, "-m", "testtools.run"] + args + ["vc04mod.test_suite"]
            p = subprocess.run(cmd, capture_output=True, text=True, env=env, cwd=d, timeout=120)
            m = _RAN.search(p.stdout)
            want_rc = 1 if nbad else 0        # what the current run.py gives (Model.Result.exit_status)
            # the statement: the status the operating system reports agrees with the verdict - 0 exactly for a
            # successful run, however many tests were started, also none (a negative returncode = killed by a
            # signal never agrees)
            agrees = (p.returncode == 0) == (nbad == 0) and p.returncode >= 0
            ok = (agrees and m is not None and lo <= int(m.group(1)) <= hi
                  and ((m.group(2) == "OK") == (nbad == 0)) and (nbad == 0 or int(m.group(3)) == nbad))
            shown = kinds if len(kinds) <= 12 else dict((x, kinds.count(x)) for x in sorted(set(kinds)))
            out.append({"ok": ok, "suite": suite, "how": "TestProgram, suite passed as loaded" if direct else
                        "python -m testtools.run", "kinds": shown, "load_list": sel, "problems": nbad,
                        "tests_counted": [lo, hi],
                        "exit_status": p.returncode, "expected": "0" if nbad == 0 else "not 0",
                        "as_the_model": p.returncode == want_rc,
                        "summary": m.group(0) if m else None, "stderr": p.stderr[-300:]})
        finally:
            import shutil
            shutil.rmtree(d, ignore_errors=True)
    return out
