"""C03 - reported outcome is sound; failures never masked (runtest.py, testcase.py)."""
from .. import coqio as q
from . import runprog as R

PROP = "C03"
CORR = "Corr.C03"
REQUIRES = ["Gen.Handlers", "Model.Run", "Spec.Run", "Spec.C03"]
PROOF_FILES = ["Proof/RunCore.v", "Proof/RunExtra.v", "Proof/RunTable.v", "Proof/RunVerdict.v", "Proof/C03.v"]
MANIFEST = {
    "text": "Coq theorems over all finite test programs (ordered combinations of exception kinds across setUp, test, "
            "tearDown and nested cleanups, MultipleExceptions, custom classes with user-inserted handlers also for "
            "non-Exception classes, subclasses of the signal exceptions, expectThat/force_failure, decorators) about a "
            "hand-written Gallina model of RunTest._run_prepared_result/_run_core and TestCase's handler table "
            "(regenerated from the live code): success is reported only if nothing was raised and no failure is "
            "forced; a single exception is reported through the first handler in list order that claims it, inserted "
            "handlers first; a failure or error is never downgraded - proved outside the delimited known finding F2 "
            "(last exception wins) and refuted inside it by a computed witness. Tied to /repo on every run by "
            "differential execution of model and implementation inside coqc; the oracle is the executable statement "
            "spec_okb, proved to imply the readable Spec.",
    "note": "Trusted: Coq kernel + vm_compute; the harness (generator, driver building real TestCase subclasses, "
            "Gallina printer). The outcome is observed on a logging subclass of testtools.TestResult together with its "
            "wasSuccessful(). Known finding F2 is delimited by Spec.C03.finding_F2. All theorems closed under the "
            "global context.",
    "technique": "Coq proof (case analysis on the exceptions collected, invariants over a fuelled stack machine) + "
                 "model/implementation correspondence in coqc",
    "ref": "6 C03",
}
RULE = ("programs as in C01 plus handlers inserted at the front of exception_handlers for custom Exception/"
        "BaseException subclasses, KeyboardInterrupt, an AssertionError subclass, SetupError, before the run or by a "
        "statement while it runs; exhaustive: all ordered "
        "pairs and triples of 29 behaviours over (test, tearDown, cleanup) and (setUp-registered cleanup, setUp); "
        "non-trivial = at least 2 raising statements or an inserted handler that claims a raised exception; "
        "distinct = distinct JSON; 500 (quick) / 12 000 (thorough) of the cases again on a test case configured with a RunTest factory of its own (run_tests_with / runTest= / @run_test_with x subclasses, functions, partial, callable objects, old-API factories); plus @unittest.expectedFailure tests whose body ends in every behaviour with later stages raising, force_failure set on the failed-setUp path, fixtures with an unevaluable detail")
TRUSTED = ["a logging subclass of testtools.TestResult is the observation device (outcome calls, wasSuccessful())"]
ASSUMPTIONS = ["the result object and addOnException handlers do not raise",
               "configured RunTest factories: the Gallina input has no configuration; cases on a test case with a factory of "
               "its own (incl. factories of the API before last_resort) are judged as the same program under the default "
               "RunTest (C03_factory_irrelevant)",
               "user-inserted handlers report exactly one outcome to the result, and not a success",
               "fixtures raise single exceptions; new-style _setUp and fixture cleanups raise Exception-derived ones"]
EXPLANATION = ("Theorems in coq/Props/C03.v over all programs; correspondence: TestCase.run of a generated "
               "testtools.TestCase subclass against a logging testtools.TestResult, compared with coq/Model/Run.v on "
               "the outcome kind and wasSuccessful().")

FEATS = frozenset(["fixture", "details", "onexc"])
FEATS_INS = frozenset(["insert", "insert-any", "fixture"])   # handlers (any class) inserted while the test runs


def drive(case):
    o = R.run_program(case["prog"], "FTestResult", runner=case.get("runner"))[0]
    return {"outs": [e[1] for e in o["trace"] if e[0] == "out"], "ok": o["ok"]}


def term(case, o):
    i = q.record([("i_prog", R.t_prog(case["prog"]))])
    return q.pair(i, q.record([("o_outs", q.lst([R.COQ_OUT[k] for k in o["outs"]])), ("o_ok", q.boolean(o["ok"]))]))


def perturb(case, o):
    return {"outs": list(o["outs"]), "ok": not o["ok"]}


def nontrivial(case):
    p = case["prog"]
    return (len(R.raising_acts(p)) >= 2 or bool(p["handlers"])
            or any(a[0] == "inserthandler" for a in R.all_acts(p)))


HANDLER_SETS = [
    [],
    [(R.CUSTOM, "skip")],
    [(R.CUSTOM, "failure"), (R.CUSTOMBASE, "error")],
    [(R.CUSTOMSUB, "skip"), (R.CUSTOM, "xfail")],
    [(R.CUSTOM, "uxsuccess"), ("Kbd", "skip")],
    [(R.SUBFAIL, "skip"), (R.CUSTOMBASE, "skip")],
]


def generate(rng, tier):
    import itertools
    E, M = R.E, R.M
    cases = []
    fixed = [
        # the witness of F2 and its relatives
        R.mkprog(setup=[["cleanup", 10, [["raise", E("Skip", 1)]]]], body=[["raise", E("Fail", 1)]]),
        R.mkprog(body=[["raise", E("Fail")]], teardown=[["raise", E("Skip", 1)]]),
        R.mkprog(body=[["raise", E("ValueError")]], teardown=[["xfailcall", 1, E("Fail")]]),
        R.mkprog(body=[["raise", E("ValueError")]], teardown=[["raise", E(R.CUSTOM)]], handlers=[(R.CUSTOM, "skip")]),
        R.mkprog(body=[["raise", M(E("Fail"), E("Skip", 1))]]),
        R.mkprog(body=[["raise", E("Skip", 1)]], teardown=[["raise", E("Fail")]]),
        R.mkprog(body=[["expect", []]], teardown=[["raise", E("Skip", 1)]]),
        R.mkprog(body=[["raise", E("Kbd")]], teardown=[["raise", E("Skip", 1)]]),
        R.mkprog(body=[["raise", E("Kbd")]], handlers=[("Kbd", "skip")]),
        R.mkprog(body=[["raise", E(R.SUBKBD)]], teardown=[["raise", E("ValueError")]], handlers=[("Kbd", "skip")]),
        R.mkprog(xfail=True, body=[["raise", E("Skip", 1)]]),
        R.mkprog(xfail=True, body=[]),
        R.mkprog(body=[["raise", E(R.CUSTOMSUB)]], handlers=[(R.CUSTOMSUB, "uxsuccess"), (R.CUSTOM, "failure")]),
        R.mkprog(body=[["raise", E(R.CUSTOMSUB)]], handlers=[(R.CUSTOM, "failure"), (R.CUSTOMSUB, "uxsuccess")]),
        # handlers inserted while the test runs: the latest insertion is consulted first, also when it is
        # made after the exception was caught
        R.mkprog(body=[["inserthandler", R.CUSTOM, "skip"], ["inserthandler", R.CUSTOMSUB, "failure"],
                       ["raise", E(R.CUSTOMSUB)]]),
        R.mkprog(setup=[["cleanup", 10, [["inserthandler", "ValueError", "xfail"]]]], body=[["raise", E("ValueError")]]),
        R.mkprog(body=[["raise", E("Kbd")]], teardown=[["inserthandler", "BaseException", "uxsuccess"]]),
        R.mkprog(body=[["inserthandler", "Kbd", "skip"], ["raise", E("Kbd")]], teardown=[["raise", E("Fail")]],
                 handlers=[("Kbd", "failure")]),
    ]
    cases += [{"prog": p} for p in fixed]
    # force_failure set in setUp / in a cleanup, setUp ending in every behaviour (fix 889980a, F21)
    for k, (p, _) in enumerate(R.setup_force_programs()):
        cases.append({"prog": dict(p, handlers=[list(h) for h in HANDLER_SETS[k % len(HANDLER_SETS)]])})
        cases.append({"prog": p})
    for k, (p, _) in enumerate(R.badfx_programs()):
        if tier == "thorough" or k % 4 == 0:
            cases.append({"prog": p})
    # @unittest.expectedFailure tests whose body ends in every behaviour, later stages raising
    for k, (p, _) in enumerate(R.xfail_programs()):
        cases.append({"prog": dict(p, handlers=[list(h) for h in HANDLER_SETS[k % len(HANDLER_SETS)]]) if k % 3 == 0 else p})
    names = list(R.ALLB)
    # all ordered pairs (test, tearDown), (test, cleanup), (setUp-cleanup, setUp), (tearDown, cleanup)
    k = 0
    for a, b in itertools.product(names, repeat=2):
        k += 1
        hs = HANDLER_SETS[k % len(HANDLER_SETS)]
        cases.append({"prog": R.mkprog(body=R.ALLB[a], teardown=R.ALLB[b], handlers=hs)})
        if tier == "thorough" or k % 2 == 0:
            cases.append({"prog": R.mkprog(setup=[["cleanup", 10, list(R.ALLB[b])]], body=R.ALLB[a],
                                           handlers=HANDLER_SETS[(k + 1) % len(HANDLER_SETS)])})
        if tier == "thorough" or k % 2 == 1:
            cases.append({"prog": R.mkprog(setup=[["cleanup", 10, list(R.ALLB[b])]] + R.ALLB[a],
                                           handlers=HANDLER_SETS[(k + 2) % len(HANDLER_SETS)])})
    # ordered triples (test, tearDown, cleanup)
    triples = list(itertools.product(names, repeat=3))
    stride = 1 if tier == "thorough" else 12
    off = rng.randrange(stride)
    for k, (a, b, c) in enumerate(triples):
        if k % stride != off:
            continue
        cases.append({"prog": R.mkprog(setup=[["cleanup", 10, list(R.ALLB[c])]], body=R.ALLB[a], teardown=R.ALLB[b],
                                       handlers=HANDLER_SETS[k % len(HANDLER_SETS)])})
    n = 1200 if tier == "quick" else 40000
    for _ in range(n):
        p = R.rand_prog(rng, feats=rng.choice([FEATS, FEATS, frozenset(), frozenset(), FEATS_INS]),
                        p_raise=rng.choice([0.4, 0.6, 0.9]))
        cases.append({"prog": p})
    # the same programs on cases configured with a RunTest factory of their own (the Gallina input leaves it out)
    cases += R.configured(cases, rng, 500 if tier == "quick" else 12000)
    return cases


def shrink(case):
    return R.shrink_configured(case, ({"prog": p} for p in R.shrink_prog(case["prog"])))


def distribution(cases):
    d = R.prog_distribution([c["prog"] for c in cases])
    d["runtest_factory"] = R.runner_distribution(cases)
    return d
