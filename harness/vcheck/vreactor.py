"""A deterministic virtual-time reactor for driving the real
testtools.twistedsupport Spinner / AsynchronousDeferredRunTest (C14, C15).

It implements exactly the part of the reactor interface that Spinner touches
(callLater, callWhenRunning, run, crash, stop, getDelayedCalls, removeAll,
iterate, running) plus addReader/seconds for the test programs, on top of
twisted.internet.task.Clock (real DelayedCall objects, real cancel()).

Differences from task.Clock that matter (DESIGN 6 C15, learned from a prototype):
  * getDelayedCalls() returns a FRESH list, as the real reactor does (Clock
    returns its internal list, and Spinner._clean would skip every other call
    while cancelling);
  * run() executes ONE delayed call at a time and looks at `running` after
    each, so crash() takes effect immediately; with batch=True it behaves like
    the real reactor's runUntilCurrent instead: every call due at the same
    instant runs in the same iteration, even after one of them called crash();
  * simultaneous calls are ordered by an explicit tie-break oracle (a list of
    choice indices consumed one per tie), the same oracle the Coq model
    (coq/Model/Reactor.v) takes as an argument;
  * callWhenRunning hooks registered before run() fire at start-up in registration order, all of them, even when
    one of them stops the reactor (the real reactor fires every 'after startup' trigger);
  * run() installs its own handlers for SIGINT/SIGTERM/SIGCHLD like the real
    reactor, so that "the handlers are restored" is not vacuous;
  * interrupts (C14) are out-of-band events at virtual instants, delivered like a signal whose handler
    calls reactor.stop(); they are not DelayedCalls and never show up as junk;
  * the class attribute `stop` is the REAL stop (a stopped reactor cannot be
    restarted): `really_stopped` records that it was called.
"""
import signal

from twisted.internet.task import Clock

REACTOR_SIGNALS = ("SIGINT", "SIGTERM", "SIGCHLD")


class Hang(Exception):
    """The reactor is running with nothing left to do: the real one would block for ever."""


class VReactor:
    def __init__(self, oracle=(), install_signals=True, interrupts=(), batch=False):
        self.clock = Clock()
        self.batch = batch        # run every call due at the same instant in ONE iteration (like runUntilCurrent)
        self._interrupts = sorted(interrupts)   # instants at which a signal arrives and its handler calls self.stop()
        self.running = False
        self.really_stopped = False
        self._hooks = []          # callWhenRunning before run(): 'after startup' triggers
        self._selectables = []    # addReader/addWriter
        self._oracle = list(oracle)
        self._install_signals = install_signals
        self.order = []           # every DelayedCall that ran, in order
        self.ties = 0             # how many ties were broken
        self.executed = 0
        self.stop_calls = 0

    # ---- IReactorTime ----
    def seconds(self):
        return self.clock.seconds()

    def callLater(self, delay, f, *a, **kw):
        return self.clock.callLater(delay, f, *a, **kw)

    def getDelayedCalls(self):
        return list(self.clock.calls)

    # ---- IReactorFDSet (the little Spinner uses) ----
    def addReader(self, r):
        if r not in self._selectables:
            self._selectables.append(r)

    addWriter = addReader

    def removeAll(self):
        out, self._selectables = self._selectables, []
        return out

    def getReaders(self):
        return list(self._selectables)

    # ---- IReactorCore ----
    def callWhenRunning(self, f, *a, **kw):
        if self.running:
            f(*a, **kw)
        else:
            self._hooks.append((f, a, kw))

    def _handler(self, signum, frame):   # what the real reactor's sigInt/sigTerm do: ask to stop
        self.callLater(0, lambda: self.stop())

    def run(self, installSignalHandlers=True):
        if self.running:
            raise RuntimeError("ReactorAlreadyRunning")
        if self.really_stopped:
            raise RuntimeError("ReactorNotRestartable")
        self.running = True
        if installSignalHandlers and self._install_signals:
            for name in REACTOR_SIGNALS:
                sig = getattr(signal, name, None)
                if sig is not None:
                    signal.signal(sig, self._handler)
        # 'after startup' triggers: ALL of them fire, in registration order, whatever crash() did meanwhile - as in
        # the real reactor, where only the main loop looks at `running` (identical to the former "while running"
        # loop unless a hook stops the reactor while others are still waiting)
        while self._hooks:
            f, a, kw = self._hooks.pop(0)
            f(*a, **kw)
        while self.running:
            if self._deliver_interrupt():
                continue
            if not self.clock.calls:
                self.running = False
                raise Hang()
            t = min(c.getTime() for c in self.clock.calls)
            self._run_one(None)
            if self.batch:
                # the real reactor's runUntilCurrent: whatever else is due at this instant runs in the same
                # iteration, even when a call has crashed the reactor meanwhile; cancelled calls are gone
                for _ in range(len(self.clock.calls)):
                    if not self._run_one(None, at=t):
                        break

    def _deliver_interrupt(self):
        """An interrupt (out of band, like a signal: not a DelayedCall) due at instant s is delivered before the
        first delayed call whose time is >= s: the handler does what the real reactor's sigInt does, it calls
        whatever reactor.stop currently is."""
        if not self._interrupts:
            return False
        s = self._interrupts[0]
        calls = self.clock.calls
        if calls and min(c.getTime() for c in calls) < s:
            return False
        self._interrupts.pop(0)
        if s > self.clock.rightNow:
            self.clock.rightNow = s
        self.interrupts_delivered = getattr(self, "interrupts_delivered", 0) + 1
        self.stop()
        return True

    def _candidates(self, limit, at=None):
        calls = self.clock.calls
        if not calls:
            return []
        t = min(c.getTime() for c in calls) if at is None else at
        if limit is not None and t > limit:
            return []
        return [c for c in calls if c.getTime() == t]      # insertion order among equals (Clock sorts stably)

    def _run_one(self, limit, at=None):
        cands = self._candidates(limit, at)
        if not cands:
            return False
        k = 0
        if len(cands) > 1:
            self.ties += 1
            if self._oracle:
                k = self._oracle.pop(0) % len(cands)
        call = cands[k]
        if call.getTime() > self.clock.rightNow:
            self.clock.rightNow = call.getTime()
        self.clock.calls.remove(call)
        call.called = 1
        self.executed += 1
        self.order.append(call)
        call.func(*call.args, **call.kw)
        return True

    def iterate(self, delay=0):
        """runUntilCurrent + doIteration(delay): every call that is due now runs; virtual time does not move."""
        now = self.clock.rightNow
        due = [c for c in self.clock.calls if c.getTime() <= now]
        for c in due:                      # the real runUntilCurrent runs the calls that were due on entry
            if c in self.clock.calls:
                self.clock.calls.remove(c)
                c.called = 1
                self.executed += 1
                self.order.append(c)
                c.func(*c.args, **c.kw)

    def crash(self):
        self.running = False

    def stop(self):
        """The REAL stop: the reactor can never be started again."""
        self.stop_calls += 1
        self.really_stopped = True
        self.running = False
