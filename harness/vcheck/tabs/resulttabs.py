"""Gen/Resulttabs.v: the status word ExtendedToStreamDecorator emits per outcome method, the statuses
StreamFailFast reacts to, the statuses StreamSummary counts against wasSuccessful(), and the method by which
StreamToExtendedDecorator replays a test that ends with each status word (what the private `_status_map` says) -
all PROBED through public classes of the imported live code (DESIGN 3.2): renaming or restructuring `_status_map`,
`_StreamToTestRecord`, the StreamSummary handlers ... does not change a byte of the table while the behaviour is
the same.  Names read: the public constants INTERIM_STATES / FINAL_STATES / STATES (only to know which status words
to probe; the eight documented words are probed even if the constants are gone), the doubles' documented record
`_events`, and - only to WIDEN the set of words probed, if it still exists - the keys of `real._status_map`."""

OUTCOMES = ["addSuccess", "addError", "addFailure", "addSkip", "addExpectedFailure", "addUnexpectedSuccess"]
# the status words documented in StreamResult.status()
DOCUMENTED = ["exists", "fail", "inprogress", "skip", "success", "unknown", "uxsuccess", "xfail"]


def _s(x):
    return '"%s"%%string' % x


def _const(real, name):
    """the string members of a public module constant of status words; empty if it is gone or not iterable"""
    try:
        return set(w for w in getattr(real, name, ()) if isinstance(w, str))
    except TypeError:
        return set()


def interim_words(real):
    """status words on whose arrival a test is NOT reported yet: the public INTERIM_STATES; if that name is gone,
    probed (StreamToDict reports a test at once exactly when the status is final)"""
    if hasattr(real, "INTERIM_STATES"):
        return set(real.INTERIM_STATES)
    out = {None}
    for w in DOCUMENTED:
        seen = []
        s = real.StreamToDict(seen.append)
        s.startTestRun()
        s.status(test_id="probe", test_status=w)
        if not seen:
            out.add(w)
        s.stopTestRun()
    return out


def replayed_as(real, doubles, word):
    """the add* method StreamToExtendedDecorator calls on the decorated result for a test whose last status word is
    `word` (None: none at all, e.g. 'exists'); for an interim word the test is flushed by stopTestRun"""
    log = doubles.ExtendedTestResult()
    s = real.StreamToExtendedDecorator(log)
    s.startTestRun()
    try:
        s.status(test_id="probe", test_status=word)
        s.stopTestRun()
    except Exception:  # noqa - a word the converter cannot replay (KeyError today) has no entry
        return None
    calls = [e[0] for e in log._events if e[0].startswith("add")]
    if not calls:
        return None
    return calls[0] if len(calls) == 1 else "SEVERAL"


def status_map(real, doubles, universe):
    try:
        return [(w, m) for w, m in ((w, replayed_as(real, doubles, w)) for w in universe) if m is not None]
    except Exception:  # noqa - the probe itself could not be carried out: read the private table
        return sorted(real._status_map.items())


def render():
    from testtools import PlaceHolder
    from testtools.testresult import real, doubles
    t = PlaceHolder("probe")
    interim = interim_words(real)
    words = []
    for m in OUTCOMES:
        log = doubles.StreamResult()
        r = real.ExtendedToStreamDecorator(log)
        r.startTestRun()
        if m in ("addError", "addFailure", "addExpectedFailure"):
            getattr(r, m)(t, details={})
        elif m == "addSkip":
            r.addSkip(t, "why")
        else:
            getattr(r, m)(t)
        finals = [e.test_status for e in log._events
                  if e[0] == "status" and e.test_status not in interim]
        assert len(finals) == 1, (m, finals)
        words.append(finals[0])
    universe = sorted(set(words) | set(DOCUMENTED) | _const(real, "FINAL_STATES") | _const(real, "INTERIM_STATES")
                      | _const(real, "STATES") | _const(real, "_status_map"))
    reacts = []
    counts = []
    for s in universe:
        hit = []
        real.StreamFailFast(lambda: hit.append(1)).status(test_id="x", test_status=s)
        if hit:
            reacts.append(s)
        if s in interim:
            continue
        summ = real.StreamSummary()
        summ.startTestRun()
        summ.status(test_id="x", test_status=s)
        if not summ.wasSuccessful():
            counts.append(s)
    summ = real.StreamSummary()
    summ.startTestRun()
    summ.status(test_id="x", test_status="inprogress")
    summ.stopTestRun()
    flush = not summ.wasSuccessful()
    lines = [
        "From Coq Require Import String List.",
        "Import ListNotations.",
        "(* status word of the final event ExtendedToStreamDecorator emits for each outcome method, in the order",
        "   %s *)" % ", ".join(OUTCOMES),
        "Definition e2s_status_words : list string := [%s]." % "; ".join(_s(w) for w in words),
        "(* statuses on which StreamFailFast calls its on_error *)",
        "Definition failfast_statuses : list string := [%s]." % "; ".join(_s(w) for w in reacts),
        "(* final statuses after which StreamSummary.wasSuccessful() is False *)",
        "Definition summary_error_statuses : list string := [%s]." % "; ".join(_s(w) for w in counts),
        "(* a test still in progress at stopTestRun counts against StreamSummary.wasSuccessful() *)",
        "Definition summary_flush_counts : bool := %s." % ("true" if flush else "false"),
        "(* _status_map: status word -> TestResult method StreamToExtendedDecorator replays *)",
        "Definition status_map : list (string * string) := [%s]." % "; ".join(
            "(%s, %s)" % (_s(k), _s(v)) for k, v in status_map(real, doubles, universe)),
        "",
    ]
    return "\n".join(lines)
