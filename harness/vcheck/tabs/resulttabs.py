"""Gen/Resulttabs.v: the status word ExtendedToStreamDecorator emits per outcome method, the statuses
StreamFailFast reacts to, the statuses StreamSummary counts against wasSuccessful(), and _status_map -
all probed on / read from the imported live code (DESIGN 3.2)."""

OUTCOMES = ["addSuccess", "addError", "addFailure", "addSkip", "addExpectedFailure", "addUnexpectedSuccess"]


def _s(x):
    return '"%s"%%string' % x


def render():
    from testtools import PlaceHolder
    from testtools.testresult import real, doubles
    t = PlaceHolder("probe")
    words = []
    for m in OUTCOMES:
        log = doubles.StreamResult()
        r = real.ExtendedToStreamDecorator(log)
        r.startTestRun()
        if m in ("addError", "addFailure", "addExpectedFailure"):
            getattr(r, m)(t, details={})
        elif m == "addSkip":
            r.addSkip(t, "why")
        else:
            getattr(r, m)(t)
        finals = [e.test_status for e in log._events
                  if e[0] == "status" and e.test_status not in real.INTERIM_STATES]
        assert len(finals) == 1, (m, finals)
        words.append(finals[0])
    universe = sorted(set(words) | set(k for k in real._status_map) | set(s for s in real.FINAL_STATES))
    reacts = []
    counts = []
    for s in universe:
        hit = []
        real.StreamFailFast(lambda: hit.append(1)).status(test_id="x", test_status=s)
        if hit:
            reacts.append(s)
        if s in real.INTERIM_STATES:
            continue
        summ = real.StreamSummary()
        summ.startTestRun()
        summ.status(test_id="x", test_status=s)
        if not summ.wasSuccessful():
            counts.append(s)
    summ = real.StreamSummary()
    summ.startTestRun()
    summ.status(test_id="x", test_status="inprogress")
    summ.stopTestRun()
    flush = not summ.wasSuccessful()
    lines = [
        "From Coq Require Import String List.",
        "Import ListNotations.",
        "(* status word of the final event ExtendedToStreamDecorator emits for each outcome method, in the order",
        "   %s *)" % ", ".join(OUTCOMES),
        "Definition e2s_status_words : list string := [%s]." % "; ".join(_s(w) for w in words),
        "(* statuses on which StreamFailFast calls its on_error *)",
        "Definition failfast_statuses : list string := [%s]." % "; ".join(_s(w) for w in reacts),
        "(* final statuses after which StreamSummary.wasSuccessful() is False *)",
        "Definition summary_error_statuses : list string := [%s]." % "; ".join(_s(w) for w in counts),
        "(* a test still in progress at stopTestRun counts against StreamSummary.wasSuccessful() *)",
        "Definition summary_flush_counts : bool := %s." % ("true" if flush else "false"),
        "(* _status_map: status word -> TestResult method StreamToExtendedDecorator replays *)",
        "Definition status_map : list (string * string) := [%s]." % "; ".join(
            "(%s, %s)" % (_s(k), _s(v)) for k, v in sorted(real._status_map.items())),
        "",
    ]
    return "\n".join(lines)
