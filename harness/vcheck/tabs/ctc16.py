"""Gen/Ctc16.v: the two content-type constants content.py builds its helpers on
(UTF8_TEXT for text_content / content_from_*, JSON for json_content), read from
the names bound in the imported testtools.content of the tree under test."""


def _str(s):
    b = s.encode("utf-8")
    if all(32 <= c < 127 and c != 34 for c in b):
        return '(sb "%s")' % b.decode("ascii")
    return "(nb [%s])" % "; ".join(str(c) for c in b)


def _ct(ct):
    params = "; ".join("(%s, %s)" % (_str(k), _str(v)) for k, v in ct.parameters.items())
    return "{| ct_type := %s; ct_sub := %s; ct_params := [%s] |}" % (_str(ct.type), _str(ct.subtype), params)


def render():
    from testtools import content as m
    return ("From Coq Require Import String.\n"
            "From TT Require Import Lib.Base Model.MimeCt.\n"
            "Definition UTF8_TEXT : ctype := %s.\n"
            "Definition JSON : ctype := %s.\n" % (_ct(m.UTF8_TEXT), _ct(m.JSON)))
