"""Gen/Ctc16.v: the two content-type constants content.py builds its helpers on
(UTF8_TEXT for text_content / content_from_*, JSON for json_content), obtained
from the imported testtools.content of the tree under test by calling the public
helpers text_content / json_content and reading `.content_type` (how content.py
imports or names the constants is its own business); the public names
testtools.content_type.UTF8_TEXT / JSON are read only if a helper cannot be called."""


def _str(s):
    b = s.encode("utf-8")
    if all(32 <= c < 127 and c != 34 for c in b):
        return '(sb "%s")' % b.decode("ascii")
    return "(nb [%s])" % "; ".join(str(c) for c in b)


def _ct(ct):
    params = "; ".join("(%s, %s)" % (_str(k), _str(v)) for k, v in ct.parameters.items())
    return "{| ct_type := %s; ct_sub := %s; ct_params := [%s] |}" % (_str(ct.type), _str(ct.subtype), params)


class _Consts:
    pass


def constants():
    from testtools import content
    m = _Consts()
    for name, make in (("UTF8_TEXT", lambda: content.text_content("probe")),
                       ("JSON", lambda: content.json_content({}))):
        try:
            ct = make().content_type
            ct.type, ct.subtype, ct.parameters.items()
        except Exception:  # noqa - the helper is gone or broken: the public constant
            from testtools import content_type
            ct = getattr(content_type, name)
        setattr(m, name, ct)
    return m


def render():
    m = constants()
    return ("From Coq Require Import String.\n"
            "From TT Require Import Lib.Base Model.MimeCt.\n"
            "Definition UTF8_TEXT : ctype := %s.\n"
            "Definition JSON : ctype := %s.\n" % (_ct(m.UTF8_TEXT), _ct(m.JSON)))
