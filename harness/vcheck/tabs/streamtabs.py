"""Gen/Streamtabs.v: the declarative tables of testtools.testresult.real that the
stream models (StreamRec.v, StreamConv.v) rest on, read from the imported live
code of the tree under test (DESIGN 3.2).  Used by C09 and C10.

  status_map        _status_map (status word -> TestResult method name)
  interim_states    INTERIM_STATES (None and status words)
  final_states      FINAL_STATES
  summary_keys      keys of StreamSummary()._handle_status
  summary_bucket    for each key: the StreamSummary list attribute that grows when the handler is called (probed)
  e2s_status_word   for each ExtendedToStreamDecorator.add*: the final status word it emits (probed through a
                    recording sink)
"""


def _s(x):
    assert isinstance(x, str) and all(32 <= ord(c) < 127 and c != '"' for c in x), x
    return '"%s"' % x


def _opt(x):
    return "None" if x is None else "(Some %s)" % _s(x)


def _lst(items):
    return "[" + "; ".join(items) + "]"


LISTS = ("failures", "errors", "skipped", "expectedFailures", "unexpectedSuccesses")


def probe_buckets():
    from testtools import PlaceHolder
    from testtools.testresult.real import StreamSummary
    out = []
    for key in sorted(StreamSummary()._handle_status):
        s = StreamSummary()
        s.startTestRun()
        try:
            s._handle_status[key](PlaceHolder("probe"))
            grew = [a for a in LISTS if len(getattr(s, a)) == 1]
            name = grew[0] if len(grew) == 1 else (None if not grew else "SEVERAL")
        except Exception:
            name = "RAISED"
        out.append((key, name))
    return out


def probe_status_words():
    from testtools import PlaceHolder
    from testtools.testresult import doubles
    from testtools.testresult.real import ExtendedToStreamDecorator
    out = []
    for meth in ("addError", "addExpectedFailure", "addFailure", "addSkip", "addSuccess", "addUnexpectedSuccess"):
        sink = doubles.StreamResult()
        r = ExtendedToStreamDecorator(sink)
        try:
            r.startTestRun()
            t = PlaceHolder("probe")
            r.startTest(t)
            getattr(r, meth)(t, details={})
            r.stopTest(t)
            words = [e.test_status for e in sink._events
                     if e[0] == "status" and e.test_status not in (None, "inprogress")]
            word = words[0] if len(words) == 1 else "SEVERAL"
        except Exception:
            word = "RAISED"
        out.append((meth, word))
    return out


def render():
    from testtools.testresult import real
    sm = sorted(real._status_map.items())
    interim = sorted(real.INTERIM_STATES, key=lambda x: (x is not None, x or ""))
    final = sorted(real.FINAL_STATES)
    keys = sorted(real.StreamSummary()._handle_status)
    t = []
    t.append("From Coq Require Import String List.")
    t.append("Import ListNotations.")
    t.append("Open Scope string_scope.")
    t.append("(* testtools.testresult.real._status_map *)")
    t.append("Definition status_map : list (string * string) := %s." %
             _lst("(%s, %s)" % (_s(k), _s(v)) for k, v in sm))
    t.append("(* INTERIM_STATES, FINAL_STATES *)")
    t.append("Definition interim_states : list (option string) := %s." % _lst(_opt(x) for x in interim))
    t.append("Definition final_states : list string := %s." % _lst(_s(x) for x in final))
    t.append("(* keys of StreamSummary()._handle_status, and the list each handler appends to *)")
    t.append("Definition summary_keys : list string := %s." % _lst(_s(x) for x in keys))
    t.append("Definition summary_bucket : list (string * option string) := %s." %
             _lst("(%s, %s)" % (_s(k), _opt(v)) for k, v in probe_buckets()))
    t.append("(* final status word emitted by each ExtendedToStreamDecorator.add* *)")
    t.append("Definition e2s_status_word : list (string * string) := %s." %
             _lst("(%s, %s)" % (_s(k), _s(v)) for k, v in probe_status_words()))
    return "\n".join(t) + "\n"
