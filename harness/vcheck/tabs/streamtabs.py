"""Gen/Streamtabs.v: the declarative tables of testtools.testresult.real that the
stream models (StreamRec.v, StreamConv.v) rest on, obtained from the imported live
code of the tree under test (DESIGN 3.2).  Used by C09 and C10 (models StreamRec.v, StreamConv.v).

Every entry is found by PROBING PUBLIC BEHAVIOUR (one status event through a fresh
public consumer between startTestRun and stopTestRun), so that renaming or
restructuring private names (`_status_map`, `StreamSummary._handle_status`, the
per-status handler methods, `_hook` ...) cannot break the proof layer as long as
the behaviour is the same.  A private name is read only as a fallback when a
probe itself cannot be carried out (and is then reported in a Gallina comment).

  status_map        status word -> TestResult method by which StreamToExtendedDecorator replays a test that ends
                    with that status (what `_status_map` says); no entry = nothing is replayed ('exists')
  interim_states    None / status words on whose arrival StreamToDict does NOT report the test (INTERIM_STATES)
  final_states      status words on whose arrival StreamToDict reports the test at once (FINAL_STATES)
  summary_keys      status words a test may end with without StreamSummary raising (the statuses it has a handler for)
  summary_bucket    for each of them: the public StreamSummary list that grows by one (None = no list)
  e2s_status_word   for each ExtendedToStreamDecorator.add*: the final status word it emits (through a recording sink)

The status words probed are the eight documented in StreamResult.status() plus whatever the public module constants
INTERIM_STATES / FINAL_STATES / STATES of the tree under test name (when they exist), so that a word added there shows
up in the tables and re-states the table obligations.
"""

DOCUMENTED = ("exists", "fail", "inprogress", "skip", "success", "unknown", "uxsuccess", "xfail")
LISTS = ("failures", "errors", "skipped", "expectedFailures", "unexpectedSuccesses")
ADD_METHODS = ("addError", "addExpectedFailure", "addFailure", "addSkip", "addSuccess", "addUnexpectedSuccess")
PROBE_ID = "probe"


def _s(x):
    assert isinstance(x, str) and all(32 <= ord(c) < 127 and c != '"' for c in x), x
    return '"%s"' % x


def _opt(x):
    return "None" if x is None else "(Some %s)" % _s(x)


def _lst(items):
    return "[" + "; ".join(items) + "]"


def universe():
    """the status words to probe (strings only; None is probed separately where it makes sense)"""
    from testtools.testresult import real
    words = set(DOCUMENTED)
    for const in ("INTERIM_STATES", "FINAL_STATES", "STATES"):
        try:
            words.update(w for w in getattr(real, const, ()) if isinstance(w, str))
        except TypeError:
            pass
    return sorted(words)


# ---------------- interim / final: does the event make StreamToDict report the test at once? ----------------
def reported_at_once(word):
    from testtools.testresult.real import StreamToDict
    seen = []
    s = StreamToDict(seen.append)
    s.startTestRun()
    s.status(test_id=PROBE_ID, test_status=word)
    at_once = len(seen)
    s.stopTestRun()
    if at_once not in (0, 1) or len(seen) != 1:
        raise AssertionError("status %r: %d report(s) at the event, %d after stopTestRun" % (word, at_once, len(seen)))
    return at_once == 1


def probe_states():
    """(interim, final) by behaviour; falls back to the module constants if StreamToDict cannot be probed"""
    try:
        interim, final = [], []
        for w in [None] + universe():
            (final if reported_at_once(w) else interim).append(w)
        if None in final:
            raise AssertionError("an event without status reports a test")
        return interim, final, None
    except Exception as e:       # noqa - the probe itself failed: read the constants
        from testtools.testresult import real
        return (list(real.INTERIM_STATES), list(real.FINAL_STATES),
                "probe failed (%s); INTERIM_STATES/FINAL_STATES read" % type(e).__name__)


# ---------------- status word -> method replayed by StreamToExtendedDecorator ----------------
def replayed_as(word):
    from testtools.testresult import doubles
    from testtools.testresult.real import StreamToExtendedDecorator
    log = doubles.ExtendedTestResult()
    s = StreamToExtendedDecorator(log)
    s.startTestRun()
    s.status(test_id=PROBE_ID, test_status=word)
    s.stopTestRun()
    calls = [e[0] for e in log._events if e[0] in ADD_METHODS]     # _events: the documented record of the doubles
    if not calls:
        return None
    return calls[0] if len(calls) == 1 else "SEVERAL"


def probe_status_map():
    try:
        out = []
        for w in universe():
            m = replayed_as(w)
            if m is not None:
                out.append((w, m))
        return out, None
    except Exception as e:       # noqa - the probe itself failed: read the private table
        from testtools.testresult import real
        return sorted(real._status_map.items()), "probe failed (%s); _status_map read" % type(e).__name__


# ---------------- StreamSummary: handled statuses and the list each lands in ----------------
def probe_buckets():
    """[(status word, list name | None | 'SEVERAL')] for every status word a test may end with without
    StreamSummary raising.  A test 'ends with' an interim word by still having it at stopTestRun."""
    from testtools.testresult.real import StreamSummary
    out = []
    for key in universe():
        s = StreamSummary()
        try:
            s.startTestRun()
            s.status(test_id=PROBE_ID, test_status=key)
            s.stopTestRun()
        except Exception:        # noqa - no handler for this status (KeyError in the current code)
            continue
        grew = [a for a in LISTS if len(getattr(s, a)) == 1]
        if any(len(getattr(s, a)) > 1 for a in LISTS):
            grew = ["SEVERAL", "SEVERAL"]
        name = grew[0] if len(grew) == 1 else (None if not grew else "SEVERAL")
        out.append((key, name))
    return out


def probe_status_words():
    from testtools import PlaceHolder
    from testtools.testresult import doubles
    from testtools.testresult.real import ExtendedToStreamDecorator
    out = []
    for meth in ADD_METHODS:
        sink = doubles.StreamResult()
        r = ExtendedToStreamDecorator(sink)
        try:
            r.startTestRun()
            t = PlaceHolder("probe")
            r.startTest(t)
            getattr(r, meth)(t, details={})
            r.stopTest(t)
            words = [e.test_status for e in sink._events
                     if e[0] == "status" and e.test_status not in (None, "inprogress")]
            word = words[0] if len(words) == 1 else "SEVERAL"
        except Exception:
            word = "RAISED"
        out.append((meth, word))
    return out


def render():
    sm, sm_note = probe_status_map()
    interim, final, st_note = probe_states()
    interim = sorted(interim, key=lambda x: (x is not None, x or ""))
    final = sorted(final)
    buckets = probe_buckets()
    keys = [k for k, _ in buckets]
    t = []
    t.append("From Coq Require Import String List.")
    t.append("Import ListNotations.")
    t.append("Open Scope string_scope.")
    for note in (sm_note, st_note):
        if note:
            t.append("(* NOTE: %s *)" % note.replace("*)", "* )").replace("(*", "( *"))
    t.append("(* testtools.testresult.real._status_map *)")
    t.append("Definition status_map : list (string * string) := %s." %
             _lst("(%s, %s)" % (_s(k), _s(v)) for k, v in sm))
    t.append("(* INTERIM_STATES, FINAL_STATES *)")
    t.append("Definition interim_states : list (option string) := %s." % _lst(_opt(x) for x in interim))
    t.append("Definition final_states : list string := %s." % _lst(_s(x) for x in final))
    t.append("(* keys of StreamSummary()._handle_status, and the list each handler appends to *)")
    t.append("Definition summary_keys : list string := %s." % _lst(_s(x) for x in keys))
    t.append("Definition summary_bucket : list (string * option string) := %s." %
             _lst("(%s, %s)" % (_s(k), _opt(v)) for k, v in buckets))
    t.append("(* final status word emitted by each ExtendedToStreamDecorator.add* *)")
    t.append("Definition e2s_status_word : list (string * string) := %s." %
             _lst("(%s, %s)" % (_s(k), _s(v)) for k, v in probe_status_words()))
    return "\n".join(t) + "\n"
