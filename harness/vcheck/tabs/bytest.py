"""Gen/Bytest.v: the status word each TestByTestResult.add* method hands to on_test,
read by probing a real TestByTestResult of the tree under test (DESIGN 3.2).
Used by C08 (coq/Model/Adapters.v takes the words from here; Proof/C08.v proves
by computation that they are the documented ones).

Words are numbered by WORDS (the vocabulary of the on_test docstring); a word
outside the vocabulary, or no word at all, gets a number that no documented
word has."""

WORDS = ["success", "failure", "error", "skip", "xfail"]
METHODS = ["addSuccess", "addFailure", "addError", "addSkip", "addExpectedFailure", "addUnexpectedSuccess"]
UNKNOWN = 9


def word_code(w):
    """status word -> number (also used by props/c08.py for the observation)"""
    return WORDS.index(w) if w in WORDS else UNKNOWN


def probe():
    import testtools
    from testtools.content import text_content
    from testtools.testresult.real import TestByTestResult
    out = {}
    for meth in METHODS:
        log = []
        r = TestByTestResult(lambda **kw: log.append(kw))
        t = testtools.PlaceHolder("probe")
        r.startTest(t)
        getattr(r, meth)(t, details={"probe": text_content("x")})
        r.stopTest(t)
        out[meth] = log[-1]["status"] if log else None
    return out


def render():
    words = probe()
    lines = ["(* number of each documented status word: %s *)" %
             ", ".join("%s=%d" % (w, i) for i, w in enumerate(WORDS))]
    for meth in METHODS:
        lines.append("Definition bt_word_%s : nat := %d.   (* %r *)" % (meth, word_code(words[meth]), words[meth]))
    return "\n".join(lines) + "\n"
