"""Gen/Failfast.v: the set of test statuses StreamFailFast reacts to, read from the
imported code by probing StreamFailFast.status with every status word (and None)."""

# fixed numbering of the status words used by the C11 harness and model
STATUSES = ["exists", "inprogress", "xfail", "uxsuccess", "success", "fail", "skip", "unknown"]


def probe():
    from testtools.testresult.real import StreamFailFast
    fired = []
    hits = []
    ff = StreamFailFast(lambda: hits.append(1))
    for k, word in enumerate(STATUSES):
        del hits[:]
        ff.status(test_id="probe", test_status=word)
        if hits:
            fired.append(k)
    del hits[:]
    ff.status(test_id="probe", test_status=None)
    return fired, bool(hits)


def render():
    fired, on_none = probe()
    out = ["From Coq Require Import List.", "Import ListNotations.",
           "(* status words, by number: %s *)" % ", ".join("%d=%s" % kv for kv in enumerate(STATUSES)),
           "Definition failfast_statuses : list nat := [%s]." % "; ".join(str(k) for k in fired),
           "Definition failfast_on_none : bool := %s." % ("true" if on_none else "false"),
           "Definition status_count : nat := %d." % len(STATUSES),
           "Definition st_uxsuccess : nat := %d." % STATUSES.index("uxsuccess"),
           "Definition st_fail : nat := %d." % STATUSES.index("fail"), ""]
    return "\n".join(out)
