"""Gen/Failfast.v: the set of test statuses StreamFailFast reacts to, read from the
imported code by probing StreamFailFast.status with every status word (and None)."""

# fixed numbering of the status words used by the C11 harness and model
STATUSES = ["exists", "inprogress", "xfail", "uxsuccess", "success", "fail", "skip", "unknown"]


def probe():
    """which status words make the callback fire; a word on which status() raises counts as not firing (the
    correspondence of C11 then reports the raise itself)"""
    from testtools.testresult.real import StreamFailFast
    hits = []
    ff = StreamFailFast(lambda: hits.append(1))

    def fires(word):
        del hits[:]
        try:
            ff.status(test_id="probe", test_status=word)
        except Exception:
            return False
        return bool(hits)
    return [k for k, word in enumerate(STATUSES) if fires(word)], fires(None)


def render():
    fired, on_none = probe()
    out = ["From Coq Require Import List.", "Import ListNotations.",
           "(* status words, by number: %s *)" % ", ".join("%d=%s" % kv for kv in enumerate(STATUSES)),
           "Definition failfast_statuses : list nat := [%s]." % "; ".join(str(k) for k in fired),
           "Definition failfast_on_none : bool := %s." % ("true" if on_none else "false"),
           "Definition status_count : nat := %d." % len(STATUSES),
           "Definition st_uxsuccess : nat := %d." % STATUSES.index("uxsuccess"),
           "Definition st_fail : nat := %d." % STATUSES.index("fail"), ""]
    return "\n".join(out)
