"""Gen/Handlers.v: TestCase.exception_handlers of the tree under test (classes in
list order, the outcome method each handler calls), the handler of last resort
TestCase.run passes to RunTest, and the classes onException exempts from a
traceback detail.  Everything is read from a live, trivial testtools.TestCase by
introspection of the PUBLIC attribute `exception_handlers` and by probing - never
by parsing the source, by comparing function names or by importing private names
(DESIGN 3.2):

  * what a handler reports: it is CALLED (handler(case, result, exception)) with a
    recording testtools.testresult.doubles.ExtendedTestResult; the name of the
    handler (`_report_*`), whether it is a staticmethod, a bound method or a
    functools.partial does not matter;
  * the two private signal classes (`_ExpectedFailure`, `_UnexpectedSuccess` today)
    are found by PROVOKING them through the public TestCase.expectFailure on a
    failing and on a passing callable and taking type(e); the private module
    names are read only if provoking raised nothing;
  * SkipTest / AssertionError / Exception / BaseException are the builtin /
    unittest classes themselves.
"""

PRELUDE = """From Coq Require Import List.
Import ListNotations.

(* the classes that may occur in the table; anything unexpected is printed as H_Other *)
Inductive hclass := H_SkipTest | H_AssertionError | H_ExpectedFailure | H_UnexpectedSuccess | H_Exception
                  | H_BaseException | H_Other.
(* the outcome method a handler calls on the result; R_none: it called none, R_other: anything else *)
Inductive report := R_success | R_skip | R_failure | R_expected_failure | R_unexpected_success | R_error
                  | R_none | R_other.
"""


def _recorder():
    from testtools.testresult.doubles import ExtendedTestResult
    return ExtendedTestResult()


def _calls(rec):
    # `_events` is the documented record of the doubles
    return [e[0] for e in rec._events if e[0].startswith("add") or e[0] in ("startTest", "stopTest")]


def _raised_by(f):
    try:
        f()
    except BaseException as e:  # noqa - the class of whatever comes out is the answer
        return type(e)
    return None


_SIGNALS = {}


def signal_classes():
    """(class raised by expectFailure when the callable fails as expected, class raised when it passes): the
    private plumbing classes of testtools.testcase, found through the public API"""
    import testtools
    key = id(testtools)
    if key in _SIGNALS:
        return _SIGNALS[key]

    class Probe(testtools.TestCase):
        def test_x(self):
            pass

    def failing():
        raise Probe.failureException("probe")

    xfail = _raised_by(lambda: Probe("test_x").expectFailure("probe", failing))
    uxsuccess = _raised_by(lambda: Probe("test_x").expectFailure("probe", lambda: None))
    from testtools import testcase
    if xfail is None:
        xfail = getattr(testcase, "_ExpectedFailure", None)
    if uxsuccess is None:
        uxsuccess = getattr(testcase, "_UnexpectedSuccess", None)
    _SIGNALS[key] = (xfail, uxsuccess)
    return _SIGNALS[key]


def _hclass(cls):
    import unittest
    xfail, uxsuccess = signal_classes()
    # the builtin classes first: a tree whose expectFailure raises, say, AssertionError has no xfail class
    names = [(unittest.case.SkipTest, "H_SkipTest"), (AssertionError, "H_AssertionError"),
             (Exception, "H_Exception"), (BaseException, "H_BaseException"),
             (xfail, "H_ExpectedFailure"), (uxsuccess, "H_UnexpectedSuccess")]
    for c, n in names:
        if c is not None and cls is c:
            return n
    return "H_Other"


_REPORT = {"addSuccess": "R_success", "addSkip": "R_skip", "addFailure": "R_failure",
           "addExpectedFailure": "R_expected_failure", "addUnexpectedSuccess": "R_unexpected_success",
           "addError": "R_error"}


def _probe(handler, case, cls):
    rec = _recorder()
    try:
        exc = cls("probe")
    except Exception:
        exc = cls()
    try:
        handler(case, rec, exc)
    except Exception:
        return "R_other"
    calls = _calls(rec)
    if not calls:
        return "R_none"
    if len(calls) == 1 and calls[0] in _REPORT:
        return _REPORT[calls[0]]
    return "R_other"


def table():
    """[(class name, report name)], last resort report, [exempt class names]"""
    import testtools
    from testtools import runtest

    class Probe(testtools.TestCase):
        def test_x(self):
            pass

    case = Probe("test_x")
    rows = [(_hclass(cls), _probe(h, Probe("test_x"), cls)) for cls, h in case.exception_handlers]
    # the handler of last resort: what TestCase.run hands to RunTest
    seen = {}

    class Spy(runtest.RunTest):
        def __init__(self, case, handlers=None, last_resort=None):
            seen["last_resort"] = last_resort
            seen["handlers"] = handlers
            super().__init__(case, handlers, last_resort)

        def run(self, result=None):
            return None

    Probe("test_x", runTest=Spy).run(_recorder())
    lr = seen.get("last_resort")
    last = _probe(lr, Probe("test_x"), KeyboardInterrupt) if lr is not None else "R_none"
    passes_table = seen.get("handlers") is not None and \
        [c for c, _ in seen["handlers"]] == [c for c, _ in case.exception_handlers]
    # which of the table's classes get no traceback detail from onException
    exempt = []
    for cls, _ in case.exception_handlers:
        c = Probe("test_x")
        try:
            exc = cls("probe")
        except Exception:
            exc = cls()
        c.onException((cls, exc, None))
        if not c.getDetails():
            exempt.append(_hclass(cls))
    return rows, last, exempt, passes_table


def render():
    rows, last, exempt, passes_table = table()
    out = [PRELUDE]
    out.append("(* TestCase.exception_handlers of a fresh TestCase, in list order *)")
    out.append("Definition exception_handlers : list (hclass * report) :=\n  [%s]." %
               "; ".join("(%s, %s)" % r for r in rows))
    out.append("(* what the last_resort handler given to RunTest reports *)")
    out.append("Definition last_resort_report : report := %s." % last)
    out.append("(* TestCase.run hands exactly exception_handlers to RunTest *)")
    out.append("Definition run_passes_table : bool := %s." % ("true" if passes_table else "false"))
    out.append("(* classes of the table for which onException adds no traceback detail *)")
    out.append("Definition no_traceback_classes : list hclass := [%s]." % "; ".join(exempt))
    return "\n".join(out) + "\n"
