"""Gen/Spinnertabs.v: declarative facts of testtools.twistedsupport obtained from the
imported live code (DESIGN 3.2): the signals Spinner saves and restores, the
number of obligatory reactor iterations of the Spinner each runner variant makes,
and the numbers of the three signals the statement of C15 names.

The facts are PROBED on the behaviour of the real classes over the virtual reactor
(harness/vcheck/vreactor.py), so that renaming or restructuring the private
constants (`Spinner._PRESERVED_SIGNALS`, `_OBLIGATORY_REACTOR_ITERATIONS`,
`_make_spinner`) cannot break the proof layer while the behaviour is the same:

  preserved signals   a distinguishable handler is installed for every named signal a handler can be installed for;
                      Spinner.run(trivial function) runs on a reactor whose run() overwrites ALL of them (as a reactor
                      that installs its own handlers does); the preserved signals are those that carry the first
                      handler again afterwards.  Every disposition is put back afterwards; a signal that arrives
                      meanwhile is re-delivered.
  iterations          how many times Spinner.run(trivial function) / one trivial test under each runner variant
                      iterate()s the virtual reactor (Spinner._clean does that, once per obligatory iteration).

The private names are read only as a FALLBACK, when a probe cannot be carried out (not in the main thread, the probe
raises); the output then says so in a comment.  When both are available and differ, the probed behaviour wins (it is
what the correspondence runs see) and the comment says so."""
import os
import signal
import threading

TIMEOUT = 5          # virtual seconds; never reached by a function that returns at once
# never touched by the probe: cannot be caught, or raised synchronously by a fault of the process itself
_LEFT_ALONE = ("SIGKILL", "SIGSTOP", "SIGSEGV", "SIGBUS", "SIGFPE", "SIGILL")


# ---------------------------------------------------------------- the probes
def _spinner_class():
    from testtools.twistedsupport import _spinner
    return _spinner.Spinner


def _counting_reactor(on_run=None):
    from ..vreactor import VReactor

    class Reactor(VReactor):
        iterations = 0

        def run(self, installSignalHandlers=True):
            if on_run is not None:
                on_run()
            return VReactor.run(self, installSignalHandlers=False)

        def iterate(self, delay=0):
            self.iterations += 1
            return VReactor.iterate(self, delay)

    return Reactor([], install_signals=False)


def probe_preserved():
    """numbers of the signals whose handlers Spinner.run puts back after the reactor replaced them, ascending"""
    if threading.current_thread() is not threading.main_thread():
        raise RuntimeError("signal handlers can only be probed in the main thread")
    Spinner = _spinner_class()
    left_alone = set(getattr(signal, n) for n in _LEFT_ALONE if hasattr(signal, n))
    candidates = [s for s in sorted(signal.valid_signals())
                  if isinstance(s, signal.Signals) and s not in left_alone]
    arrived = []

    def handler():
        def h(signum, frame):
            arrived.append(signum)
        return h

    original, mine, theirs = {}, {}, {}
    try:
        for s in candidates:
            try:
                old = signal.getsignal(s)
                if old is None:          # installed by non-Python code: could not be put back
                    continue
                h = handler()
                signal.signal(s, h)
            except (OSError, ValueError, RuntimeError):
                continue
            original[s], mine[s], theirs[s] = old, h, handler()

        def clobber():
            for s, h in theirs.items():
                signal.signal(s, h)

        reactor = _counting_reactor(clobber)
        Spinner(reactor).run(TIMEOUT, lambda: None)
        return [int(s) for s in mine if signal.getsignal(s) is mine[s]]
    finally:
        for s, old in original.items():
            signal.signal(s, old)
        for s in arrived:                # delivered to one of the probe's handlers: hand it to the real one
            os.kill(os.getpid(), s)


def probe_spinner_iterations():
    reactor = _counting_reactor()
    _spinner_class()(reactor).run(TIMEOUT, lambda: None)
    return reactor.iterations


def probe_runner_iterations(runner_name):
    import testtools
    from testtools import twistedsupport
    from testtools.testresult.doubles import ExtendedTestResult
    reactor = _counting_reactor()

    class _T(testtools.TestCase):
        run_tests_with = getattr(twistedsupport, runner_name).make_factory(reactor=reactor, timeout=TIMEOUT)

        def test_x(self):
            pass

    log = ExtendedTestResult()
    _T("test_x").run(log)
    outcomes = [e[0] for e in log._events if e[0].startswith("add")]
    if outcomes != ["addSuccess"]:
        raise RuntimeError("the trivial test did not pass under %s: %r" % (runner_name, outcomes))
    return reactor.iterations


# ---------------------------------------------------------------- the private names (fallback / cross-check)
def read_preserved():
    Spinner = _spinner_class()
    try:
        names = Spinner._PRESERVED_SIGNALS
    except AttributeError:
        names = Spinner(object())._PRESERVED_SIGNALS
    return [int(getattr(signal, n)) for n in names if getattr(signal, n, None)]


def read_spinner_iterations():
    Spinner = _spinner_class()
    try:
        return int(Spinner._OBLIGATORY_REACTOR_ITERATIONS)
    except AttributeError:
        return int(Spinner(object())._OBLIGATORY_REACTOR_ITERATIONS)


def read_runner_iterations(runner_name):
    import testtools
    from testtools import twistedsupport

    class _T(testtools.TestCase):
        def test_x(self):
            pass

    runner = getattr(twistedsupport, runner_name)(_T("test_x"), reactor=object())
    return int(runner._make_spinner()._OBLIGATORY_REACTOR_ITERATIONS)


def _fact(what, probe, read, notes, same=lambda a, b: a == b):
    """the probed value; the private name only when the probe cannot be carried out"""
    try:
        value = probe()
    except Exception as e:  # noqa - whatever stops the probe: fall back
        value = read()      # if this raises too, the table cannot be rendered (tables.render_all reports it)
        notes.append("%s: probe failed (%s: %s); private name read" % (what, type(e).__name__, e))
        return value
    try:
        named = read()
    except Exception:  # noqa - the private name is gone or means something else now: its own business
        return value
    if not same(value, named):
        notes.append("%s: private name says %r, behaviour says %r; behaviour printed" % (what, named, value))
    elif isinstance(value, list):
        value = named       # same set: keep the order of the code's own list
    return value


def _name(n):
    try:
        return signal.Signals(n).name
    except ValueError:
        return str(n)


def render():
    notes = []
    nums = _fact("preserved signals", probe_preserved, read_preserved, notes,
                 same=lambda a, b: sorted(a) == sorted(b))
    names = [_name(n) for n in nums]
    spin = _fact("spinner iterations", probe_spinner_iterations, read_spinner_iterations, notes)
    plain = _fact("runner iterations", lambda: probe_runner_iterations("AsynchronousDeferredRunTest"),
                  lambda: read_runner_iterations("AsynchronousDeferredRunTest"), notes)
    broken = _fact("broken-twisted runner iterations",
                   lambda: probe_runner_iterations("AsynchronousDeferredRunTestForBrokenTwisted"),
                   lambda: read_runner_iterations("AsynchronousDeferredRunTestForBrokenTwisted"), notes)
    lines = [
        "From Coq Require Import List.",
        "Import ListNotations.",
    ]
    for note in notes:
        lines.append("(* NOTE: %s *)" % note.replace("*)", "* )").replace("(*", "( *")[:300])
    lines += [
        "(* Spinner._PRESERVED_SIGNALS = %r *)" % (names,),
        "Definition preserved_signals : list nat := [%s]." % "; ".join(str(n) for n in nums),
        "(* signal.SIGINT, signal.SIGTERM, signal.SIGCHLD on this platform *)",
        "Definition sig_int : nat := %d." % int(signal.SIGINT),
        "Definition sig_term : nat := %d." % int(signal.SIGTERM),
        "Definition sig_chld : nat := %d." % int(signal.SIGCHLD),
        "(* Spinner._OBLIGATORY_REACTOR_ITERATIONS *)",
        "Definition spinner_iterations : nat := %d." % spin,
        "(* ... of the spinner made by AsynchronousDeferredRunTest / ...ForBrokenTwisted._make_spinner() *)",
        "Definition runner_iterations : nat := %d." % plain,
        "Definition broken_runner_iterations : nat := %d." % broken,
    ]
    return "\n".join(lines) + "\n"
