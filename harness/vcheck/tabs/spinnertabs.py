"""Gen/Spinnertabs.v: declarative facts of testtools.twistedsupport read from the
imported live code (DESIGN 3.2): the signals Spinner saves and restores, the
number of obligatory reactor iterations of the Spinner each runner variant makes,
and the numbers of the three signals the statement of C15 names."""
import signal


def render():
    from testtools.twistedsupport import _runtest, _spinner
    import testtools

    names = list(_spinner.Spinner._PRESERVED_SIGNALS)
    nums = [int(getattr(signal, n)) for n in names if getattr(signal, n, None)]

    class _T(testtools.TestCase):
        def test_x(self):
            pass

    def iters(cls):
        return int(cls(_T("test_x"), reactor=object())._make_spinner()._OBLIGATORY_REACTOR_ITERATIONS)

    lines = [
        "From Coq Require Import List.",
        "Import ListNotations.",
        "(* Spinner._PRESERVED_SIGNALS = %r *)" % (names,),
        "Definition preserved_signals : list nat := [%s]." % "; ".join(str(n) for n in nums),
        "(* signal.SIGINT, signal.SIGTERM, signal.SIGCHLD on this platform *)",
        "Definition sig_int : nat := %d." % int(signal.SIGINT),
        "Definition sig_term : nat := %d." % int(signal.SIGTERM),
        "Definition sig_chld : nat := %d." % int(signal.SIGCHLD),
        "(* Spinner._OBLIGATORY_REACTOR_ITERATIONS *)",
        "Definition spinner_iterations : nat := %d." % int(_spinner.Spinner._OBLIGATORY_REACTOR_ITERATIONS),
        "(* ... of the spinner made by AsynchronousDeferredRunTest / ...ForBrokenTwisted._make_spinner() *)",
        "Definition runner_iterations : nat := %d." % iters(_runtest.AsynchronousDeferredRunTest),
        "Definition broken_runner_iterations : nat := %d." % iters(_runtest.AsynchronousDeferredRunTestForBrokenTwisted),
    ]
    return "\n".join(lines) + "\n"
