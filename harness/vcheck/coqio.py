"""Printing Python values as Gallina terms, running case shards through coqc,
parsing the three index lists back.  Nothing here knows about any property."""
import os
import re
import subprocess
from concurrent.futures import ThreadPoolExecutor

COQ_DIR = os.path.join(os.path.dirname(os.path.dirname(os.path.dirname(os.path.abspath(__file__)))), "coq")
SHARD = 400          # cases per coqc invocation
COQC_TIMEOUT = 600


# ---------- Gallina term printing ----------
def nat(n):
    assert isinstance(n, int) and 0 <= n < 5000, n
    return str(n)


def N(n):
    assert isinstance(n, int) and n >= 0, n
    return "%d%%N" % n


def Z(n):
    return "(%d)%%Z" % n


def boolean(b):
    return "true" if b else "false"


def lst(items):
    return "[" + "; ".join(items) + "]"


def option(x, f=lambda v: v):
    return "None" if x is None else "(Some %s)" % f(x)


def pair(a, b):
    return "(%s, %s)" % (a, b)


def string(s):
    """A Coq string literal (bytes of the UTF-8 encoding); only printable ASCII
    without the double quote is written raw, everything else is spliced in
    through String (ascii_of_nat n)."""
    b = s.encode("utf-8") if isinstance(s, str) else bytes(s)
    if all(32 <= c < 127 and c != 34 for c in b):
        return '"%s"%%string' % b.decode("ascii")
    return "(bs %s)" % lst([str(c) for c in b])


def record(fields):
    return "{| " + "; ".join("%s := %s" % kv for kv in fields) + " |}"


# ---------- running shards ----------
_OUT_RE = re.compile(r"=\s*(.*?)\n\s*:\s", re.S)


def _coqc(path, timeout=COQC_TIMEOUT):
    cmd = ["timeout", str(timeout), "coqc", "-Q", COQ_DIR, "TT", "-w", "none", path]
    p = subprocess.run(cmd, capture_output=True, text=True, cwd=os.path.dirname(path))
    return p.returncode, p.stdout, p.stderr


def _parse_nat_list(s):
    s = s.strip()
    assert s.startswith("[") and s.endswith("]"), s
    body = s[1:-1].strip()
    return [int(x) for x in body.split(";")] if body else []


def parse_report(out):
    """`= (n, [..], [..], [(k, [f; g]); ..])` possibly wrapped over lines."""
    m = _OUT_RE.search(out)
    if not m:
        raise ValueError("no report in coqc output: %r" % out[:400])
    t = " ".join(m.group(1).split())
    m2 = re.fullmatch(r"\(\s*(\d+),\s*(\[[^\]]*\]),\s*(\[[^\]]*\]),\s*(\[.*\])\s*\)", t)
    if not m2:
        raise ValueError("unparsable report: %r" % t[:400])
    n = int(m2.group(1))
    dis = _parse_nat_list(m2.group(2))
    vio = _parse_nat_list(m2.group(3))
    fnd = {}
    for k, fs in re.findall(r"\(\s*(\d+),\s*(\[[^\]]*\])\s*\)", m2.group(4)):
        fnd[int(k)] = _parse_nat_list(fs)
    return n, dis, vio, fnd


def run_shards(workdir, corr_module, terms, extra_requires=(), jobs=16, tag="cases", canary_for=None):
    """terms: list of Gallina strings, each a pair (input, obs).  Returns
    (n_seen, disagree, violating, findings{idx: [ids]}) with global indices.
    Every shard echoes its own length, and - when canary_for is given - carries
    one canary as its last case: canary_for(k) is a copy of case k with a
    deliberately perturbed observation, which must come back in `disagree`."""
    os.makedirs(workdir, exist_ok=True)
    shards = [terms[i:i + SHARD] for i in range(0, len(terms), SHARD)]
    paths = []
    has_canary = []
    for j, sh in enumerate(shards):
        c = canary_for(j * SHARD) if canary_for else None
        has_canary.append(c is not None)
        if c is not None:
            sh = sh + [c]
        path = os.path.join(workdir, "%s_%d.v" % (tag, j))
        with open(path, "w") as f:
            f.write("From TT Require Import Lib.Base %s.\n" % corr_module)
            for r in extra_requires:
                f.write("From TT Require Import %s.\n" % r)
            f.write("Import ListNotations.\nOpen Scope list_scope.\n")
            f.write("Definition cases := [\n")
            f.write(";\n".join(sh))
            f.write("\n].\n")
            f.write("Eval vm_compute in (%s.report cases).\n" % corr_module.split(".")[-1])
        paths.append(path)

    def one(path):
        rc, out, err = _coqc(path)
        if rc != 0:
            raise RuntimeError("coqc failed on %s (rc=%s):\n%s\n%s" % (path, rc, out[-2000:], err[-3000:]))
        return parse_report(out)

    total = 0
    dis, vio, fnd = [], [], {}
    with ThreadPoolExecutor(max_workers=jobs) as ex:
        results = list(ex.map(one, paths))
    for j, (n, d, v, f) in enumerate(results):
        if has_canary[j]:
            k = len(shards[j])
            # the canary is case 0 with a perturbed observation; when case 0 itself already disagrees (a changed
            # tree) the perturbation may happen to land on the model's observation - the detector has then shown
            # that it works by flagging case 0
            if k not in d and 0 not in d:
                raise RuntimeError("shard %d: canary was not flagged as a disagreement" % j)
            n -= 1
            d = [x for x in d if x != k]
            v = [x for x in v if x != k]
            f.pop(k, None)
        if n != len(shards[j]):
            raise RuntimeError("shard %d: coq saw %d cases, %d were sent" % (j, n, len(shards[j])))
        base = j * SHARD
        total += n
        dis += [base + k for k in d]
        vio += [base + k for k in v]
        for k, fs in f.items():
            fnd[base + k] = fs
    return total, dis, vio, fnd


def model_at(workdir, corr_module, term, extra_requires=()):
    """The model's observation for one case, as Coq prints it, plus whether the
    model's own observation and the implementation's meet spec_okb."""
    os.makedirs(workdir, exist_ok=True)
    path = os.path.join(workdir, "replay_%d.v" % os.getpid())
    with open(path, "w") as f:
        f.write("From TT Require Import Lib.Base %s.\n" % corr_module)
        for r in extra_requires:
            f.write("From TT Require Import %s.\n" % r)
        f.write("Import ListNotations.\nOpen Scope list_scope.\n")
        f.write("Definition cases := [\n%s\n].\n" % term)
        f.write("Eval vm_compute in (%s.model_at cases 0).\n" % corr_module.split(".")[-1])
    rc, out, err = _coqc(path, timeout=120)
    if rc != 0:
        return "coqc failed: " + (err or out)[-1500:]
    m = _OUT_RE.search(out)
    return " ".join(m.group(1).split()) if m else out.strip()
