"""Line coverage of the property's anchored line ranges achieved by a sample of
the generated cases (evidence only: shows blind spots of the generator).
usage: python -m vcheck.covrun Cxx cases.json out.json"""
import importlib
import json
import os
import re
import sys

ROOT = os.path.dirname(os.path.dirname(os.path.dirname(os.path.abspath(__file__))))
REPO = os.environ.get("VERIF_REPO", "/repo")


def anchored_ranges(pid):
    """{relative file: set(lines)} from the property's anchors.mechanism[].where"""
    out = {}
    for line in open(os.path.join(ROOT, "properties.jsonl")):
        p = json.loads(line)
        if p["id"] != pid:
            continue
        for m in p["anchors"].get("mechanism", []):
            for part in re.split(r";\s*", m.get("where", "")):
                mm = re.match(r"\s*(testtools/[\w/]+\.py):([\d,\-\s]+)", part)
                if not mm:
                    continue
                s = out.setdefault(mm.group(1), set())
                for rng in mm.group(2).split(","):
                    rng = rng.strip()
                    if not rng:
                        continue
                    a, _, b = rng.partition("-")
                    s.update(range(int(a), int(b or a) + 1))
    return out


def base_commit():
    try:
        return open("/root/.vp/repo_root_sha").read().strip()
    except OSError:
        return None


def remap(rel, lines):
    """The anchors give line numbers of the pinned commit; fix: commits have moved lines since.  Map each anchored
    line to its line in the tree under test through `git diff -U0 <pinned> -- file` (lines inside a changed hunk map
    to the whole new hunk)."""
    import subprocess
    base = base_commit()
    if not base:
        return lines
    try:
        p = subprocess.run(["git", "-C", REPO, "diff", "-U0", base, "--", rel], capture_output=True, text=True, timeout=60)
    except Exception:
        return lines
    if p.returncode != 0:
        return lines
    hunks = []
    for m in re.finditer(r"^@@ -(\d+)(?:,(\d+))? \+(\d+)(?:,(\d+))? @@", p.stdout, flags=re.M):
        a, la, b, lb = int(m.group(1)), int(m.group(2) or 1), int(m.group(3)), int(m.group(4) or 1)
        hunks.append((a, la, b, lb))
    out = set()
    for ln in lines:
        shift = 0
        mapped = None
        for a, la, b, lb in hunks:
            if la == 0:                       # pure insertion after old line a
                if ln > a:
                    shift = (b + lb - 1) - a
                continue
            if ln < a:
                break
            if a <= ln < a + la:              # inside a replaced block: the whole new block
                mapped = set(range(b, b + lb))
                break
            shift = (b + lb) - (a + la)
        out |= mapped if mapped is not None else {ln + shift}
    return out


def main():
    pid, cases_path, out_path = sys.argv[1:4]
    import coverage
    ranges = {rel: remap(rel, lines) for rel, lines in anchored_ranges(pid).items()}
    files = [os.path.join(REPO, f) for f in ranges]
    cov = coverage.Coverage(include=files, data_file=None)
    mod = importlib.import_module("vcheck.props." + pid.lower())
    cases = json.load(open(cases_path))
    cov.start()
    done = 0
    for c in cases:
        try:
            mod.drive(c)
        except BaseException:
            pass
        done += 1
    cov.stop()
    res = {"cases_run_under_coverage": done, "files": {}}
    tot = hit = 0
    for rel, lines in ranges.items():
        path = os.path.join(REPO, rel)
        try:
            _, executable, _, missing, _ = cov.analysis2(path)
        except Exception as e:
            res["files"][rel] = {"error": str(e)[:100]}
            continue
        ex = set(executable) & lines
        miss = sorted(set(missing) & lines)
        tot += len(ex)
        hit += len(ex) - len(miss)
        res["files"][rel] = {"anchored_executable_lines": len(ex), "covered": len(ex) - len(miss), "uncovered_lines": miss}
    res["anchored_executable_lines"] = tot
    res["covered"] = hit
    json.dump(res, open(out_path, "w"))


if __name__ == "__main__":
    main()
