"""The check driver: proof layer, correspondence layer, classification,
evidence.  See DESIGN.md sections 2-4.  Property-specific parts live in
vcheck.props.cNN and in coq/{Model,Spec,Proof,Props,Corr}."""
import argparse
import fcntl
import hashlib
import importlib
import json
import multiprocessing
import os
import random
import re
import shutil
import signal
import subprocess
import sys
import time
import traceback

from . import coqio

ROOT = os.path.dirname(os.path.dirname(os.path.dirname(os.path.abspath(__file__))))
COQ = os.path.join(ROOT, "coq")
REPO = os.environ.get("VERIF_REPO", "/repo")
FORBIDDEN = re.compile(
    r"\b(Admitted|admit|Axiom|Axioms|Parameter|Parameters|Conjecture|Conjectures|Admit Obligations|"
    r"Unset Guard Checking|bypass_check|Unset Positivity Checking|Unset Universe Checking|"
    r"Hypothesis|Hypotheses|Variable|Variables)\b")
CASE_TIMEOUT = 20


# --------------------------------------------------------------------------
# build / proof layer
# --------------------------------------------------------------------------
class Lock:
    def __init__(self):
        os.makedirs(os.path.join(ROOT, ".work"), exist_ok=True)
        self.f = open(os.path.join(ROOT, ".work", "build.lock"), "w")

    def ex(self):
        fcntl.flock(self.f, fcntl.LOCK_EX)

    def sh(self):
        fcntl.flock(self.f, fcntl.LOCK_SH)

    def un(self):
        fcntl.flock(self.f, fcntl.LOCK_UN)


def regenerate_tables():
    """Gen/Tables.v is printed from the live code objects of the tree under
    test on every run (DESIGN 3.2); rewritten only when its text changes."""
    from . import tables
    h = hashlib.sha256()
    for name, text in sorted(tables.render_all().items()):
        path = os.path.join(COQ, "Gen", name + ".v")
        old = open(path).read() if os.path.exists(path) else None
        if old != text:
            os.makedirs(os.path.dirname(path), exist_ok=True)
            with open(path, "w") as f:
                f.write(text)
        h.update(text.encode())
    return h.hexdigest()[:16]


def ensure_makefile():
    """_CoqProject lists every .v file present under coq/<Dir>/; Makefile is regenerated when the list changes."""
    files = []
    for d in ("Lib", "Gen", "Model", "Spec", "Corr", "Proof", "Props"):
        dd = os.path.join(COQ, d)
        if os.path.isdir(dd):
            files += sorted("%s/%s" % (d, f) for f in os.listdir(dd) if f.endswith(".v") and not f.startswith("."))
    text = ("-Q . TT\n-arg -w -arg -notation-overridden,-deprecated-hint-without-locality,"
            "-deprecated-instance-without-locality,-deprecated-hint-rewrite-without-locality\n" + "\n".join(files) + "\n")
    cp = os.path.join(COQ, "_CoqProject")
    mk = os.path.join(COQ, "Makefile")
    if not os.path.exists(cp) or open(cp).read() != text or not os.path.exists(mk):
        with open(cp, "w") as f:
            f.write(text)
        subprocess.run(["coq_makefile", "-f", "_CoqProject", "-o", "Makefile"], cwd=COQ, check=True,
                       capture_output=True)


def make(targets, timeout=3000):
    ensure_makefile()
    cmd = ["timeout", str(timeout), "make", "-j16"] + targets
    p = subprocess.run(cmd, cwd=COQ, capture_output=True, text=True)
    return p.returncode, p.stdout + p.stderr, " ".join(cmd)


def scan_forbidden(files):
    """No Admitted/Axiom/... anywhere in the development; Variable/Hypothesis
    only inside a Section."""
    bad = []
    for rel in files:
        path = os.path.join(COQ, rel)
        depth = 0
        text = open(path).read()
        text = re.sub(r"\(\*.*?\*\)", lambda m: "\n" * m.group(0).count("\n"), text, flags=re.S)
        for ln, line in enumerate(text.split("\n"), 1):
            if re.match(r"\s*Section\b", line):
                depth += 1
            if re.match(r"\s*End\b", line) and depth > 0:
                depth -= 1
            for m in FORBIDDEN.finditer(line):
                w = m.group(1)
                if w in ("Hypothesis", "Hypotheses", "Variable", "Variables") and depth > 0:
                    continue
                bad.append("%s:%d: %s" % (rel, ln, w))
    return bad


def all_v_files():
    ensure_makefile()
    out = []
    for line in open(os.path.join(COQ, "_CoqProject")):
        line = line.strip()
        if line.endswith(".v"):
            out.append(line)
    return out


def proof_layer(mod):
    """Build Props/Cxx.vo (and with it every lemma it rests on), read the
    Print Assumptions output, count obligations."""
    pid = mod.PROP
    props_v = "Props/%s.v" % pid
    t0 = time.time()
    rc, log, cmd = make(["Props/%s.vo" % pid, mod.CORR.replace(".", "/") + ".vo"])
    status = {"ok": rc == 0, "make_cmd": cmd, "wall_s": round(time.time() - t0, 1), "log_tail": log[-3000:]}
    files = [props_v] + list(getattr(mod, "PROOF_FILES", []))
    obligations = 0
    qed = 0
    theorems = []
    for rel in files:
        text = open(os.path.join(COQ, rel)).read()
        text = re.sub(r"\(\*.*?\*\)", "", text, flags=re.S)
        names = re.findall(r"^\s*(?:Theorem|Lemma|Example|Corollary|Fact|Remark)\s+([A-Za-z0-9_']+)", text, flags=re.M)
        obligations += len(names)
        qed += len(re.findall(r"\b(?:Qed|Defined)\.", text))
        if rel == props_v:
            theorems = names
    status["obligations"] = obligations
    status["discharged"] = min(qed, obligations) if rc == 0 else 0
    status["theorems"] = theorems
    status["forbidden"] = scan_forbidden(all_v_files())
    assumptions = {}
    if rc == 0:
        # re-run the property file alone to read what Print Assumptions says
        p = subprocess.run(["timeout", "900", "coqc", "-Q", COQ, "TT", "-w", "none", os.path.join(COQ, props_v)],
                           cwd=COQ, capture_output=True, text=True)
        status["print_assumptions_cmd"] = "coqc -Q coq TT coq/" + props_v
        out = p.stdout
        # blocks are in the order of the Print Assumptions commands
        blocks = re.split(r"(?=Closed under the global context|Axioms:)", out)
        blocks = [b.strip() for b in blocks if b.strip()]
        pa_names = re.findall(r"Print Assumptions\s+([A-Za-z0-9_']+)", open(os.path.join(COQ, props_v)).read())
        for name, b in zip(pa_names, blocks):
            assumptions[name] = " ".join(b.split())
        status["print_assumptions_ok"] = (p.returncode == 0 and len(blocks) == len(pa_names))
    status["assumptions"] = assumptions
    return status


def coqchk(pid):
    """Thorough tier: the independent checker re-checks Props/Cxx.vo and everything it depends on and lists the
    axioms the compiled files rely on (none are expected: stdlib + Lia only)."""
    cmd = ["timeout", "2400", "coqchk", "-o", "-silent", "-Q", ".", "TT", "TT.Props.%s" % pid]
    t0 = time.time()
    p = subprocess.run(cmd, cwd=COQ, capture_output=True, text=True)
    out = p.stdout + p.stderr
    m = re.search(r"\* Axioms:(.*?)\n\s*\n\* Constants/Inductives relying on type-in-type:(.*?)\n\s*\n"
                  r"\* Constants/Inductives relying on unsafe \(co\)fixpoints:(.*?)\n\s*\n"
                  r"\* Inductives whose positivity is assumed:(.*?)\n", out + "\n\n", flags=re.S)
    res = {"cmd": " ".join(cmd), "wall_s": round(time.time() - t0, 1), "tail": out[-1500:]}
    if p.returncode != 0 or not m:
        res.update(ok=False, axioms=None)
        return res
    ax, tit, unsafe, pos = [" ".join(x.split()) for x in m.groups()]
    res.update(axioms=ax, type_in_type=tit, unsafe_fixpoints=unsafe, positivity_assumed=pos)
    # kernel checks must not be switched off anywhere below the property file
    res["ok"] = tit == "<none>" and unsafe == "<none>" and pos == "<none>"
    return res


# --------------------------------------------------------------------------
# running the implementation
# --------------------------------------------------------------------------
class CaseTimeout(Exception):
    pass


def _alarm(signum, frame):
    raise CaseTimeout()


_MOD = None


def _init_worker(modname):
    global _MOD
    _MOD = importlib.import_module(modname)
    signal.signal(signal.SIGALRM, _alarm)
    import testtools
    assert os.path.realpath(testtools.__file__).startswith(os.path.realpath(REPO) + os.sep), \
        "testtools imported from %s, not from %s" % (testtools.__file__, REPO)


def _drive_one(case):
    signal.setitimer(signal.ITIMER_REAL, getattr(_MOD, "CASE_TIMEOUT", CASE_TIMEOUT))
    try:
        return {"obs": _MOD.drive(case)}
    except CaseTimeout:
        return {"crash": "Hung (no result after %ss)" % getattr(_MOD, "CASE_TIMEOUT", CASE_TIMEOUT)}
    except BaseException as e:  # noqa - an unexpected raise out of the code under test is an observation
        return {"crash": "%s: %s" % (type(e).__name__, str(e)[:300]),
                "trace": traceback.format_exc()[-1500:]}
    finally:
        signal.setitimer(signal.ITIMER_REAL, 0)


class Driver:
    def __init__(self, mod, procs=None):
        self.mod = mod
        procs = procs or getattr(mod, "PROCS", 16)
        ctx = multiprocessing.get_context("fork")
        self.pool = ctx.Pool(procs, initializer=_init_worker, initargs=(mod.__name__,),
                             maxtasksperchild=getattr(mod, "MAXTASKS", None))

    def run(self, cases):
        if not cases:
            return []
        chunk = max(1, min(64, len(cases) // 64))
        return self.pool.map(_drive_one, cases, chunksize=chunk)

    def close(self):
        self.pool.terminate()
        self.pool.join()


# --------------------------------------------------------------------------
# one evaluation round: implementation + Coq
# --------------------------------------------------------------------------
class Round:
    """cases -> observations -> (D, V, K)"""

    def __init__(self, mod, driver, workdir):
        self.mod, self.driver, self.workdir = mod, driver, workdir
        self.counter = 0

    def evaluate(self, cases, canary=True):
        mod = self.mod
        outs = self.driver.run(cases)
        idx_ok = [k for k, o in enumerate(outs) if "obs" in o]
        crashed = [k for k, o in enumerate(outs) if "crash" in o]
        terms = [mod.term(cases[k], outs[k]["obs"]) for k in idx_ok]
        self.counter += 1

        def canary_for(first):
            if not canary or not hasattr(mod, "perturb"):
                return None
            k = idx_ok[first]
            return mod.term(cases[k], mod.perturb(cases[k], outs[k]["obs"]))

        n, d, v, f = (0, [], [], {})
        if terms:
            n, d, v, f = coqio.run_shards(os.path.join(self.workdir, "r%d" % self.counter), mod.CORR, terms,
                                          extra_requires=getattr(mod, "REQUIRES", ()),
                                          canary_for=canary_for, tag="cases")
        D = set(idx_ok[k] for k in d) | set(crashed)
        V = set(idx_ok[k] for k in v) | set(crashed)
        F = {idx_ok[k]: fs for k, fs in f.items()}
        return outs, n + len(crashed), D, V, F


def shrink(mod, rnd, case, still_bad, rounds=12, width=60):
    """Greedy batch shrinking: at each round evaluate all one-step reductions
    in one shard and move to the first that is still bad."""
    if not hasattr(mod, "shrink"):
        return case
    cur = case
    for _ in range(rounds):
        cands = []
        for c in mod.shrink(cur):
            if c != cur and c not in cands:
                cands.append(c)
            if len(cands) >= width:
                break
        if not cands:
            break
        try:
            outs, n, D, V, F = rnd.evaluate(cands, canary=False)
        except Exception:
            break
        nxt = None
        for k in range(len(cands)):
            if still_bad(k, outs, D, V, F):
                nxt = cands[k]
                break
        if nxt is None:
            break
        cur = nxt
    return cur


# --------------------------------------------------------------------------
# known findings, replay files, evidence
# --------------------------------------------------------------------------
def load_findings(pid):
    path = os.path.join(ROOT, "known_findings.json")
    if not os.path.exists(path):
        return []
    data = json.load(open(path))
    return [f for f in data.get("findings", []) if f["property"] == pid]


def repo_rev():
    try:
        rev = subprocess.run(["git", "-C", REPO, "rev-parse", "HEAD"], capture_output=True, text=True).stdout.strip()
        st = subprocess.run(["git", "-C", REPO, "diff", "--stat"], capture_output=True, text=True).stdout.strip()
        return rev, st
    except Exception:
        return "?", ""


def write_replay(pid, name, payload):
    os.makedirs(os.path.join(ROOT, "replays"), exist_ok=True)
    rel = os.path.join("replays", name)
    rev, st = repo_rev()
    payload = dict(payload)
    payload.update({"property": pid, "repo": REPO, "repo_rev": rev, "repo_diff_stat": st,
                    "replay_cmd": "./check %s --replay %s" % (pid, rel)})
    with open(os.path.join(ROOT, rel), "w") as f:
        json.dump(payload, f, indent=1, sort_keys=True, default=str)
    return rel


def write_evidence(pid, ev):
    # evidence/ describes /repo itself; a run against another tree (VERIF_REPO, mutation self-test) writes elsewhere
    d = os.path.join(ROOT, "evidence") if os.path.realpath(REPO) == "/repo" else os.path.join(ROOT, ".work", "evidence-other-tree")
    os.makedirs(d, exist_ok=True)
    with open(os.path.join(d, pid + ".json"), "w") as f:
        json.dump(ev, f, indent=1, sort_keys=True, default=str)


def corpus_cases(pid):
    d = os.path.join(ROOT, "corpus", pid)
    out = []
    if os.path.isdir(d):
        for fn in sorted(os.listdir(d)):
            if fn.endswith(".json"):
                data = json.load(open(os.path.join(d, fn)))
                out.append(data["case"] if isinstance(data, dict) and "case" in data else data)
    return out


def canon(case):
    return json.dumps(case, sort_keys=True)


# --------------------------------------------------------------------------
# the check
# --------------------------------------------------------------------------
def run_check(pid, tier, seed):
    t0 = time.time()
    mod = importlib.import_module("vcheck.props." + pid.lower())
    workdir = os.path.join(ROOT, ".work", "%s-%d" % (pid, os.getpid()))
    shutil.rmtree(workdir, ignore_errors=True)
    os.makedirs(workdir)
    lock = Lock()
    lines = []          # VIOLATION / KNOWN-FINDING lines to print
    violations = 0
    findings = load_findings(pid)
    rng = random.Random(seed)
    driver = None
    ev = {"property_id": pid, "tier": tier, "seed": seed, "level": "proof", "coverage": {}, "assumptions": [],
          "wall_s": 0.0, "violations": 0}
    try:
        # ---- proof layer -------------------------------------------------
        lock.ex()
        try:
            tables_hash = regenerate_tables()
            proof = proof_layer(mod)
            if tier == "thorough" and proof["ok"]:
                lock.sh()      # coqchk only reads .vo files: let other checks' coqchk runs proceed, keep `make` out
                proof["coqchk"] = coqchk(pid)
        finally:
            lock.un()
        proof_ok = proof["ok"] and not proof["forbidden"] and proof.get("print_assumptions_ok", False)
        if "coqchk" in proof and not proof["coqchk"]["ok"]:
            proof_ok = False
            proof["log_tail"] = "coqchk: " + proof["coqchk"]["tail"]
        corr_vo = os.path.join(COQ, mod.CORR.replace(".", "/") + ".vo")
        corr_built = os.path.exists(corr_vo) and (proof["ok"] or make([mod.CORR.replace(".", "/") + ".vo"])[0] == 0)

        # ---- correspondence layer ---------------------------------------
        cases, outs, D, V, F = [], [], set(), set(), {}
        n_seen = 0
        extra = []
        if corr_built:
            driver = Driver(mod)
            rnd = Round(mod, driver, workdir)
            seen = set()
            for c in [f["witness"] for f in findings] + corpus_cases(pid) + mod.generate(rng, tier):
                k = canon(c)
                if k not in seen:
                    seen.add(k)
                    cases.append(c)
            outs, n_seen, D, V, F = rnd.evaluate(cases)
            if hasattr(mod, "extra_checks"):
                extra = mod.extra_checks(tier, rng)   # glue samples (subprocess CLI ...): list of dicts with ok/desc

        fid_num = {f["id"]: f["num"] for f in findings}
        known_nums = set(fid_num.values())
        K = set(k for k, fs in F.items() if set(fs) & known_nums and k not in D)
        bad = sorted(V - K)
        extra_bad = [e for e in extra if not e.get("ok")]

        def mk_payload(kind, case, out, why):
            payload = {"kind": kind, "why": why, "case": case, "seed": seed, "tier": tier}
            if out is not None:
                payload["impl_observation"] = out
                if "obs" in out and corr_built:
                    payload["gallina"] = mod.term(case, out["obs"])
                    payload["model_at (model_obs, model_meets_spec, impl_meets_spec)"] = coqio.model_at(
                        workdir, mod.CORR, payload["gallina"], extra_requires=getattr(mod, "REQUIRES", ()))
            return payload

        if bad:
            k = bad[0]

            def still_v(j, o, d, v, f):
                return j in v and not (set(f.get(j, [])) & known_nums and j not in d)
            small = shrink(mod, rnd, cases[k], still_v)
            so, _, sd, sv, sf = rnd.evaluate([small], canary=False)
            rel = write_replay(pid, "%s-%s-%d-failing.json" % (pid, tier, seed),
                               mk_payload("failing-input", small, so[0],
                                          "the implementation's observation fails the executable statement "
                                          "Spec.%s.spec_okb (or the code crashed/hung) on this input" % pid))
            lines.append("VIOLATION property=%s replay=%s" % (pid, rel))
            violations += len(bad)
        elif extra_bad:
            rel = write_replay(pid, "%s-%s-%d-glue.json" % (pid, tier, seed),
                               {"kind": "failing-input", "why": "a command-line / glue sample disagrees with the statement",
                                "samples": extra_bad[:5], "seed": seed, "tier": tier})
            lines.append("VIOLATION property=%s replay=%s" % (pid, rel))
            violations += len(extra_bad)
        elif D - K or not proof_ok or not corr_built:
            # the tie is broken but no failing input yet: search
            found = None
            if corr_built:
                budget = 60 if tier == "quick" else 600
                t1 = time.time()
                pool = []
                for k in sorted(D)[:20]:
                    if hasattr(mod, "shrink"):
                        pool += list(mod.shrink(cases[k]))[:50]
                    if hasattr(mod, "neighbours"):
                        pool += list(mod.neighbours(cases[k], rng))[:100]
                sround = 0
                while found is None and time.time() - t1 < budget:
                    sround += 1
                    if not pool:
                        pool = mod.generate(random.Random(seed * 7919 + sround), tier)
                    so, _, sd, sv, sf = rnd.evaluate(pool, canary=False)
                    sk = set(k for k, fs in sf.items() if set(fs) & known_nums and k not in sd)
                    hit = sorted(sv - sk)
                    if hit:
                        found = (pool[hit[0]], so[hit[0]])
                    pool = []
                    if sround >= (3 if tier == "quick" else 12):
                        break
            if found:
                rel = write_replay(pid, "%s-%s-%d-failing.json" % (pid, tier, seed),
                                   mk_payload("failing-input", found[0], found[1],
                                              "found by the search that follows a broken proof/correspondence"))
                lines.append("VIOLATION property=%s replay=%s" % (pid, rel))
            else:
                if not proof_ok:
                    what = {"broken": "proof layer: make Props/%s.vo" % pid, "forbidden": proof["forbidden"],
                            "log_tail": proof["log_tail"]}
                    m = re.search(r'File "\./([^"]+)", line (\d+)', proof["log_tail"])
                    if m:
                        what["broken"] = "theorem/lemma at coq/%s line %s no longer checks" % (m.group(1), m.group(2))
                else:
                    what = {"broken": "correspondence %s.report (model and implementation disagree)" % mod.CORR}
                payload = {"kind": "no-failing-input-found", "seed": seed, "tier": tier}
                payload.update(what)
                if D - K:
                    k = sorted(D - K)[0]

                    def still_d(j, o, d, v, f):
                        return j in d
                    small = shrink(mod, rnd, cases[k], still_d)
                    so, _, _, _, _ = rnd.evaluate([small], canary=False)
                    payload.update(mk_payload("no-failing-input-found", small, so[0],
                                              "model and implementation disagree on this input; the statement "
                                              "itself is not falsified by it"))
                rel = write_replay(pid, "%s-%s-%d-broken.json" % (pid, tier, seed), payload)
                lines.append("VIOLATION property=%s replay=%s no-failing-input-found" % (pid, rel))
            violations += 1
        # known findings reproduced on this run
        reproduced = []
        for f in findings:
            kk = [k for k in range(len(cases)) if canon(cases[k]) == canon(f["witness"])]
            if kk and kk[0] in V and kk[0] in K:
                reproduced.append(f["id"])
                rel = write_replay(pid, "%s-%s.json" % (pid, f["id"]),
                                   mk_payload("known-finding", cases[kk[0]], outs[kk[0]], f["what"]))
                lines.append("KNOWN-FINDING: property=%s %s %s (witness %s)" % (pid, f["id"], f["what"], rel))

        # ---- evidence ----------------------------------------------------
        anchored_cov = {}
        if cases and not getattr(mod, "NO_COVERAGE", False):
            try:
                step = max(1, len(cases) // 300)
                sample = cases[::step][:300]
                cj = os.path.join(workdir, "covcases.json")
                oj = os.path.join(workdir, "cov.json")
                json.dump(sample, open(cj, "w"))
                subprocess.run([sys.executable, "-m", "vcheck.covrun", pid, cj, oj], timeout=300,
                               capture_output=True, text=True)
                anchored_cov = json.load(open(oj))
            except Exception as e:  # evidence only
                anchored_cov = {"error": str(e)[:200]}
        nontriv = set()
        for c in cases:
            if mod.nontrivial(c):
                nontriv.add(canon(c))
        samples = []
        for k in range(min(3, len(cases))):
            j = (len(cases) - 1) * k // 2 if len(cases) > 1 else 0
            samples.append({"input": cases[j], "implementation_observation": outs[j]})
        tb = ["Coq 8.16.1 kernel (coqc); vm_compute used for correspondence evaluation and finite table lemmas; "
              "no native_compute",
              "hand-written Gallina model tied to /repo by the correspondence check (differential execution "
              "inside coqc); harness, drivers and Gallina term printer under /verif/harness",
              "Gen/Tables.v printed from the imported live code (tables hash %s)" % tables_hash]
        for name, a in proof["assumptions"].items():
            tb.append("Print Assumptions %s: %s" % (name, a))
        if "coqchk" in proof:
            c = proof["coqchk"]
            tb.append("coqchk -o TT.Props.%s (independent checker, %ss): axioms %s; type-in-type %s; unsafe fixpoints %s; "
                      "positivity assumed %s" % (pid, c["wall_s"], c.get("axioms"), c.get("type_in_type"),
                                                 c.get("unsafe_fixpoints"), c.get("positivity_assumed")))
        tb += list(getattr(mod, "TRUSTED", []))
        cov = {
            "obligations": proof["obligations"], "discharged": proof["discharged"],
            "checker_cmd": proof["make_cmd"] + " ; " + proof.get("print_assumptions_cmd", "") +
            " ; coqc <generated case shards importing %s> (Eval vm_compute in report)" % mod.CORR,
            "trusted_base": tb,
            "theorems": proof["theorems"],
            "proof_layer_ok": proof_ok, "proof_wall_s": proof["wall_s"],
            "forbidden_constructs_found": proof["forbidden"],
            "evaluations": n_seen, "distinct_nontrivial": len(nontriv),
            "rule": getattr(mod, "RULE", ""),
            "traces_validated_against_impl": n_seen,
            "disagreements_checked": len(D),
            "disagreeing_cases": len(D), "cases_failing_statement": len(V), "cases_in_known_findings": len(K),
            "known_findings_reproduced": reproduced,
            "input_distribution": mod.distribution(cases) if hasattr(mod, "distribution") else {},
            "anchored_line_coverage": anchored_cov,
            "glue_samples": {"run": len(extra), "failed": len(extra_bad), "examples": extra[:3]},
            "samples": samples,
            "explanation": getattr(mod, "EXPLANATION", ""),
        }
        ev["coverage"] = cov
        ev["assumptions"] = list(getattr(mod, "ASSUMPTIONS", []))
        ev["violations"] = violations
    finally:
        if driver:
            driver.close()
        try:
            lock.un()
        except Exception:
            pass
        shutil.rmtree(workdir, ignore_errors=True)
    ev["wall_s"] = round(time.time() - t0, 1)
    write_evidence(pid, ev)
    for ln in lines:
        print(ln)
    if not any(ln.startswith("VIOLATION") for ln in lines):
        print("OK property=%s tier=%s seed=%d cases=%d nontrivial=%d obligations=%d/%d wall=%.0fs" % (
            pid, tier, seed, ev["coverage"].get("evaluations", 0), ev["coverage"].get("distinct_nontrivial", 0),
            ev["coverage"].get("discharged", 0), ev["coverage"].get("obligations", 0), ev["wall_s"]))
        return 0
    return 1


def run_replay(pid, path):
    mod = importlib.import_module("vcheck.props." + pid.lower())
    data = json.load(open(path if os.path.isabs(path) else os.path.join(ROOT, path)))
    case = data["case"]
    _init_worker(mod.__name__)
    out = _drive_one(case)
    print("input:", json.dumps(case))
    print("implementation:", json.dumps(out, default=str))
    if "obs" in out:
        workdir = os.path.join(ROOT, ".work", "replay-%d" % os.getpid())
        try:
            print("(model observation, model meets spec, implementation meets spec):")
            print(coqio.model_at(workdir, mod.CORR, mod.term(case, out["obs"]),
                                 extra_requires=getattr(mod, "REQUIRES", ())))
        finally:
            shutil.rmtree(workdir, ignore_errors=True)
    return 0


def setup():
    """Clean full build.  `make -k` so that an unfinished file of a property that is not yet claimed in
    MANIFEST.json cannot stop the build of the claimed ones; fails when a target of a claimed property
    (Props/Cxx.vo, Corr/Cxx.vo) is missing afterwards or a forbidden construct is present anywhere."""
    lock = Lock()
    lock.ex()
    regenerate_tables()
    ensure_makefile()
    subprocess.run(["make", "clean"], cwd=COQ, capture_output=True) if os.path.exists(os.path.join(COQ, "Makefile")) else None
    ensure_makefile()
    cmd = ["timeout", "3000", "make", "-k", "-j16"]
    p = subprocess.run(cmd, cwd=COQ, capture_output=True, text=True)
    log = p.stdout + p.stderr
    print(log[-3000:])
    claimed = [c["property_id"] for c in json.load(open(os.path.join(ROOT, "MANIFEST.json")))["checks"]]
    missing = [t for pid in claimed for t in ("Props/%s.vo" % pid, "Corr/%s.vo" % pid)
               if not os.path.exists(os.path.join(COQ, t))]
    if p.returncode != 0:
        print("make -k returned %d (files of unclaimed properties may be unfinished)" % p.returncode)
    if missing:
        print("setup FAILED: not built:", missing)
        return 1
    bad = scan_forbidden(all_v_files())
    if bad:
        print("forbidden constructs:", bad)
        return 1
    print("setup ok: built targets of", claimed)
    return 0


def main(argv=None):
    ap = argparse.ArgumentParser()
    ap.add_argument("prop", nargs="?")
    ap.add_argument("--tier", default=os.environ.get("VERIF_TIER") or "quick", choices=["quick", "thorough"])
    ap.add_argument("--seed", type=int, default=None)
    ap.add_argument("--replay")
    ap.add_argument("--setup", action="store_true")
    a = ap.parse_args(argv)
    if a.setup:
        return setup()
    seed = a.seed if a.seed is not None else int(os.environ.get("VERIF_SEED") or 0)
    if a.replay:
        return run_replay(a.prop, a.replay)
    return run_check(a.prop, a.tier, seed)


if __name__ == "__main__":
    sys.exit(main())
