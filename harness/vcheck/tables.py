"""Gen/Tables.v: declarative tables read from the imported live code of the
tree under test (DESIGN 3.2).  Each section is produced by a function that
imports the relevant module, inspects objects, and prints Gallina text."""

SECTIONS = []


def section(f):
    SECTIONS.append(f)
    return f


def render():
    out = ["(* GENERATED on every run by harness/vcheck/tables.py from the imported code. Do not edit. *)",
           "From Coq Require Import List String.", "Import ListNotations.", "Open Scope string_scope.", ""]
    for f in SECTIONS:
        out.append("(* ---- %s ---- *)" % f.__name__)
        out.append(f())
        out.append("")
    return "\n".join(out)
