"""Gen/*.v: declarative tables read from the imported live code of the tree
under test (DESIGN 3.2).  Every module harness/vcheck/tabs/<name>.py defines
render() -> Gallina text, written to coq/Gen/<Name>.v (first letter upper-cased)
on every run, before the proof layer is built."""
import importlib
import os
import pkgutil

HEADER = "(* GENERATED on every run by harness/vcheck/tabs/%s.py from the imported code of the tree under test. Do not edit. *)\n"


def render_all():
    from . import tabs
    out = {}
    for m in sorted(pkgutil.iter_modules(tabs.__path__), key=lambda m: m.name):
        mod = importlib.import_module("vcheck.tabs." + m.name)
        out[m.name[0].upper() + m.name[1:]] = HEADER % m.name + mod.render()
    return out
