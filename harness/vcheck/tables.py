"""Gen/*.v: declarative tables read from the imported live code of the tree
under test (DESIGN 3.2).  Every module harness/vcheck/tabs/<name>.py defines
render() -> Gallina text, written to coq/Gen/<Name>.v (first letter upper-cased)
on every run, before the proof layer is built."""
import importlib
import os
import pkgutil

HEADER = "(* GENERATED on every run by harness/vcheck/tabs/%s.py from the imported code of the tree under test. Do not edit. *)\n"


def render_all():
    from . import tabs
    out = {}
    for m in sorted(pkgutil.iter_modules(tabs.__path__), key=lambda m: m.name):
        name = m.name[0].upper() + m.name[1:]
        try:
            mod = importlib.import_module("vcheck.tabs." + m.name)
            out[name] = HEADER % m.name + mod.render()
        except BaseException as e:  # noqa - the tree under test may be broken; only dependants of this table must fail
            msg = ("%s: %s" % (type(e).__name__, e)).replace("*)", "* )").replace("(*", "( *")[:300]
            out[name] = (HEADER % m.name + "(* the table could not be read from the tree under test: " + msg + " *)\n"
                         "Definition table_could_not_be_rendered : False := I.\n")
    return out
