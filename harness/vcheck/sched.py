"""A deterministic scheduler for REAL threads (C12, C13).

Every operation on a shared harness object (semaphore acquire/release, a call on the shared
target, queue put/get, thread join) is a *yield point*: the calling thread parks there, before
performing the operation, and only the scheduler decides which parked thread goes on.  Exactly
one thread runs between two yield points.  A schedule is a list of task indices; when the task
named by the next entry is blocked or finished, the next runnable one (cyclically) runs instead;
when the schedule is used up the lowest-numbered runnable task runs, until none is runnable.
"No task runnable while one is unfinished" is reported as a deadlock - the threads are then
released with an Abort exception so that nothing is left hanging (all threads are daemons).

The scheduler itself uses the genuine `threading` module; the code under test only ever sees the
objects below (or, for C13, a namespace object standing in for `threading`)."""
import threading
import time


class Abort(BaseException):
    """Raised inside parked threads when the scheduler gives up (deadlock, hang, end of case)."""


class Task:
    def __init__(self, sched, tid, fn, name):
        self.sched = sched
        self.tid = tid
        self.fn = fn
        self.name = name
        self.go = threading.Semaphore(0)
        self.enabled = None          # callable: may the pending operation be performed now?
        self.finished = False
        self.exc = None              # exception that ended the task's function, if any
        self.thread = None

    def is_alive_for_join(self):
        return not self.finished


class Scheduler:
    def __init__(self, schedule, step_timeout=10.0, max_steps=100000):
        self.schedule = list(schedule)
        self.tasks = []
        self.by_ident = {}
        self.back = threading.Semaphore(0)
        self.waiter = self.back       # who is told when the running task parks or finishes
        self.aborting = False
        self.deadlock = False
        self.hung = False
        self.steps = 0
        self.step_timeout = step_timeout
        self.max_steps = max_steps
        self.trace = []               # tids in the order they were actually run

    # ---- called from task threads -------------------------------------------------------
    def current(self):
        return self.by_ident.get(threading.get_ident())

    def current_tid(self):
        t = self.current()
        return t.tid if t is not None else -1

    def park(self, enabled=None):
        """Yield point: returns when the scheduler lets this task perform its operation."""
        task = self.current()
        if task is None:              # not one of ours (e.g. the harness thread itself): no scheduling
            return
        if self.aborting:
            raise Abort()
        task.enabled = enabled or _always
        self.waiter.release()
        task.go.acquire()
        task.enabled = None
        if self.aborting:
            raise Abort()

    # ---- task creation -----------------------------------------------------------------
    def spawn(self, fn, name=None):
        """Create a task and run it up to its first yield point (or to its end).  May be called
        from the harness thread before run() or from a running task."""
        task = Task(self, len(self.tasks), fn, name or "task%d" % len(self.tasks))
        self.tasks.append(task)
        ready = threading.Semaphore(0)
        prev = self.waiter
        self.waiter = ready
        th = threading.Thread(target=self._body, args=(task,), name=task.name, daemon=True)
        task.thread = th
        th.start()
        ok = ready.acquire(timeout=self.step_timeout)
        self.waiter = prev
        if not ok:
            self.hung = True
            raise Abort()
        return task

    def _body(self, task):
        self.by_ident[threading.get_ident()] = task
        try:
            task.fn()
        except Abort:
            pass
        except BaseException as e:  # noqa - recorded, the observation decides what it means
            task.exc = e
        finally:
            task.finished = True
            task.enabled = None
            self.waiter.release()

    # ---- the scheduling loop (harness thread) ------------------------------------------------
    def _runnable(self):
        out = []
        for t in self.tasks:
            if not t.finished and t.enabled is not None:
                try:
                    if t.enabled():
                        out.append(t)
                except Exception:
                    pass
        return out

    def run(self):
        pos = 0
        try:
            while True:
                if all(t.finished for t in self.tasks):
                    break
                ready = self._runnable()
                if not ready:
                    self.deadlock = True
                    break
                n = len(self.tasks)
                if pos < len(self.schedule):
                    want = self.schedule[pos] % n
                    pos += 1
                    ready_ids = set(t.tid for t in ready)
                    pick = None
                    for j in range(n):
                        if (want + j) % n in ready_ids:
                            pick = self.tasks[(want + j) % n]
                            break
                else:
                    pick = ready[0]
                self.steps += 1
                if self.steps > self.max_steps:
                    self.hung = True
                    break
                self.trace.append(pick.tid)
                pick.go.release()
                if not self.back.acquire(timeout=self.step_timeout):
                    self.hung = True
                    break
        finally:
            self.shutdown()

    def shutdown(self):
        self.aborting = True
        for t in self.tasks:
            if not t.finished:
                t.go.release()
        deadline = time.time() + 2.0
        for t in self.tasks:
            if t.thread is not None:
                t.thread.join(max(0.0, deadline - time.time()))


def _always():
    return True


# ---------------------------------------------------------------------------------------
# scheduler-aware shared objects
# ---------------------------------------------------------------------------------------
class SchedSemaphore:
    """A counting semaphore whose acquire and release are yield points; logs both."""

    def __init__(self, sched, value=1, log=None):
        self.sched = sched
        self.count = value
        self.log = log
        self.n_failed_tries = 0

    def acquire(self, blocking=True, timeout=None):
        """threading.Semaphore.acquire: a blocking acquire is enabled only while the counter is positive.
        A non-blocking acquire (blocking=False) or one with a timeout is a yield point that is ALWAYS
        enabled: whether it obtains the semaphore depends on the counter at the moment the scheduler
        lets it go (a timeout expiring = being scheduled while the semaphore is still held).  A failed
        attempt changes nothing on the shared object and is not logged."""
        if not blocking and timeout is not None:
            raise ValueError("can't specify timeout for non-blocking acquire")
        if blocking and timeout is None:
            self.sched.park(lambda: self.count > 0)
        else:
            self.sched.park()
            if self.count <= 0:
                self.n_failed_tries += 1
                return False
        self.count -= 1
        if self.log is not None:
            self.log.append((self.sched.current_tid(), "acq"))
        return True

    def release(self, n=1):
        self.sched.park()
        self.count += n
        if self.log is not None:
            self.log.append((self.sched.current_tid(), "rel"))

    __enter__ = acquire

    def __exit__(self, *a):
        self.release()


class SchedQueue:
    """queue.Queue stand-in: put and get are yield points, get is enabled only when non-empty.

    `invisible(item)` marks items that are neither scheduled nor logged (attachment-only stream
    events whose number depends on traceback formatting): a put of such an item is held back and
    enqueued, in order, together with the putting thread's next visible item; a scheduled get hands
    the leading invisible items and then the one visible item to the caller as one step."""

    def __init__(self, sched, log=None, get_faults=(), exc=KeyboardInterrupt, describe=None, invisible=None):
        self.sched = sched
        self.items = []
        self.log = log
        self.ngets = 0
        self.get_faults = set(get_faults)
        self.exc = exc
        self.describe = describe or (lambda item: item)
        self.invisible = invisible or (lambda item: False)
        self.held = {}
        self.carry = False
        self.n_invisible = 0

    def put(self, item, block=True, timeout=None):
        tid = self.sched.current_tid()
        if self.invisible(item):
            self.held.setdefault(tid, []).append(item)
            return
        self.sched.park()
        self.items.extend(self.held.pop(tid, []))
        self.items.append(item)
        if self.log is not None:
            self.log.append((tid, "put", self.describe(item)))

    def get(self, block=True, timeout=None):
        if not self.carry:
            k = self.ngets
            self.ngets += 1
            if k in self.get_faults:       # an interrupt arriving while blocked in get()
                self.sched.park()
                if self.log is not None:
                    self.log.append((self.sched.current_tid(), "getintr"))
                raise self.exc()
            self.sched.park(lambda: len(self.items) > 0)
        item = self.items.pop(0)
        if self.invisible(item):
            self.carry = True
            self.n_invisible += 1
            return item
        self.carry = False
        if self.log is not None:
            self.log.append((self.sched.current_tid(), "get", self.describe(item)))
        return item


class SchedThread:
    """threading.Thread stand-in: start() is a yield point of the parent and then creates a scheduler
    task (which runs up to its first yield point); join() is a yield point enabled only when that
    task has finished."""

    sched = None     # set on the subclass made by ThreadingNamespace
    registry = None
    log = None

    def __init__(self, group=None, target=None, name=None, args=(), kwargs=None, daemon=None):
        self._target = target
        self._args = args
        self._kwargs = kwargs or {}
        self.task = None
        self.name = name
        self.daemon = daemon
        self.index = len(self.registry)
        self.registry.append(self)

    def run(self):
        if self._target is not None:
            self._target(*self._args, **self._kwargs)

    def start(self):
        self.sched.park()
        if self.log is not None:
            self.log.append((self.sched.current_tid(), "spawn", self.index))
        self.task = self.sched.spawn(self.run, name=self.name)

    def join(self, timeout=None):
        self.sched.park(lambda: self.task is None or self.task.finished)
        if self.log is not None:
            self.log.append((self.sched.current_tid(), "join", self.index))

    def is_alive(self):
        return self.task is not None and not self.task.finished


class ThreadingNamespace:
    """What C13 binds to `testtools.testsuite.threading`."""

    def __init__(self, sched, sem_log=None):
        self.sched = sched
        self.threads = []
        ns = self

        class Thread(SchedThread):
            pass
        Thread.sched = sched
        Thread.registry = self.threads
        Thread.log = sem_log
        self.Thread = Thread
        self.semaphores = []

        def Semaphore(value=1):
            s = SchedSemaphore(sched, value, sem_log)
            ns.semaphores.append(s)
            return s
        self.Semaphore = Semaphore
        self.current_thread = threading.current_thread
        self.get_ident = threading.get_ident
